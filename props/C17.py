"""C17 — unit-cell lengths/angles and box vectors describe the same cell.

(1) gridx: every valid (lengths x angles) cell of a designed grid x every rotation of its vector description:
    the reported vectors have the stored norms and mutual angles, standard orientation, volume = triple product;
    setting the vectors from a rotated description returns the cell's lengths/angles/volume.
(2) histx: every sequence (depth 2, thorough 3) of cell assignments (vectors / lengths / angles / None), slicing,
    joining, stacking, atom subsetting, HDF5 save+load from 3 initial states, against a (lengths, angles) model:
    a complete per-frame cell exists exactly when the model says so and all fields keep n_frames rows.
"""
import itertools
import os

import numpy as np

MANIFEST = {
    "category": "model_checking",
    "engine": "histx+gridx",
    "technique": "exhaustive enumeration of a cell grid x rotation group against float64 vector geometry, and exhaustive "
                 "depth-bounded exploration of unit-cell assignment/derivation histories against a (lengths, angles) model",
    "text": "Grid: lengths ratios {(1,1,1),(1,2.5,6),(6,1,2.5),(2.5,6,1)} x angle triples from {45,60,75,90,105,109.47,120,135}^3 "
            "that satisfy the positivity condition (quick: every second value) x 30 rotations (quick 9) x per-frame stacking: "
            "norms, mutual angles (alpha between b and c, ...), a along x, b in the xy-plane, positive determinant, volume = "
            "triple product, and round trip through a rotated vector description. Histories: 16-op alphabet {set vectors "
            "(cubic / half-turn-rotated orthorhombic / rotated triclinic / per-frame varying), set lengths, set angles, set lengths None, set angles None, "
            "vectors None, frame-0-rectangular-then-sheared vectors, t[::2], t[0], join, stack, atom_slice, h5 save+load, copy} to depth 2 (3) from {no cell, full cell, "
            "1 frame}; after each step lengths/angles equal the model, have n_frames rows, vectors exist iff both do, and "
            "volumes equal the triple product.",
    "note": "Near-degenerate cells (positivity margin 1e-3) are in the thorough grid with a condition-number dependent "
            "tolerance. Half-set cells (only lengths or only angles assigned) are modelled as such; save+load is issued only "
            "from complete or absent cells.",
    "ref": "DESIGN.md §3 C17",
}

EPS = float(np.finfo(np.float32).eps)
ANG = [45.0, 60.0, 75.0, 90.0, 105.0, 109.4712206, 120.0, 135.0]
RATIOS = [(1.0, 1.0, 1.0), (1.0, 2.5, 6.0), (6.0, 1.0, 2.5), (2.5, 6.0, 1.0)]


def positivity(al, be, ga):
    a, b, c = np.radians([al, be, ga])
    return 1 - np.cos(a) ** 2 - np.cos(b) ** 2 - np.cos(c) ** 2 + 2 * np.cos(a) * np.cos(b) * np.cos(c)


def _top(n):
    import mdtraj as md
    top = md.Topology()
    ch = top.add_chain()
    for i in range(n):
        r = top.add_residue("ALA", ch)
        top.add_atom("CA", md.element.carbon, r)
    return top


def _angles_of(v):
    a, b, c = v[..., 0, :], v[..., 1, :], v[..., 2, :]
    n = lambda x: np.linalg.norm(x, axis=-1)
    ang = lambda x, y: np.degrees(np.arccos(np.clip(np.einsum("...i,...i->...", x, y) / n(x) / n(y), -1, 1)))
    return np.stack([n(a), n(b), n(c)], -1), np.stack([ang(b, c), ang(a, c), ang(a, b)], -1)


def grid_job(args):
    """All angle triples for one ratio; frames = angle triples (vectorised); all rotations."""
    ratio, quick, seed = args
    import mdtraj as md
    from vlib import grids
    angs = ANG[::2] + [109.4712206] if quick else ANG
    triples = [t for t in itertools.product(angs, repeat=3) if positivity(*t) > 0.02]
    # the rectangular cell is frame 0 of the all-cells trajectory: a shortcut decided from the first frame only
    # ("the trajectory is rectilinear") then meets sheared frames behind it
    triples.sort(key=lambda t: t != (90.0, 90.0, 90.0))
    near = []
    if not quick:
        # near-degenerate: gamma pushed towards the boundary alpha + beta (positivity margin ~1e-3)
        for al, be in itertools.product([45.0, 60.0, 75.0], repeat=2):
            lo, hi = abs(al - be), al + be
            for g in (hi - 1.5, lo + 1.5):
                if 1e-4 < positivity(al, be, g) < 0.02 and 0 < g < 180:
                    near.append((al, be, g))
    cells = triples + near
    F = len(cells)
    L = np.array([ratio] * F) * (1.0 + 0.01 * seed)
    A = np.array(cells)
    viol = []
    n_eval = 0
    worst = 0.0
    t = md.Trajectory(np.zeros((F, 2, 3), np.float32), _top(2), unitcell_lengths=L, unitcell_angles=A)
    V = t.unitcell_vectors.astype(np.float64)
    cond = 1.0 / np.sqrt(np.array([positivity(*c) for c in cells]))          # ~ 1/sin of the smallest dihedral
    # ---- (a) reported vectors have the stored lengths and angles, standard orientation, det > 0
    L1, A1 = _angles_of(V)
    Ls, As = t.unitcell_lengths.astype(float), t.unitcell_angles.astype(float)
    sin_min = np.sin(np.radians(As)).min(1)
    ltol = 16 * EPS * Ls.max(1)[:, None] * cond[:, None]
    atol = np.degrees(16 * EPS * cond / sin_min)[:, None] + 1e-5

    def rec(kind, f, text):
        viol.append(("grid|%s|%s" % (kind, "near-degenerate" if f >= len(triples) else "regular"),
                     "lengths %s angles %s: %s" % (L[f].tolist(), A[f].tolist(), text),
                     {"kind": "grid", "ratio": list(ratio), "angles": list(cells[f])}))

    def cmp(name, got, want, tol):
        nonlocal worst
        e = np.abs(got - want) / tol
        worst = max(worst, float(e.max()))
        for f in np.unique(np.nonzero(e > 1)[0])[:3]:
            rec(name, int(f), "%s %s, expected %s" % (name, got[f].tolist(), want[f].tolist()))

    cmp("vector-norms", L1, Ls, ltol)
    cmp("vector-angles", A1, As, atol)
    ori = np.abs(np.stack([V[:, 0, 1], V[:, 0, 2], V[:, 1, 2]], 1))
    cmp("orientation", ori, np.zeros_like(ori), 16 * EPS * Ls.max(1)[:, None] * np.ones(3))
    det = np.linalg.det(V)
    for f in np.nonzero(~(det > 0))[0][:3]:
        rec("determinant", int(f), "det %g not positive" % det[f])
    vol = t.unitcell_volumes
    triple = np.einsum("fi,fi->f", V[:, 0], np.cross(V[:, 1], V[:, 2]))
    cmp("volume", vol[:, None], triple[:, None], (64 * EPS * np.abs(triple) * cond ** 2 + 1e-12)[:, None])
    vol_true = Ls.prod(1) * np.sqrt(np.array([positivity(*a) for a in As]))
    cmp("volume-vs-closed-form", vol[:, None], vol_true[:, None], (64 * EPS * vol_true * cond ** 2)[:, None])
    n_eval += 6 * F
    # ---- (b) set the vectors from every rotated description, read lengths/angles/volume back
    V64 = np.array([grids.lengths_angles_to_vectors(*L[f], *A[f]) for f in range(F)])
    rots = grids.rotations(quick, seed)
    a_tol_all = np.degrees(32 * EPS / np.sin(np.radians(A)).min(1))[:, None] + 1e-5
    # the same cells once all in one trajectory and once as trajectories that hold ONE cell shape class only
    # (all-orthorhombic, all-one-angle-skewed, ...): shortcuts that test "every frame is ..." are reached only then
    n90 = (np.abs(A - 90.0) < 1e-9).sum(1)
    groups = [np.arange(F)] + [np.nonzero(n90 == k)[0] for k in (3, 2, 1, 0)]
    for R in rots:
        for gi, g in enumerate(groups):
            if len(g) == 0 or (gi > 0 and len(g) == F):
                continue
            t2 = md.Trajectory(np.zeros((len(g), 2, 3), np.float32), _top(2))
            t2.unitcell_vectors = (V64[g] @ R.T).astype(np.float32)

            def cmpg(name, got, want, tol):
                nonlocal worst
                e = np.abs(got - want) / tol
                worst = max(worst, float(e.max()))
                for f in np.unique(np.nonzero(e > 1)[0])[:3]:
                    rec(name + ("" if gi == 0 else "|single-shape-class-trajectory"), int(g[f]),
                        "%s %s, expected %s" % (name, got[f].tolist(), want[f].tolist()))

            cmpg("rotated-lengths", t2.unitcell_lengths.astype(float), L[g], 16 * EPS * L[g].max(1)[:, None] * np.ones(3))
            cmpg("rotated-angles", t2.unitcell_angles.astype(float), A[g], a_tol_all[g])
            cmpg("rotated-volume", t2.unitcell_volumes[:, None], vol_true[g][:, None], (256 * EPS * vol_true[g] * cond[g] ** 2)[:, None])
            V2 = t2.unitcell_vectors.astype(np.float64)
            ori2 = np.abs(np.stack([V2[:, 0, 1], V2[:, 0, 2], V2[:, 1, 2]], 1))
            cmpg("rotated-orientation", ori2, np.zeros_like(ori2), 64 * EPS * L[g].max(1)[:, None] * np.ones(3))
            if (np.linalg.det(V2) <= 0).any():
                rec("rotated-determinant", int(g[int(np.argmax(np.linalg.det(V2) <= 0))]), "read-back vectors have non-positive determinant")
            # standard orientation means a along +x and b in the upper xy half-plane (c_z > 0 then follows from det > 0):
            # a description after a half-turn about a coordinate axis is lower-triangular too, but not standard
            flipped = (V2[:, 0, 0] <= 0) | (V2[:, 1, 1] <= 0)
            if flipped.any():
                f = int(np.argmax(flipped))
                rec("rotated-orientation-sign" + ("" if gi == 0 else "|single-shape-class-trajectory"), int(g[f]),
                    "read-back vectors %s: a not along +x or b not in the upper xy half-plane" % V2[f].round(4).tolist())
            n_eval += 5 * len(g)
    return viol, n_eval, F * (1 + len(rots)), worst


# ------------------------------------------------------------------------------------------ histories

NF = 4


def _vec_menu(kind, n):
    from vlib import grids
    if kind == "cubic":
        return np.array([np.eye(3) * 3.0] * n)
    if kind == "ortho-halfturn":
        # an orthorhombic cell described after a half-turn about x: a diagonal matrix with two negative entries
        return np.array([np.diag([3.0, -3.5, -4.0])] * n)
    if kind == "ortho-then-tricl":
        # a shear run: frame 0 rectangular, the later frames sheared
        v = grids.lengths_angles_to_vectors(3.0, 3.5, 4.0, 75.0, 100.0, 115.0)
        return np.array([np.diag([3.0, 3.5, 4.0])] + [v] * (n - 1))
    if kind == "tricl-rot":
        v = grids.lengths_angles_to_vectors(3.0, 3.5, 4.0, 75.0, 100.0, 115.0)
        R = grids.generic_rotations(1, 3)[0]
        return np.array([v @ R.T] * n)
    return np.array([grids.lengths_angles_to_vectors(3.0 + 0.2 * f, 3.5, 4.0 - 0.1 * f, 80.0 + 3 * f, 95.0, 110.0 - 2 * f) for f in range(n)])


class CellModel:
    def __init__(self, init):
        self.n = 1 if init == "one" else NF
        self.na = 3
        if init == "none":
            self.L = self.A = None
        else:
            self.L = np.array([[3.0, 4.0, 5.0]] * self.n) + 0.1 * np.arange(self.n)[:, None]
            self.A = np.array([[90.0, 90.0, 90.0]] * self.n)

    def full(self):
        return self.L is not None and self.A is not None

    def enabled(self):
        ops = [("vectors", "cubic"), ("vectors", "ortho-halfturn"), ("vectors", "tricl-rot"), ("vectors", "varying"), ("vectors", "ortho-then-tricl"), ("lengths",), ("angles",),
               ("lengths_none",), ("angles_none",), ("vectors_none",), ("idx0",), ("copy",), ("join",), ("stack",)]
        if self.n >= 2:
            ops.append(("stride2",))
        if self.na >= 2:
            ops.append(("atom_slice",))
        if self.full() or (self.L is None and self.A is None):
            ops.append(("h5",))
        return ops

    def apply(self, op):
        k = op[0]
        # a half-set cell (only lengths or only angles) is not a complete cell: a derived trajectory must not have a
        # complete cell either, but which of the two fields it keeps is not stated -> adopt what the code does
        self.adopt = (not self.full()) and (self.L is not None or self.A is not None) and \
            k in ("idx0", "stride2", "copy", "join", "stack", "atom_slice")
        if k == "vectors":
            self.L, self.A = _angles_of(_vec_menu(op[1], self.n))
        elif k == "lengths":
            self.L = np.array([[2.0, 3.0, 4.0]] * self.n) + 0.25 * np.arange(self.n)[:, None]
        elif k == "angles":
            self.A = np.array([[80.0, 100.0, 70.0]] * self.n)
        elif k == "lengths_none":
            self.L = None
        elif k == "angles_none":
            self.A = None
        elif k == "vectors_none":
            self.L = self.A = None
        elif k == "idx0":
            self._idx(slice(0, 1))
        elif k == "stride2":
            self._idx(slice(None, None, 2))
        elif k == "join":
            self.L = None if self.L is None else np.concatenate([self.L, self.L])
            self.A = None if self.A is None else np.concatenate([self.A, self.A])
            self.n *= 2
        elif k == "stack":
            self.na += 1
        elif k == "atom_slice":
            self.na -= 1

    def _idx(self, s):
        self.L = None if self.L is None else self.L[s]
        self.A = None if self.A is None else self.A[s]
        self.n = len(np.arange(self.n)[s])


def _real_init(init):
    import mdtraj as md
    m = CellModel(init)
    xyz = np.arange(m.n * 3 * 3, dtype=np.float32).reshape(m.n, 3, 3) * 0.01
    kw = {} if m.L is None else dict(unitcell_lengths=m.L, unitcell_angles=m.A)
    return md.Trajectory(xyz, _top(3), **kw)


def _real_apply(t, op, scratch):
    import mdtraj as md
    k = op[0]
    if k == "vectors":
        t.unitcell_vectors = _vec_menu(op[1], t.n_frames).astype(np.float32)
    elif k == "lengths":
        t.unitcell_lengths = np.array([[2.0, 3.0, 4.0]] * t.n_frames) + 0.25 * np.arange(t.n_frames)[:, None]
    elif k == "angles":
        t.unitcell_angles = np.array([[80.0, 100.0, 70.0]] * t.n_frames)
    elif k == "lengths_none":
        t.unitcell_lengths = None
    elif k == "angles_none":
        t.unitcell_angles = None
    elif k == "vectors_none":
        t.unitcell_vectors = None
    elif k == "idx0":
        return t[0]
    elif k == "stride2":
        return t[::2]
    elif k == "copy":
        return t[:]
    elif k == "join":
        return t.join(t[:])
    elif k == "stack":
        return t.stack(t.atom_slice([0]))
    elif k == "atom_slice":
        return t.atom_slice(list(range(t.n_atoms - 1)))
    elif k == "h5":
        p = os.path.join(scratch, "c17_%d.h5" % os.getpid())
        t.save(p)
        return md.load(p)
    return t


def _check_cell(t, m):
    for name, real, mod in (("lengths", t.unitcell_lengths, m.L), ("angles", t.unitcell_angles, m.A)):
        if (real is None) != (mod is None):
            return "half-or-lost-cell", "unitcell_%s present=%s, model present=%s" % (name, real is not None, mod is not None)
        if real is not None:
            if real.shape != (t.n_frames, 3):
                return "rows", "unitcell_%s has shape %s for %d frames" % (name, real.shape, t.n_frames)
            tol = (16 * EPS * np.abs(mod).max() + 1e-6) if name == "lengths" else 2e-3
            if np.abs(real.astype(float) - mod).max() > tol:
                return "values", "unitcell_%s %s, model %s" % (name, real[0].tolist(), mod[0].tolist())
    if t.n_frames != m.n or t.n_atoms != m.na:
        return "shape", "trajectory has %d frames/%d atoms, model %d/%d" % (t.n_frames, t.n_atoms, m.n, m.na)
    V = t.unitcell_vectors
    if (V is not None) != m.full():
        return "vectors-presence", "unitcell_vectors present=%s but complete cell=%s" % (V is not None, m.full())
    if V is not None:
        if V.shape != (t.n_frames, 3, 3):
            return "rows", "unitcell_vectors shape %s" % (V.shape,)
        L1, A1 = _angles_of(V.astype(float))
        if np.abs(L1 - m.L).max() > 32 * EPS * m.L.max() + 1e-6 or np.abs(A1 - m.A).max() > 5e-3:
            return "vectors-values", "vectors do not have the stored lengths/angles"
        Vf = V.astype(float)
        tol0 = 64 * EPS * m.L.max()
        if max(np.abs(Vf[:, 0, 1]).max(), np.abs(Vf[:, 0, 2]).max(), np.abs(Vf[:, 1, 2]).max()) > tol0 or \
                (Vf[:, 0, 0] <= 0).any() or (Vf[:, 1, 1] <= 0).any() or (np.linalg.det(Vf) <= 0).any():
            return "vectors-orientation", "vectors %s are not in the standard orientation (a along +x, b in the upper xy half-plane, positive volume)" % Vf[0].round(4).tolist()
        vol = t.unitcell_volumes
        tr = np.einsum("fi,fi->f", V[:, 0].astype(float), np.cross(V[:, 1].astype(float), V[:, 2].astype(float)))
        if vol is None or np.abs(vol - tr).max() > 1e-4 * np.abs(tr).max():
            return "volume", "unitcell_volumes differ from the triple product"
    else:
        if m.L is None and t.unitcell_volumes is not None:
            return "volume", "volumes reported without cell lengths"
    return None


def hist_run(init, hist, scratch):
    t = _real_init(init)
    m = CellModel(init)
    rep = {"kind": "hist", "init": init, "history": [list(o) for o in hist]}
    for i, op in enumerate(hist):
        m.apply(op)
        try:
            t = _real_apply(t, op, scratch)
        except Exception as e:  # noqa
            return ("hist|%s|raised" % op[0], "init=%s %s: %s raised %s: %s" % (init, hist[:i + 1], op, type(e).__name__, str(e)[:140]), rep)
        if getattr(m, "adopt", False):
            if t.unitcell_lengths is not None and t.unitcell_angles is not None:
                return ("hist|%s|complete-cell-from-half-set-input" % op[0], "init=%s history=%s: result has a complete cell although the input had none" % (init, hist[:i + 1]), rep)
            m.L = None if t.unitcell_lengths is None else t.unitcell_lengths.astype(float)
            m.A = None if t.unitcell_angles is None else t.unitcell_angles.astype(float)
        bad = _check_cell(t, m)
        if bad:
            prev = hist[i - 1][0] if i else "-"
            return ("hist|%s|after=%s|%s" % (op[0], prev, bad[0]), "init=%s history=%s: %s" % (init, hist[:i + 1], bad[1]), rep)
    return None


def gen_hists(init, depth):
    out = []

    def rec(h):
        m = CellModel(init)
        for o in h:
            m.apply(o)
        if h:
            out.append(h)
        if len(h) == depth:
            return
        for op in m.enabled():
            rec(h + [op])
    rec([])
    return out


def _hchunk(args):
    init, hs, scratch = args
    v = []
    for h in hs:
        r = hist_run(init, h, scratch)
        if r:
            v.append(r)
    return v, len(hs), sum(len(h) for h in hs)


def run(ctx):
    gouts = ctx.pmap(grid_job, [(r, ctx.quick, ctx.seed) for r in RATIOS])
    n_eval = n_cells = 0
    worst = 0.0
    for v, a, b, w in gouts:
        ctx.report(v)
        n_eval += a
        n_cells += b
        worst = max(worst, w)
    depth = 2 if ctx.quick else 3
    jobs = []
    for init in ("none", "full", "one"):
        hs = [h for h in gen_hists(init, depth) if len(h) == depth or True]
        for i in range(24):
            if hs[i::24]:
                jobs.append((init, hs[i::24], ctx.scratch))
    houts = ctx.pmap(_hchunk, jobs)
    nh = steps = 0
    for v, a, b in houts:
        ctx.report(v)
        nh += a
        steps += b
    return "model_checking", {
        "states": n_cells + nh, "transitions": steps + n_eval, "traces_validated_against_impl": nh + n_cells,
        "samples": [{"grid": {"ratio": RATIOS[1], "angles": [75.0, 105.0, 120.0], "rotation": "cube rotation #3"}},
                    {"init": "none", "history": [["vectors", "tricl-rot"], ["stride2"], ["h5"]]}],
        "exhaustive": True, "grid_cells_x_descriptions": n_cells, "grid_comparisons": n_eval, "histories": nh,
        "history_depth": depth, "max_err_over_tol": round(worst, 4),
        "rule": "grid: every valid cell x rotation, 9 comparisons each; histories: every op sequence to the depth from 3 "
                "initial states, every step compared with the (lengths, angles) model",
    }


def replay(ctx, rep):
    if rep["kind"] == "hist":
        h = [tuple(o) for o in rep["history"]]
        a, b = hist_run(rep["init"], h, ctx.scratch), hist_run(rep["init"], h, ctx.scratch)
        print("replay 1:", a and a[1])
        assert (a is None) == (b is None)
        return a is None
    v, _a, _b, _w = grid_job((tuple(rep["ratio"]), ctx.quick, ctx.seed))
    hits = [x for x in v if x[2]["angles"] == rep["angles"]]
    print("replay:", [x[0] for x in hits])
    return not hits
