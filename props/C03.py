"""C03 — slicing, joining and stacking trajectories act like array indexing on all fields; no stale cache.

Explicit-state exploration of operation histories on real Trajectory objects against a numpy-tuple reference
model.  Every history of the alphabet up to the depth bound is executed (no merging); the expensive observers
(analysis/save menu with before/after hashing) run once per distinct state.
"""
import hashlib
import itertools
import os

import numpy as np

MANIFEST = {
    "category": "model_checking",
    "engine": "histx",
    "technique": "exhaustive depth-bounded exploration of trajectory-operation histories on real objects against an "
                 "array-tuple reference model, with a precentered-vs-from-scratch RMSD differential in every state",
    "text": "From 3 initial trajectories (5 frames/7 atoms incl. waters with cell and explicit time; no cell/default time; "
            "1 frame) every sequence of up to 2 (thorough 3) operations of a 33-op alphabet {t[range(..)] ascending and descending to frame 0, a copy=False child that shares memory superposed in place (then the parent's own centring must act on the coordinates it has now), t[0], t[-1], t[1:4], t[::2], "
            "t[::-1], t[[3,1]], t[mask], slice(copy=False), t+t, join([..]), md.join, join(discard_overlapping_frames=True) over a real overlap, stack, atom_slice (inplace F/T), "
            "center_coordinates (mass_weighted F/T), superpose onto itself and onto an off-origin reference, remove_solvent (inplace F/T, and with exclude=), xyz/time/unitcell assignment} "
            "is executed. After every step: all fields equal the model (same numpy indexing) and have equal length; result "
            "coordinates never share memory with an input; slice(copy=True)/join/atom_slice share no array or topology "
            "object; md.rmsd(precentered=True) equals precentered=False for every frame within the QCP error model; in "
            "every distinct state a menu of 24 analysis/save calls (every writable extension incl. multi-frame restart output) must leave the trajectory bit-identical.",
    "note": "Atom subsets are strictly increasing (as in C02/C04). Superposition/centering values are checked by invariants "
            "(centroid at origin, interatomic distances preserved) and then compared with a float64 model with tolerance; "
            "optimality of superpose is C06's topic.",
    "ref": "DESIGN.md §3 C03, §2.2",
}

EPS = float(np.finfo(np.float32).eps)


# ------------------------------------------------------------------------------------ initial states

def make_initial(name, seed):
    import mdtraj as md
    from vlib import grids
    top = md.Topology()
    ch = top.add_chain()
    E = md.element
    r1 = top.add_residue("ALA", ch)
    a = [top.add_atom("N", E.nitrogen, r1), top.add_atom("CA", E.carbon, r1), top.add_atom("C", E.carbon, r1)]
    r2 = top.add_residue("GLY", ch)
    a += [top.add_atom("N", E.nitrogen, r2), top.add_atom("CA", E.carbon, r2)]
    ch2 = top.add_chain()
    w1 = top.add_residue("HOH", ch2)
    a.append(top.add_atom("O", E.oxygen, w1))
    w2 = top.add_residue("HOH", ch2)
    a.append(top.add_atom("O", E.oxygen, w2))
    top.add_bond(a[0], a[1])
    top.add_bond(a[1], a[2])
    top.add_bond(a[2], a[3])
    top.add_bond(a[3], a[4])
    nf = 1 if name == "C" else 5
    xyz = (grids.jitter(nf * 7, 3, 2.0, seed).reshape(nf, 7, 3) + 1.5).astype(np.float32)
    if name == "A":
        return md.Trajectory(xyz, top, time=np.arange(nf) * 2.0 + 1.0,
                             unitcell_lengths=np.full((nf, 3), 4.0) + 0.25 * np.arange(nf)[:, None],
                             unitcell_angles=np.full((nf, 3), 90.0))
    if name == "B":
        return md.Trajectory(xyz, top)
    return md.Trajectory(xyz, top, time=np.array([7.0]), unitcell_lengths=np.full((1, 3), 5.0),
                         unitcell_angles=np.full((1, 3), 90.0))


MASS = {"N": 14.00672, "C": 12.01078, "O": 15.99943}


class Model:
    """Reference model: plain arrays.  names double as element symbols for masses."""

    def __init__(self, t):
        self.xyz = t.xyz.astype(np.float64)
        self.time = np.asarray(t.time, float).copy()
        self.L = None if t.unitcell_lengths is None else t.unitcell_lengths.astype(float)
        self.A = None if t.unitcell_angles is None else t.unitcell_angles.astype(float)
        self.names = [a.name for a in t.topology.atoms]
        self.res = [a.residue.name for a in t.topology.atoms]
        self.fuzzy = False       # True once a numeric (non-indexing) op happened: compare xyz with tolerance
        self.shared_edit = False  # coordinates were rewritten through a copy=False child that shares their memory
        self.centered = False

    # number of frames / atoms
    @property
    def nf(self):
        return self.xyz.shape[0]

    @property
    def na(self):
        return self.xyz.shape[1]

    def enabled(self):
        ops = []
        nf, na = self.nf, self.na
        ops += [("idx", 0), ("idx", -1)]
        if nf >= 2:
            ops += [("slice", 1, 4, 1), ("slice", None, None, 2), ("slice", None, None, -1), ("mask",)]
        if nf >= 4:
            ops.append(("fancy", (3, 1)))
        # range objects are index sequences, NOT slices: a descending range down to frame 0 has stop -1
        ops += [("range", nf - 1, -1, -1), ("range", 0, nf, 2)]
        ops.append(("slice_nocopy",))
        ops += [("add",), ("join_list",), ("mdjoin",), ("join_float_time",)]
        if nf >= 2:
            ops.append(("join_discard",))
        ops.append(("stack",))
        if na >= 2:
            ops += [("atom_slice", False), ("atom_slice", True)]
        ops += [("center", False), ("center", True), ("superpose",), ("superpose_shifted",)]
        ops += [("remove_solvent", False), ("remove_solvent", True), ("remove_solvent_exclude",)]
        ops += [("set_xyz",), ("set_time",), ("child_nocopy_superpose",)]
        if self.L is not None:
            ops += [("set_lengths",), ("set_angles",)]
        return ops

    def _index(self, key):
        self.xyz = self.xyz[key]
        if self.xyz.ndim == 2:
            self.xyz = self.xyz[None]
        self.time = np.atleast_1d(self.time[key])
        if self.L is not None:
            self.L = np.atleast_2d(self.L[key])
            self.A = np.atleast_2d(self.A[key])

    def _atoms(self, ai):
        self.xyz = self.xyz[:, ai]
        self.names = [self.names[i] for i in ai]
        self.res = [self.res[i] for i in ai]

    def apply(self, op):
        k = op[0]
        if k in ("center", "superpose", "superpose_shifted", "set_xyz"):
            self.shared_edit = False       # t rewrites its own coordinates: its cache is its own business again
        if k == "idx":
            self._index(op[1])
        elif k == "slice":
            self._index(slice(op[1], op[2], op[3]))
        elif k == "mask":
            self._index(np.arange(self.nf) % 2 == 0)
        elif k == "fancy":
            self._index(list(op[1]))
        elif k == "range":
            self._index(list(range(op[1], op[2], op[3])))
        elif k == "slice_nocopy":
            self._index(slice(0, None, 2))
        elif k in ("add",):
            self._cat(2)
        elif k == "join_list":
            self._cat(3)
        elif k == "join_float_time":
            # the partner's times are fractional floats whatever dtype the current times have: numpy concatenation promotes
            t_before = self.time
            self._cat(2)
            self.time = np.concatenate([np.asarray(t_before, float), np.asarray(t_before, float) + 0.25])
        elif k == "mdjoin":
            self._cat(2, tail=1)
        elif k == "join_discard":
            # t.join(u, discard_overlapping_frames=True) with u = t[[last, first]]: t's last frame equals u's first one
            # and is discarded, so the result is t[:-1] followed by u
            idx = list(range(self.nf - 1)) + [self.nf - 1, 0]
            self._index(idx)
        elif k == "remove_solvent_exclude":
            pass        # exclude=['HOH'] keeps the waters: nothing is removed (a new trajectory is returned)
        elif k == "stack":
            self.xyz = np.concatenate([self.xyz, self.xyz[:, :1]], axis=1)
            self.names = self.names + self.names[:1]
            self.res = self.res + self.res[:1]
        elif k == "atom_slice":
            self._atoms(list(range(self.na - 1)) if self.na > 2 else [1])
        elif k == "remove_solvent":
            keep = [i for i, r in enumerate(self.res) if r != "HOH"]
            self._atoms(keep)
        elif k == "center":
            if op[1]:
                m = np.array([MASS[n[0]] for n in self.names])
                com = (self.xyz * m[None, :, None]).sum(1) / m.sum()
            else:
                com = self.xyz.mean(1)
            self.xyz = self.xyz - com[:, None, :]
            self.fuzzy = True
        elif k in ("superpose", "superpose_shifted"):
            from vlib.refmodels import rmsd_kabsch
            if self.na >= 3:
                # superpose_shifted: the reference is frame 0 moved away from the origin (1.5, -0.5, 2.0) nm, so the
                # result is NOT centred and any cached centring information must be dropped
                refx = self.xyz[0] + (np.array([1.5, -0.5, 2.0]) if k == "superpose_shifted" else 0.0)
                r = rmsd_kabsch.kabsch(self.xyz, refx)
                self.xyz = (self.xyz - r["ca"]) @ r["R"] + r["cb"]
            else:
                self.xyz = None   # fewer than 3 atoms: rotation not unique; only invariants are checked, model syncs
            self.fuzzy = True
        elif k == "set_xyz":
            self.xyz = self.xyz + 1.0
            self.fuzzy = True
        elif k == "child_nocopy_superpose":
            # v = t.slice(slice(0, n), copy=False) is documented to be allowed to share t's coordinate memory; v is then
            # superposed in place.  Whether memory is shared is the implementation's choice, so the model adopts t's
            # coordinates afterwards; t's own centring cache cannot know about the edit (not judged until t rewrites
            # its coordinates itself), but the NEXT centring / superposition of t must act on the coordinates t has now.
            self.xyz = None
            self.fuzzy = True
            self.shared_edit = True
        elif k == "set_time":
            self.time = self.time * 2.0 + 1.0
        elif k == "set_lengths":
            self.L = self.L * 1.5
        elif k == "set_angles":
            self.A = np.full_like(self.A, 80.0)
        return None

    def _cat(self, n, tail=None):
        parts = [self.xyz] * n
        tparts = [self.time] * n
        lparts = [self.L] * n
        aparts = [self.A] * n
        if tail is not None:
            parts[-1], tparts[-1] = self.xyz[:tail], self.time[:tail]
            if self.L is not None:
                lparts[-1], aparts[-1] = self.L[:tail], self.A[:tail]
        self.xyz = np.concatenate(parts)
        self.time = np.concatenate(tparts)
        if self.L is not None:
            self.L = np.concatenate(lparts)
            self.A = np.concatenate(aparts)


def apply_real(t, op):
    """Apply op to the real trajectory.  Returns (new current trajectory, list of input trajectories whose arrays the
    result must not share (all of them / xyz only), sharing rule)."""
    import mdtraj as md
    k = op[0]
    if k == "idx":
        return t[op[1]], [t], "none"
    if k == "slice":
        return t[slice(op[1], op[2], op[3])], [t], "none"
    if k == "mask":
        return t[np.arange(t.n_frames) % 2 == 0], [t], "none"
    if k == "fancy":
        return t[list(op[1])], [t], "none"
    if k == "range":
        return t[range(op[1], op[2], op[3])], [t], "none"
    if k == "slice_nocopy":
        return t.slice(slice(0, None, 2), copy=False), [t], "any"
    if k == "add":
        return t + t, [t], "none"
    if k == "join_list":
        u = t[:]
        return t.join([u, t]), [t, u], "none"
    if k == "join_float_time":
        u = t[:]
        u.time = np.asarray(t.time, np.float64) + 0.25
        return t.join(u), [t, u], "none"
    if k == "mdjoin":
        u = t[:1]
        return md.join([t, u]), [t, u], "none"
    if k == "join_discard":
        u = t[[t.n_frames - 1, 0]]
        return t.join(u, discard_overlapping_frames=True), [t, u], "none"
    if k == "remove_solvent_exclude":
        return t.remove_solvent(exclude=["HOH"]), [t], "none"
    if k == "stack":
        w = t.atom_slice([0])
        return t.stack(w), [t, w], "xyz"
    if k == "atom_slice":
        ai = list(range(t.n_atoms - 1)) if t.n_atoms > 2 else [1]
        if op[1]:
            r = t.atom_slice(ai, inplace=True)
            return r, [], "inplace"
        return t.atom_slice(ai), [t], "none"
    if k == "remove_solvent":
        if op[1]:
            return t.remove_solvent(inplace=True), [], "inplace"
        return t.remove_solvent(), [t], "none"
    if k == "center":
        t.center_coordinates(mass_weighted=op[1])
        return t, [], "inplace"
    if k == "superpose":
        t.superpose(t, 0)
        return t, [], "inplace"
    if k == "superpose_shifted":
        ref = md.Trajectory(t.xyz[:1] + np.array([1.5, -0.5, 2.0], dtype=np.float32), t.topology)
        t.superpose(ref, 0)
        return t, [], "inplace"
    if k == "set_xyz":
        t.xyz = t.xyz + 1.0
        return t, [], "inplace"
    if k == "child_nocopy_superpose":
        t.center_coordinates()
        v = t.slice(slice(0, t.n_frames), copy=False)
        ref = md.Trajectory(v.xyz[:1] + np.array([1.5, -0.5, 2.0], dtype=np.float32), v.topology)
        if v.n_atoms >= 3:
            v.superpose(ref, 0)
        else:
            v.xyz[:] = v.xyz + np.float32(0.75)
        return t, [], "inplace"
    if k == "set_time":
        t.time = t.time * 2.0 + 1.0
        return t, [], "inplace"
    if k == "set_lengths":
        t.unitcell_lengths = t.unitcell_lengths * 1.5
        return t, [], "inplace"
    if k == "set_angles":
        t.unitcell_angles = np.full_like(t.unitcell_angles, 80.0)
        return t, [], "inplace"
    raise ValueError(op)


def _arrays(t):
    # the public properties hand out the stored arrays themselves (no copy), which is what aliasing is judged on
    out = {"xyz": t.xyz, "time": t.time}
    if t.unitcell_lengths is not None:
        out["lengths"] = t.unitcell_lengths
        out["angles"] = t.unitcell_angles
    return out


def check_state(t, m, prev_inputs, rule, op):
    """Invariants of one state.  Returns None or (kind, text)."""
    # ---- shapes / equal lengths
    nf = t.n_frames
    if t.xyz.shape[0] != nf or len(t.time) != nf:
        return "length", "xyz has %d frames, time %d" % (t.xyz.shape[0], len(t.time))
    if (t.unitcell_lengths is None) != (t.unitcell_angles is None):
        return "half-cell", "unitcell_lengths/angles presence differs"
    if t.unitcell_lengths is not None and (len(t.unitcell_lengths) != nf or len(t.unitcell_angles) != nf):
        return "length", "cell arrays have %d/%d rows for %d frames" % (len(t.unitcell_lengths), len(t.unitcell_angles), nf)
    # ---- fields equal the model
    if m.xyz is None:                      # model cannot predict (superpose of < 3 atoms): sync
        m.xyz = t.xyz.astype(np.float64)
    if t.xyz.shape != m.xyz.shape:
        return "shape", "xyz shape %s, model %s" % (t.xyz.shape, m.xyz.shape)
    if m.fuzzy:
        tol = 64 * EPS * (np.abs(m.xyz).max() + 1.0)
        err = np.abs(t.xyz - m.xyz).max()
        if err > tol:
            return "xyz", "coordinates differ from the model by %.3g (tol %.3g)" % (err, tol)
    else:
        if not np.array_equal(t.xyz, m.xyz.astype(np.float32)):
            return "xyz", "coordinates are not the numpy-indexed input"
    if not np.array_equal(np.asarray(t.time, float), m.time):
        return "time", "time %s, model %s" % (np.asarray(t.time).tolist(), m.time.tolist())
    if (t.unitcell_lengths is None) != (m.L is None):
        return "cell-presence", "cell present %s, model %s" % (t.unitcell_lengths is not None, m.L is not None)
    if m.L is not None:
        if not (np.allclose(t.unitcell_lengths, m.L, rtol=2 * EPS, atol=0) and np.allclose(t.unitcell_angles, m.A, rtol=2 * EPS, atol=0)):
            return "cell", "unit cell differs from the model"
    names = [a.name for a in t.topology.atoms]
    if names != m.names or t.topology.n_atoms != t.xyz.shape[1]:
        return "atoms", "atom labels %s, model %s" % (names, m.names)
    # ---- memory sharing
    mine = _arrays(t)
    for inp in prev_inputs:
        theirs = _arrays(inp)
        if rule in ("none", "xyz"):
            if np.shares_memory(mine["xyz"], theirs["xyz"]):
                return "shares-xyz", "result coordinates share memory with an input of %s" % (op,)
        if rule == "none":
            for k1, a in mine.items():
                for k2, b in theirs.items():
                    if np.shares_memory(a, b):
                        return "shares-%s" % k1, "result.%s shares memory with input.%s after %s" % (k1, k2, op)
            if t.topology is inp.topology:
                return "shares-topology", "result and input share one Topology object after %s" % (op,)
            tr, ti = getattr(t, "_rmsd_traces", None), getattr(inp, "_rmsd_traces", None)
            if tr is not None and ti is not None and np.shares_memory(tr, ti):
                return "shares-traces", "result and input share the cached rmsd traces after %s" % (op,)
    return None


def check_precentered(t):
    """rmsd with the precentered shortcut must equal rmsd from scratch (QCP error model)."""
    import mdtraj as md
    if t.n_atoms < 3:
        return None
    x = t.xyz.astype(np.float64)
    xc = x - x.mean(1, keepdims=True)
    G = np.einsum("fni,fni->f", xc, xc)
    N = t.n_atoms
    def clone(with_traces):
        # md.rmsd is documented to centre its inputs in place, so it is run on private copies that carry the
        # same hidden cache state as t
        c = md.Trajectory(t.xyz.copy(), t.topology, time=t.time.copy())
        tr = getattr(t, "_rmsd_traces", None)
        c._rmsd_traces = None if (tr is None or not with_traces) else np.array(tr, copy=True)
        return c

    import warnings
    for k in range(t.n_frames):
        with warnings.catch_warnings():
            warnings.simplefilter("ignore")
            ca, cb = clone(True), clone(False)
            a = md.rmsd(ca, ca, k, precentered=True).astype(np.float64)
            b = md.rmsd(cb, cb, k, precentered=False).astype(np.float64)
        tol2 = 4 * (9 + (N + 3) // 4) * EPS * (G + G[k]) / N + 1e-12
        d2 = np.abs(a ** 2 - b ** 2)
        if (d2 > tol2).any():
            i = int(np.argmax(d2 - tol2))
            return "precentered", "rmsd(frame %d -> ref %d): precentered %.6g, from scratch %.6g" % (i, k, a[i], b[i])
    return None


def _hash_traj(t):
    h = hashlib.sha1()
    for k, a in sorted(_arrays(t).items()):
        h.update(k.encode())
        h.update(np.ascontiguousarray(a).tobytes())
        h.update(str(a.shape).encode() + str(a.dtype).encode())
    tr = getattr(t, "_rmsd_traces", None)
    h.update(b"traces" + (b"None" if tr is None else np.ascontiguousarray(tr).tobytes()))
    h.update(repr([(a.name, a.residue.name, a.residue.index, a.residue.chain.index) for a in t.topology.atoms]).encode())
    h.update(repr(sorted((b[0].index, b[1].index) for b in t.topology.bonds)).encode())
    return h.hexdigest()


def observers(scratch):
    import mdtraj as md

    def pairs(t):
        return np.array([[0, t.n_atoms - 1]])

    obs = [
        ("compute_distances", lambda t: md.compute_distances(t, pairs(t))),
        ("compute_displacements", lambda t: md.compute_displacements(t, pairs(t))),
        ("compute_angles", lambda t: md.compute_angles(t, np.array([[0, 1, 2]])) if t.n_atoms >= 3 else None),
        ("compute_dihedrals", lambda t: md.compute_dihedrals(t, np.array([[0, 1, 2, 3]])) if t.n_atoms >= 4 else None),
        # md.rmsd is documented to centre its inputs in place ("this will center the conformations in place"): with
        # atom_indices it works on a copy and must not touch the input
        ("rmsd(atom_indices)", lambda t: md.rmsd(t, t, 0, atom_indices=np.arange(3)) if t.n_atoms >= 3 else None),
        ("lprmsd", lambda t: md.lprmsd(t, t, 0) if t.n_atoms >= 3 else None),
        ("compute_rg", lambda t: md.compute_rg(t)),
        ("compute_center_of_mass", lambda t: md.compute_center_of_mass(t)),
        ("compute_neighbors", lambda t: md.compute_neighbors(t, 0.5, np.array([0]))),
        ("compute_contacts", lambda t: md.compute_contacts(t, [[0, 1]]) if t.n_residues >= 2 else None),
        ("save_h5", lambda t: t.save(os.path.join(scratch, "o%d.h5" % os.getpid()))),
        ("save_xtc", lambda t: t.save(os.path.join(scratch, "o%d.xtc" % os.getpid()))),
        ("save_pdb", lambda t: t.save(os.path.join(scratch, "o%d.pdb" % os.getpid()))),
        ("save_dcd", lambda t: t.save(os.path.join(scratch, "o%d.dcd" % os.getpid())) if t.unitcell_lengths is not None else None),
    ] + [
        # every other extension Trajectory.save knows (multi-frame restart output writes numbered files)
        ("save_" + ext, (lambda t, ext=ext: t.save(os.path.join(scratch, "o%d.%s" % (os.getpid(), ext)))))
        for ext in ("trr", "nc", "ncrst", "rst7", "mdcrd", "xyz", "gro", "lammpstrj", "pdb.gz", "xyz.gz")
    ]
    return obs


def run_history(init, hist, seed, scratch, seen_states):
    """Execute one history; returns (violation|None, n_states_observed)."""
    t = make_initial(init, seed)
    m = Model(t)
    rep = {"init": init, "history": [list(o) for o in hist]}
    for i, op in enumerate(hist):
        m.apply(op)
        try:
            t, inputs, rule = apply_real(t, op)
        except Exception as e:  # noqa
            return ("%s|raised|%s" % (op[0], type(e).__name__), "init=%s history=%s: %s raised %s: %s" % (init, hist[:i + 1], op, type(e).__name__, str(e)[:160]), rep), 0
        bad = check_state(t, m, inputs, rule, op)
        if bad is None and not m.shared_edit:
            bad = check_precentered(t)
        if bad is not None:
            prev = hist[i - 1][0] if i else "-"
            return ("%s|after=%s|%s" % (op[0], prev, bad[0]), "init=%s history=%s: %s" % (init, hist[:i + 1], bad[1]), rep), 0
    # observers once per distinct final state
    key = _hash_traj(t)
    n_obs = 0
    if key not in seen_states:
        seen_states.add(key)
        for name, fn in observers(scratch):
            before = _hash_traj(t)
            try:
                fn(t)
            except Exception:  # noqa  (an analysis refusing an odd trajectory is not C03's business)
                continue
            n_obs += 1
            if _hash_traj(t) != before:
                return ("observer|%s|modified-input" % name, "init=%s history=%s: %s changed its input trajectory" % (init, hist, name), dict(rep, observer=name)), n_obs
    return None, n_obs


def gen(init, depth, seed):
    t = make_initial(init, seed)
    out = []

    def rec(hist, model):
        if len(hist) == depth:
            out.append(hist)
            return
        for op in model.enabled():
            import copy
            m2 = copy.deepcopy(model)
            m2.apply(op)
            if m2.xyz is None:
                m2.xyz = np.zeros((m2.time.shape[0], len(m2.names), 3))
            rec(hist + [op], m2)

    rec([], Model(t))
    return out


def _chunk(args):
    init, hists, seed, scratch = args
    seen = set()
    viol = []
    nobs = 0
    for h in hists:
        v, n = run_history(init, h, seed, scratch, seen)
        nobs += n
        if v:
            viol.append(v)
    return viol, len(hists), sum(len(h) for h in hists), len(seen), nobs


def run(ctx):
    depth = 2 if ctx.quick else 3
    jobs = []
    samples = []
    for init in ("A", "B", "C"):
        hs = []
        for d in range(1, depth + 1):
            hs += gen(init, d, ctx.seed)
        samples.append({"init": init, "history": [list(o) for o in hs[len(hs) // 2]]})
        n = 64
        for i in range(n):
            part = hs[i::n]
            if part:
                jobs.append((init, part, ctx.seed, ctx.scratch))
    outs = ctx.pmap(_chunk, jobs)
    nh = steps = states = nobs = 0
    for v, a, b, c, d in outs:
        ctx.report(v)
        nh += a
        steps += b
        states += c
        nobs += d
    return "model_checking", {
        "states": states, "transitions": steps, "traces_validated_against_impl": nh, "samples": samples,
        "exhaustive": True, "depth": depth, "histories": nh, "observer_calls": nobs,
        "rule": "every op sequence of length 1..depth from 3 initial trajectories; states = distinct final states per "
                "worker shard (hash of all arrays, cached traces, topology); observers run once per distinct state",
    }


def replay(ctx, rep):
    hist = [tuple(tuple(x) if isinstance(x, list) else x for x in o) for o in rep["history"]]
    a, _ = run_history(rep["init"], hist, ctx.seed, ctx.scratch, set())
    b, _ = run_history(rep["init"], hist, ctx.seed, ctx.scratch, set())
    print("replay 1:", a and a[1])
    print("replay 2:", b and b[1])
    assert (a is None) == (b is None), "replay not deterministic"
    return a is None
