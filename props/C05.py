"""C05 — periodic distances and displacements are true minimum-image values.

Space (enumerated completely, one job per (cell | stack of 3 cells | no cell) x coordinate mode):
  cell menu (grids.cell_menu: reduced + unreduced input forms) + per-frame-varying stacks of three cells
  x base point {origin, fractional (0.3,0.7,0.1), far outside +7a-5c}   (the three frames of each trajectory)
  x displacement on the fractional grid {-2.5 .. 2.5}^3 (step 1/2 quick, 1/4 thorough), exact and jittered
  x pair-list shapes {(0,j) all j, reversed (j,0), far pairs (j,K+1-j), i==j, repeated, empty}
  x opt {True, False} x periodic {True, False}
  x {compute_distances, compute_displacements, compute_distances_t over all 9 frame pairs, find_closest_contact}.
Oracle: float64 brute-force lattice search (vlib.refmodels.mic via geom_common.min_image) on the float32
coordinates and cell vectors actually stored in the trajectory.
"""
import collections
import itertools

import numpy as np

from vlib import grids
from vlib.refmodels import geom_common as gc

MANIFEST = {
    "category": "exploration",
    "engine": "gridx",
    "technique": "designed fractional-displacement grid over a cell menu, every member judged by a float64 "
                 "brute-force lattice-image search",
    "text": "Full product: cell menu of vlib.grids (quick subset / all, each non-orthorhombic one also in an unreduced input "
            "form) plus (2,2,2|90,90,45) and (2,2,2|90,90,135) whose shortest lattice vector is shorter than every edge, plus "
            "per-frame-varying stacks (3 mixed cells; 3 orthorhombic cells; 18-frame orthorhombic and 18-frame skewed stacks "
            "X,Y,X in which consecutive frames share all cell parameters but one or two, every class in both orders; thorough: all "
            "3 assignments of base points to frames), plus no cell) x base point {origin, "
            "fractional (0.3,0.7,0.1), +7a-5c} x displacement on the fractional grid {-2.5..2.5}^3 (step 1/2 quick = 1331, "
            "1/4 thorough = 9261 per base; exact and with a low-discrepancy jitter whose phase is VERIF_SEED) x pair shapes "
            "(forward, reversed, far pairs up to 5 cells apart, i==j, repeated, empty) x opt x periodic x {compute_distances, "
            "compute_displacements, compute_distances_t on all 9 frame pairs (12 rows: runs, chains and reverse chains as adjacent rows), find_closest_contact (per frame: atom 0 against each of the 7 index "
            "classes mod 7 of the grid atoms, the swapped call, three 5-atom groups against a class)}; plus compact-group trajectories for every skewed cell (every frame holds one "
            "2-atom pair or 4-atom cluster with bounding-box diagonal below half the shortest edge; frames = short grid "
            "displacements and s*v for every lattice vector v shorter than the shortest edge, which have a closer image); plus "
            "pair-list length classes {1..9, 255, 256, 257, 300, 511..513, 767, 768, 1000, 1024, 1025}: a sub-list must give "
            "exactly the rows of the full call. Oracle: float64 minimum "
            "over all lattice images (search range asserted sufficient after basis reduction) computed from the stored "
            "float32 data. Judged: displacement - (r2-r1) is an integer combination of that frame's cell vectors; distance = "
            "|displacement|; orthorhombic: distance = d* always; skewed: distance = d* when d* < half the smallest width of "
            "the cell as given (minus a float32 margin 64*eps32*w/2 + 2*tol: pairs ON the domain edge are excluded and counted) "
            "and >= d* always; opt == reference path; _t == static call on re-stacked frames; no cell or "
            "periodic=False == Euclid. Tolerance 8*eps32*(2|r12|+|a|+|b|+|c|). Right level: the kernels are straight-line "
            "float code with shortcuts per cell class; a designed grid that contains every shortcut, judged by an "
            "independent search, decides the property on this bounded input family.",
    "note": "Finite family only (cells of the menu in standard orientation a||x, b in xy; separations up to 5 cells, "
            "cross-frame pairs up to ~10 cells). For per-frame-varying cells the cell used by compute_distances_t for a pair "
            "of different frames is not documented: either frame's cell is accepted there (same-frame pairs are strict). "
            "mdtraj stores lengths/angles only, so every cell reaches the kernels in standard orientation. The numpy "
            "reference path of compute_distances_core reduces the caller's unitcell_vectors array in place: recorded, "
            "not judged. _t == static re-stack is run on the optimised path; the reference _t is tied to it by opt == ref.",
    "ref": "DESIGN.md §3 C05, §2.4",
}

BASE_NAMES = ["origin", "frac(0.3,0.7,0.1)", "far(+7a-5c)"]
STACKS = {
    "stack_mixed": ["ortho234", "tric_75_100_115+unreduced", "hex60"],
    "stack_ortho": ["cubic3", "ortho234", "ortho116"],
}
JIT_SCALE = 0.04          # fractional units: jitter in [-0.02, 0.02) per fractional coordinate
CC_M = 7                  # find_closest_contact: group2 = residue classes of the atom index mod CC_M
MAXV = 2                  # violation records kept per signature and job


def _base(i, V):
    if i == 0:
        return np.zeros(3)
    if i == 1:
        return np.array([0.3, 0.7, 0.1]) @ V
    return 7 * V[0] - 5 * V[2]


class Acc:
    def __init__(self, spec):
        self.spec = spec
        self.viol = collections.OrderedDict()
        self.ratio = collections.defaultdict(float)
        self.n = collections.Counter()

    def add(self, sig, detail):
        lst = self.viol.setdefault(sig, [])
        self.n["violations"] += 1
        if len(lst) < MAXV:
            lst.append((sig, detail, {"job": self.spec, "sig": sig}))

    def cmp(self, check, sig, err, tol, describe, mask=None, jmap=None):
        """err, tol: arrays.  Violation where err > tol.  Tracks max err/tol per check.
        jmap: maps the last index of err to the pair index (for sub-lists of the pair list)."""
        err = np.asarray(err, np.float64)
        tol = np.broadcast_to(np.asarray(tol, np.float64), err.shape)
        if mask is not None:
            err, tol = err[mask], tol[mask]
            idx = np.nonzero(mask)
        if err.size == 0:
            return
        with np.errstate(divide="ignore", invalid="ignore"):
            ratio = np.where(tol > 0, err / np.where(tol > 0, tol, 1), np.where(err > 0, np.inf, 0.0))
        ratio = np.where(np.isnan(err), np.inf, ratio)
        self.n["evaluations"] += int(err.size)
        self.n["cmp_" + check] += int(err.size)
        m = float(ratio.max())
        if m > self.ratio[check]:
            self.ratio[check] = m
        bad = np.argwhere(ratio > 1)
        if len(bad):
            self.n["bad_" + check] += len(bad)
            b = tuple(int(x) for x in bad[0])
            where = b if mask is None else tuple(int(a[b[0]]) for a in idx)
            if jmap is not None:
                where = tuple(where[:-1]) + (int(jmap[where[-1]]),)
            self.add(sig, "%s: err %.3e > tol %.3e (x%.1f) at %s; %d of %d fail; %s" % (
                check, err[b], tol[b], ratio[b], where, len(bad), err.size, describe(where)))


_menu = gc.extended_menu
STACKS.update(gc.SHARED_STACKS)
LONG_STACK_STEP = {0.5: 1.25, 0.25: 0.5}     # grid step of the 18-frame skewed stack (reference path is ~150 us per pair)
EXTRA_SKEW = ["g45", "g45+unreduced", "g135", "g135+unreduced"]
SHORT_DIAGONAL = ["tric_45_60_75", "tric_45_60_75+unreduced", "tric_135_100_110", "tric_135_100_110+unreduced"]
BLOCK_SIZES = [1, 2, 3, 4, 5, 7, 8, 9, 255, 256, 257, 300, 511, 512, 513, 767, 768, 1000, 1024, 1025]


def _cell_kw(spec, cells, F):
    names = spec["cells"]
    if names is None:
        return {}, "nocell"
    if len(names) == 1 and cells[0]["reduced"]:
        kw = dict(lengths=np.array([cells[0]["lengths"]] * F), angles=np.array([cells[0]["angles"]] * F))
        return kw, ("ortho" if cells[0]["ortho"] else "skew-reduced")
    kw = dict(vectors=np.array([c["vectors"] for c in cells], dtype=np.float32))
    return kw, ("skew-unreduced" if len(names) == 1 else spec["name"].replace("_", "-"))


def _setup_grid(spec):
    menu = _menu()
    G = grids.frac_grid(step=spec["step"])
    K = len(G)
    J = grids.jitter(K, 3, scale=JIT_SCALE, seed=spec["seed"]) if spec["mode"] == "jit" else np.zeros((K, 3))
    names = spec["cells"] or ["cubic3"]
    cells = [menu[n] for n in (names * 3 if len(names) == 1 else names)]
    F = len(cells)
    xyz = np.empty((F, K + 1, 3))
    for f in range(F):
        V = cells[f]["vectors"]
        b = _base((f + spec["rot"]) % 3, V)
        xyz[f, 0] = b
        xyz[f, 1:] = b + (G + J) @ V
    kw, kind = _cell_kw(spec, cells, F)
    P1 = [(0, j) for j in range(1, K + 1)]
    P2 = [(j, 0) for j in range(1, K + 1, 7)]
    P3 = [(j, K + 1 - j) for j in range(1, K + 1, 5)]
    P4 = [(3, 3), (0, 0)]
    P5 = [(0, 2), (0, 2)]
    pairs = np.array(P1 + P2 + P3 + P4 + P5, dtype=np.int32)
    n1 = len(P1)
    groups = [("one-vs-class%d" % m, np.array([0]), np.arange(1 + m, K + 1, CC_M)) for m in range(CC_M)]
    groups.append(("class0-vs-one", np.arange(1, K + 1, CC_M), np.array([0])))
    for m in range(3):
        g1 = np.array([1 + m + k * (K // 5) for k in range(5)])
        g2 = np.setdiff1d(np.arange(1 + (m + 3) % CC_M, K + 1, CC_M), g1)
        groups.append(("five-vs-class%d" % ((m + 3) % CC_M), g1, g2))
    fr = G + J
    return dict(cells=cells, xyz32=xyz.astype(np.float32), kw=kw, kind=kind, pairs=pairs, n1=n1,
                rev=(np.arange(0, n1, 7), np.arange(n1, n1 + len(P2))), rep=(len(pairs) - 1, len(pairs) - 2),
                groups=groups, cc_frames=list(range(F)), frac=lambda f, j: fr[j].tolist() if j < K else None,
                blocks=True)


def _setup_compact(spec):
    """Trajectories in which EVERY frame holds one compact atom group (2 atoms, or a 4-atom cluster strung along the
    pair): bounding-box diagonal below half the shortest cell edge.  Frames = all fractional-grid displacements
    (step 1/4 in [-1,1]^3) that are that short, plus, for every lattice vector v = n.V (n in {-2..2}^3) shorter than the
    shortest edge, the displacements s*v (s = 0.51, 0.53, .. 0.97, slightly off-axis) that are that short: those have
    the closer image s*v - v (strongly skewed and unreduced cells)."""
    menu = _menu()
    c = menu[spec["cells"][0]]
    V = c["vectors"]
    G = grids.frac_grid(-1.0, 1.0, 0.25)
    edge0 = np.linalg.norm(V, axis=1).min()
    nn = np.array(list(itertools.product(range(-2, 3), repeat=3)), dtype=np.float64)
    lv = nn @ V
    ln = np.linalg.norm(lv, axis=1)
    short = nn[(ln > 1e-9) & (ln < 0.999 * edge0)]
    if len(short):
        ss = np.arange(0.51, 0.98, 0.02)
        G = np.vstack([G, (ss[:, None, None] * short[None, :, :]).reshape(-1, 3) + 0.013])
    J = grids.jitter(len(G), 3, scale=JIT_SCALE, seed=spec["seed"]) if spec["mode"] == "jit" else np.zeros((len(G), 3))
    d = (G + J) @ V
    edge = np.linalg.norm(V, axis=1).min()
    n = np.linalg.norm(d, axis=1)
    if spec["shape"] == "pair":
        keep = (n > 1e-6) & (n < 0.499 * edge)
        d, fr = d[keep], (G + J)[keep]
        F = len(d)
        xyz = np.zeros((F, 2, 3))
        xyz[:, 1] = d
        pairs = np.array([(0, 1), (1, 0), (0, 0), (0, 1)], dtype=np.int32)
        n1, rev, rep = 1, (np.array([0]), np.array([1])), (3, 0)
        groups = [("0-vs-1", np.array([0]), np.array([1])), ("1-vs-0", np.array([1]), np.array([0]))]
    else:
        off = grids.jitter(2 * len(G), 3, scale=0.04, seed=spec["seed"] + 5).reshape(len(G), 2, 3)
        xyz = np.zeros((len(G), 4, 3))
        xyz[:, 1] = d
        xyz[:, 2] = 0.5 * d + off[:, 0] * n[:, None]
        xyz[:, 3] = 0.25 * d + off[:, 1] * n[:, None]
        diag = np.linalg.norm(xyz.max(axis=1) - xyz.min(axis=1), axis=1)
        keep = (n > 1e-6) & (diag < 0.499 * edge)
        xyz, fr = xyz[keep], (G + J)[keep]
        F = len(xyz)
        pairs = np.array([(0, 1), (0, 2), (0, 3), (1, 2), (1, 3), (2, 3), (1, 0), (3, 1), (2, 2), (0, 1)], dtype=np.int32)
        n1, rev, rep = 6, (np.array([0, 4]), np.array([6, 7])), (9, 0)
        groups = [("02-vs-13", np.array([0, 2]), np.array([1, 3])), ("1-vs-023", np.array([1]), np.array([0, 2, 3]))]
    for f in range(F):
        xyz[f] += _base(f % 3, V)
    cells = [c] * F
    kw, kind = _cell_kw(spec, cells, F)
    return dict(cells=cells, xyz32=xyz.astype(np.float32), kw=kw, kind=kind + "|compact-" + spec["shape"], pairs=pairs, n1=n1,
                rev=rev, rep=rep, groups=groups, cc_frames=list(range(0, F, max(1, F // 24))),
                frac=lambda f, j: fr[f].tolist(), blocks=False)


def _job(spec):
    su = _setup_compact(spec) if spec.get("type") == "compact" else _setup_grid(spec)
    return _evaluate(spec, **su)


def _evaluate(spec, cells, xyz32, kw, kind, pairs, n1, rev, rep, groups, cc_frames, frac, blocks):
    import mdtraj as md
    from mdtraj.geometry.distance import compute_distances_core
    F, N = xyz32.shape[:2]
    acc = Acc(spec)
    x64 = xyz32.astype(np.float64)
    mk = lambda: gc.make_traj(xyz32, **kw)
    t0 = mk()
    have_cell = t0.unitcell_vectors is not None
    Vst = t0.unitcell_vectors.astype(np.float64) if have_cell else None      # the cell as stored (float32 values)
    ortho = [bool(c["ortho"]) for c in cells]
    varying = have_cell and len(spec["cells"]) > 1
    NP = len(pairs)
    p0, p1 = pairs[:, 0], pairs[:, 1]
    empty = np.zeros((0, 2), dtype=np.int32)
    # time pairs: per origin frame f the lags 0, 2, 1 (compact jobs: 0, 1), so that a row's first frame equals the previous
    # row's first frame (runs) or the previous row's second frame (chains (f,f+1) -> (f+1,f+1)); then the reverse chain
    # (f+1, f) in which a row's second frame is the previous row's first.  The ORDER of the rows is part of the design:
    # kernels may carry state from one row to the next.  For 3 frames every one of the 9 frame pairs occurs.
    lags = (0, 1) if (spec.get("type") == "compact" or F < 3) else (0, 2, 1)
    times = np.array([(f, (f + k) % F) for f in range(F) for k in lags] + [((f + 1) % F, f) for f in range(F)], dtype=np.int32)
    NT = len(times)

    def mimg(rr, fidx):
        """min image of rr[i] (i over frames / time pairs) in the cell of frame fidx[i]; one call when the cell is constant."""
        if not varying:
            m = gc.min_image(rr, Vst[0])
            return m["d"], m["n"]
        ms = [gc.min_image(rr[i], Vst[fidx[i]]) for i in range(len(rr))]
        return np.array([m["d"] for m in ms]), np.array([m["n"] for m in ms])

    def tolp(rr, fidx):
        return gc.tol_disp(rr, Vst[np.asarray(fidx)][:, None])

    def desc(f, V):
        def d(where):
            j = int(where[-1])
            fr = int(where[0]) if len(where) > 1 else f
            f1, f2 = (times[fr] if f == "t" else (fr, fr))
            return "job=%s mode=%s frame(s)=(%d,%d) pair=%s r1=%s r2=%s cell=%s" % (
                spec["name"], spec["mode"], f1, f2, pairs[j].tolist(), xyz32[f1, p0[j]].tolist(),
                xyz32[f2, p1[j]].tolist(), None if Vst is None else Vst[f1].tolist())
        return d

    # ---- oracle per frame --------------------------------------------------------------------
    r = x64[:, p1] - x64[:, p0]                                   # (F, NP, 3) plain differences r2 - r1
    eucl = np.linalg.norm(r, axis=-1)
    tolE = gc.tol_disp(r)
    if have_cell:
        dstar, nstar = mimg(r, np.arange(F))
        tolP = tolp(r, np.arange(F))
        hw = np.array([0.5 * grids.cell_widths(Vst[f]).min() for f in range(F)])
        dm = [gc.in_domain(dstar[f], hw[f], tolP[f]) for f in range(F)]
        indom = np.array([np.ones(NP, bool) if ortho[f] else dm[f][0] for f in range(F)])
        acc.n["pairs_within_margin_of_domain_edge"] += int(sum(0 if ortho[f] else dm[f][1][:n1].sum() for f in range(F)))
        acc.n["pairs_in_domain"] += int(indom[:, :n1].sum())
        acc.n["pairs_beyond_domain"] += int((~indom[:, :n1]).sum())
        nontriv = np.any(nstar != 0, axis=-1)                    # the min image is not the plain difference
        if spec.get("type") == "compact":
            acc.n["compact_frames"] += F
            acc.n["compact_pairs_with_a_closer_image_in_domain"] += int((nontriv & indom)[:, :n1].sum())
    else:
        nontriv = np.zeros((F, NP), bool)
    # distinct non-trivial inputs: distinct (r1, r2, frame-cell) float32 triples whose minimum image needs a shift
    key = np.concatenate([xyz32[:, p0], xyz32[:, p1]], axis=-1)
    if varying or spec.get("type") == "compact":
        acc.n["distinct_nontrivial"] += sum(len(np.unique(key[f][nontriv[f]], axis=0)) for f in range(F))
        acc.n["distinct_inputs"] += sum(len(np.unique(key[f], axis=0)) for f in range(F))
    else:
        acc.n["distinct_nontrivial"] += len(np.unique(key[nontriv], axis=0))
        acc.n["distinct_inputs"] += len(np.unique(key.reshape(-1, 6), axis=0))

    out = {}
    mutated = 0
    for periodic in (True, False):
        per = periodic and have_cell
        for opt in (True, False):
            tag = "%s|%s|%s" % ("opt" if opt else "ref", kind, "periodic" if periodic else "nonperiodic")
            t = mk()
            D = np.asarray(md.compute_distances(t, pairs, periodic=periodic, opt=opt))
            t = mk()
            X = np.asarray(md.compute_displacements(t, pairs, periodic=periodic, opt=opt))
            # the array-level entry point gives the same values (all pairs on the optimised path, the first 64 on
            # the reference path); whether it rewrites the caller's unitcell_vectors array is recorded, not judged
            vin = None if not have_cell else np.array(t0.unitcell_vectors, dtype=np.float32, order="C", copy=True)
            sub = pairs if opt else pairs[:64]
            Dc = np.asarray(compute_distances_core(xyz32.copy(), sub, unitcell_vectors=vin, periodic=periodic, opt=opt))
            acc.n["evaluations"] += int(Dc.size)
            if Dc.shape != (F, len(sub)) or not np.array_equal(Dc, D[:, :len(sub)]):
                acc.add("distances_core|%s|differs-from-compute_distances" % tag, "compute_distances_core on traj.xyz / "
                        "traj.unitcell_vectors differs from compute_distances")
            if have_cell and not np.array_equal(vin, t0.unitcell_vectors):
                mutated += 1
            t = mk()
            DT = np.asarray(md.compute_distances_t(t, pairs, times, periodic=periodic, opt=opt))
            out[(periodic, opt)] = (D, X, DT)
            # shapes, pair-list shapes
            for nm, got, want in (("distances", D.shape, (F, NP)), ("displacements", X.shape, (F, NP, 3)),
                                  ("distances_t", DT.shape, (NT, NP))):
                acc.n["evaluations"] += 1
                if got != want:
                    acc.add("%s|%s|shape" % (nm, tag), "shape %s, documented %s" % (got, want))
            for nm, fn, want in (("distances", lambda: md.compute_distances(mk(), empty, periodic=periodic, opt=opt), (F, 0)),
                                 ("displacements", lambda: md.compute_displacements(mk(), empty, periodic=periodic, opt=opt), (F, 0, 3)),
                                 ("distances_t", lambda: md.compute_distances_t(mk(), empty, times, periodic=periodic, opt=opt), (NT, 0))):
                acc.n["evaluations"] += 1
                got = np.asarray(fn()).shape
                if got != want:
                    acc.add("%s|empty-pairs|shape" % nm, "empty pair list, %d frames, %d time pairs: shape %s, documented %s"
                            % (F, NT, got, want))
            if D.shape != (F, NP) or X.shape != (F, NP, 3) or DT.shape != (NT, NP):
                continue
            # pair-list length classes (SIMD remainders, block sizes): a sub-list gives the same rows as the full list
            if blocks and (opt or True):
                for m in BLOCK_SIZES:
                    if m > NP or (not opt and m > 9):
                        continue
                    s0 = (NP - m) // 3
                    sl = pairs[s0:s0 + m]
                    Db = np.asarray(md.compute_distances(mk(), sl, periodic=periodic, opt=opt))
                    Xb = np.asarray(md.compute_displacements(mk(), sl, periodic=periodic, opt=opt))
                    Tb = np.asarray(md.compute_distances_t(mk(), sl, times, periodic=periodic, opt=opt))
                    acc.n["evaluations"] += int(Db.size + Xb.size + Tb.size)
                    acc.n["pair_list_length_classes"] += 1
                    for nm, got, full in (("distances", Db, D[:, s0:s0 + m]), ("displacements", Xb, X[:, s0:s0 + m]),
                                          ("distances_t", Tb, DT[:, s0:s0 + m])):
                        if got.shape != full.shape or not np.array_equal(got, full):
                            acc.add("%s|%s|sublist-differs-from-full-list" % (nm, tag), "pairs[%d:%d] (%d pairs, %d frames) gives "
                                    "other values than the same rows of the full %d-pair call; job=%s"
                                    % (s0, s0 + m, m, F, NP, spec["name"]))
            D = D.astype(np.float64)
            X = X.astype(np.float64)
            DT = DT.astype(np.float64)
            lenX = np.linalg.norm(X, axis=-1)
            tol = tolP if per else tolE
            # (b) distance == |displacement|
            acc.cmp("dist=|disp|", "distances|%s|norm-of-displacement" % tag, np.abs(D - lenX), tol, desc(None, None))
            # repeated pair rows identical (pairs (i,i) are judged like every other pair: d* = 0 within the error model)
            acc.n["evaluations"] += 1
            if not (np.array_equal(D[:, rep[0]], D[:, rep[1]]) and np.array_equal(X[:, rep[0]], X[:, rep[1]])):
                acc.add("distances|%s|repeated-pair" % tag, "repeated pair gives different rows")
            if not per:
                # (g) plain Euclid, documented sign r2 - r1
                acc.cmp("euclid-dist", "distances|%s|euclid" % tag, np.abs(D - eucl), tolE, desc(None, None))
                acc.cmp("euclid-disp", "displacements|%s|euclid" % tag, np.abs(X - r).max(-1), tolE, desc(None, None))
            else:
                # (a) displacement - (r2 - r1) is an integer combination of that frame's cell vectors
                delta = X - r
                n = np.einsum("fpk,fkl->fpl", delta, np.linalg.inv(Vst))
                nr = np.round(n)
                resid = delta - np.einsum("fpk,fkl->fpl", nr, Vst)
                acc.cmp("lattice", "displacements|%s|not-a-lattice-shift" % tag, np.abs(resid).max(-1), tol, desc(None, None))
                acc.ratio["nonintegrality"] = max(acc.ratio["nonintegrality"], float(np.abs(n - nr).max()))
                # (c)/(d)
                acc.cmp("min-image", "distances|%s|not-minimum-image" % tag, np.abs(D - dstar), tol, desc(None, None), mask=indom)
                acc.cmp("never-below", "distances|%s|below-minimum" % tag, np.maximum(dstar - D, 0), tol, desc(None, None))
                acc.cmp("min-image-disp", "displacements|%s|not-minimum-image" % tag, np.abs(lenX - dstar), tol, desc(None, None), mask=indom)
                acc.cmp("never-below-disp", "displacements|%s|below-minimum" % tag, np.maximum(dstar - lenX, 0), tol, desc(None, None))
                beyond = ~indom
                acc.n["beyond_domain_equal_dstar"] += int((np.abs(D - dstar) <= tol)[beyond].sum())
                acc.n["beyond_domain_larger"] += int((np.abs(D - dstar) > tol)[beyond].sum())
                # reversed pairs: same length, negated vector unless an image tie was resolved the other way
                jj, rv = rev
                acc.cmp("reversed-dist", "distances|%s|reversed-pair" % tag, np.abs(D[:, rv] - D[:, jj]), 2 * tol[:, jj], desc(None, None), jmap=jj)
                s = X[:, rv] + X[:, jj]
                tie = np.abs(s).max(-1) > 2 * tol[:, jj]
                acc.n["reversed_pair_tie_other_image"] += int(tie.sum())
            # ---- compute_distances_t ---------------------------------------------------------
            rt = x64[times[:, 1]][:, p1] - x64[times[:, 0]][:, p0]          # (NT, NP, 3)
            if not per:
                acc.cmp("t-euclid", "distances_t|%s|euclid" % tag, np.abs(DT - np.linalg.norm(rt, axis=-1)), gc.tol_disp(rt), desc("t", None))
            else:
                best = None
                for which in ((0, 1) if varying else (0,)):
                    fc = times[:, which]
                    ds, ns = mimg(rt, fc)
                    tl = tolp(rt, fc)
                    dmt = [gc.in_domain(ds[i], hw[fc[i]], tl[i]) for i in range(NT)]
                    dom = np.array([np.ones(NP, bool) if ortho[fc[i]] else dmt[i][0] for i in range(NT)])
                    if which == 0:
                        acc.n["t_pairs_within_margin_of_domain_edge"] += int(sum(0 if ortho[fc[i]] else dmt[i][1].sum() for i in range(NT)))
                    e_eq = np.where(dom, np.abs(DT - ds), 0.0) / tl
                    e_lo = np.maximum(ds - DT, 0) / tl
                    e = np.maximum(e_eq, e_lo)
                    best = e if best is None else np.minimum(best, e)
                    if which == 0:
                        acc.n["t_pairs_in_domain"] += int(dom.sum())
                        acc.n["t_distinct_nontrivial"] += int(np.any(ns != 0, axis=-1).sum())
                acc.cmp("t-min-image", "distances_t|%s|not-minimum-image" % tag, best, 1.0, desc("t", None))
            # (f) _t == static call on re-stacked frames (optimised path; the reference-path _t values are tied to
            # it through opt == ref below and to the oracle above)
            if not opt:
                continue
            xr = np.concatenate([xyz32[times[:, 0]], xyz32[times[:, 1]]], axis=1)     # (NT, 2N, 3)
            pr = np.stack([p0, p1 + N], axis=1).astype(np.int32)
            bestf = None
            for which in ((0, 1) if (varying and per) else (0,)):
                vr = None if not have_cell else t0.unitcell_vectors[times[:, which]]
                tr = gc.make_traj(xr, vectors=vr)
                DS = np.asarray(md.compute_distances(tr, pr, periodic=periodic, opt=opt)).astype(np.float64)
                tl = tolp(rt, times[:, which]) if per else gc.tol_disp(rt)
                e = np.abs(DT - DS)
                with np.errstate(divide="ignore", invalid="ignore"):
                    e = np.where(tl > 0, e / np.where(tl > 0, 2 * tl, 1), np.where(e > 0, np.inf, 0))
                if which == 1:       # other frame's cell only admissible for pairs of different frames
                    e = np.where((times[:, 0] == times[:, 1])[:, None], np.inf, e)
                bestf = e if bestf is None else np.minimum(bestf, e)
            acc.cmp("t=static", "distances_t|%s|differs-from-static-restack" % tag, bestf, 1.0, desc("t", None))
        # (e) optimised == reference path
        (Do, Xo, DTo), (Dn, Xn, DTn) = out[(periodic, True)], out[(periodic, False)]
        if Do.shape == Dn.shape and Xo.shape == Xn.shape and DTo.shape == DTn.shape and Do.shape == (F, NP):
            tag = "%s|%s" % (kind, "periodic" if periodic else "nonperiodic")
            tol = tolP if per else tolE
            acc.cmp("opt=ref-dist", "distances|%s|opt-vs-ref" % tag, np.abs(Do.astype(float) - Dn), 2 * tol, desc(None, None))
            dv = np.abs(Xo.astype(float) - Xn).max(-1)
            dl = np.abs(np.linalg.norm(Xo.astype(float), axis=-1) - np.linalg.norm(Xn.astype(float), axis=-1))
            acc.cmp("opt=ref-disp-length", "displacements|%s|opt-vs-ref-length" % tag, dl, 2 * tol, desc(None, None))
            if per:
                # vectors must agree unless both are (equally long) images of each other: count such ties
                dd = Xo.astype(float) - Xn
                nn = np.einsum("fpk,fkl->fpl", dd, np.linalg.inv(Vst))
                latt = np.abs(dd - np.einsum("fpk,fkl->fpl", np.round(nn), Vst)).max(-1) <= 2 * tol
                tie = (dv > 2 * tol) & latt
                acc.n["opt_ref_tie_other_image"] += int(tie.sum())
                acc.cmp("opt=ref-disp", "displacements|%s|opt-vs-ref" % tag, np.where(tie, 0.0, dv), 2 * tol, desc(None, None))
            else:
                acc.cmp("opt=ref-disp", "displacements|%s|opt-vs-ref" % tag, dv, 2 * tol, desc(None, None))
            rt = x64[times[:, 1]][:, p1] - x64[times[:, 0]][:, p0]
            tlt = tolp(rt, times[:, 0]) if per else gc.tol_disp(rt)
            acc.cmp("opt=ref-t", "distances_t|%s|opt-vs-ref" % tag, np.abs(DTo.astype(float) - DTn), 2 * tlt, desc("t", None))
        # ---- compute_distances_t with time-pair lists sorted by cell SHAPE (cells of mixed shape only) -------------
        # list A: every second frame rectangular, first frames of every shape; list B: the mirror image.  The kernel choice
        # must follow the cell that is used (first index), not the other column.
        if per and varying and any(ortho) and not all(ortho):
            rect = [f for f in range(F) if ortho[f]]
            for lname, tlist in (("second-frames-rectangular", [(f, g) for f in range(F) for g in rect]),
                                 ("first-frames-rectangular", [(g, f) for g in rect for f in range(F)])):
                tl2 = np.array(tlist, dtype=np.int32)
                rt2 = x64[tl2[:, 1]][:, p1] - x64[tl2[:, 0]][:, p0]
                res2 = {}
                for opt in (True, False):
                    DT2 = np.asarray(md.compute_distances_t(mk(), pairs, tl2, periodic=True, opt=opt)).astype(np.float64)
                    res2[opt] = DT2
                    best = None
                    for which in (0, 1):
                        fc = tl2[:, which]
                        ds, _ns = mimg(rt2, fc)
                        tl = tolp(rt2, fc)
                        dmt = [gc.in_domain(ds[i], hw[fc[i]], tl[i]) for i in range(len(tl2))]
                        dom = np.array([np.ones(NP, bool) if ortho[fc[i]] else dmt[i][0] for i in range(len(tl2))])
                        e = np.maximum(np.where(dom, np.abs(DT2 - ds), 0.0), np.maximum(ds - DT2, 0)) / tl
                        if which == 1:       # other frame's cell only admissible for pairs of different frames
                            e = np.where((tl2[:, 0] == tl2[:, 1])[:, None], np.inf, e)
                        best = e if best is None else np.minimum(best, e)
                    acc.cmp("t-min-image-by-shape", "distances_t|%s|%s|periodic|%s|not-minimum-image"
                            % ("opt" if opt else "ref", kind, lname), best, 1.0,
                            lambda w, tl2=tl2: "job=%s mode=%s time pair %s pair %s" % (spec["name"], spec["mode"], tl2[w[0]].tolist(), pairs[w[1]].tolist()))
                acc.cmp("opt=ref-t-by-shape", "distances_t|%s|periodic|%s|opt-vs-ref" % (kind, lname), np.abs(res2[True] - res2[False]),
                        2 * tolp(rt2, tl2[:, 0]), lambda w, tl2=tl2: "job=%s time pair %s pair %s" % (spec["name"], tl2[w[0]].tolist(), pairs[w[1]].tolist()))
        # ---- find_closest_contact -----------------------------------------------------------
        tag = "%s|%s" % (kind, "periodic" if periodic else "nonperiodic")
        t = mk()
        for f in cc_frames:
            for label, g1, g2 in groups:
                g1 = g1.astype(np.int32)
                g2 = g2.astype(np.int32)
                a1, a2, dist = md.find_closest_contact(t, g1, g2, frame=f, periodic=periodic)
                acc.n["closest_contact_calls"] += 1
                acc.n["evaluations"] += 1
                sig = "closest_contact|%s|" % tag
                where = "job=%s mode=%s frame %d groups %s" % (spec["name"], spec["mode"], f, label)
                if a1 not in g1 or a2 not in g2:
                    acc.add(sig + "atoms-not-in-groups", "%s: returned atoms (%d,%d)" % (where, a1, a2))
                    continue
                rr = x64[f, g2][None, :, :] - x64[f, g1][:, None, :]
                if per:
                    dm = gc.min_image(rr, Vst[f])["d"]
                    tl = float(gc.tol_disp(rr, Vst[f][None]).max())
                else:
                    dm = np.linalg.norm(rr, axis=-1)
                    tl = float(gc.tol_disp(rr).max())
                mstar = float(dm.min())
                dpair = float(dm[list(g1).index(a1), list(g2).index(a2)])
                # skewed cells: equality only when the closest pair is inside the minimum-image domain by the float32 margin
                # and no other pair near the domain edge could be reported instead
                inside, band = (True, False) if ((not per) or ortho[f]) else gc.in_domain(mstar, hw[f], tl)
                judged_equal = bool(inside)
                if band:
                    acc.n["closest_contact_within_margin_of_domain_edge"] += 1
                e_lo = max(mstar - dist, 0.0)
                acc.ratio["closest-never-below"] = max(acc.ratio["closest-never-below"], e_lo / tl)
                if e_lo > tl:
                    acc.add(sig + "below-minimum", "%s: distance %.7g below the smallest image distance %.7g of any pair "
                            "(tol %.2e)" % (where, dist, mstar, tl))
                if judged_equal:
                    e = abs(dist - mstar)
                    acc.ratio["closest-min"] = max(acc.ratio["closest-min"], e / tl)
                    if e > tl:
                        i1, i2 = np.unravel_index(dm.argmin(), dm.shape)
                        acc.add(sig + "not-the-closest", "%s: distance %.7g, the closest pair (%d,%d) has %.7g, tol %.2e"
                                % (where, dist, g1[i1], g2[i2], mstar, tl))
                    if dpair - mstar > 2 * tl:
                        acc.add(sig + "wrong-pair", "%s: returned pair (%d,%d) has d*=%.7g, the closest has %.7g"
                                % (where, a1, a2, dpair, mstar))
                else:
                    acc.n["closest_contact_beyond_domain"] += 1
    acc.n["core_calls_that_rewrote_callers_unitcell_vectors"] += mutated
    # samples
    samples = []
    for f, j in ((0, 0), (F // 2, n1 // 2), (F - 1, n1 - 1)):
        D = out[(True, True)][0]
        samples.append({"job": spec["name"], "mode": spec["mode"], "base": BASE_NAMES[(f + spec.get("rot", 0)) % 3],
                        "cell_vectors": None if Vst is None else Vst[f].tolist(), "frac_displacement": frac(f, j),
                        "r1": xyz32[f, p0[j]].tolist(), "r2": xyz32[f, p1[j]].tolist(),
                        "oracle_dstar": float(dstar[f, j]) if have_cell else float(eucl[f, j]),
                        "oracle_shift_n": nstar[f, j].tolist() if have_cell else None,
                        "compute_distances": float(D[f, j]) if D.shape == (F, NP) else None})
    viol = [v for lst in acc.viol.values() for v in lst]
    return {"name": spec["name"], "mode": spec["mode"], "kind": kind, "n": dict(acc.n), "ratio": dict(acc.ratio),
            "viol": viol, "samples": samples, "K": N - 1, "NP": NP, "F": F, "type": spec.get("type", "grid")}


def _jobs(ctx):
    quick = ctx.quick
    step = 0.5 if quick else 0.25
    names = [c["name"] for c in grids.cell_menu(quick=quick)] + (["g45", "g135"] if quick else EXTRA_SKEW)
    menu = _menu()
    compact = [n for n in names if not menu[n]["ortho"]] + [n for n in EXTRA_SKEW + SHORT_DIAGONAL if n not in names] + ["ortho234"]
    jobs = []
    for mode in ("exact", "jit"):
        for n in names:
            jobs.append(dict(name=n, cells=[n], rot=0, mode=mode, step=step, seed=ctx.seed))
        for sn, lst in STACKS.items():
            for rot in range(1 if quick else 3):
                st = LONG_STACK_STEP[step] if sn == "stack_skew_shared" else step
                jobs.append(dict(name="%s/rot%d" % (sn, rot), cells=list(lst), rot=rot, mode=mode, step=st, seed=ctx.seed))
        jobs.append(dict(name="nocell", cells=None, rot=0, mode=mode, step=step, seed=ctx.seed))
        for n in compact:
            for shape in ("pair", "cluster"):
                jobs.append(dict(type="compact", name="compact-%s/%s" % (shape, n), cells=[n], shape=shape, mode=mode, seed=ctx.seed))
    return jobs, names, compact


def _cost(j):
    menu = _menu()
    if j["cells"] is None or j.get("type") == "compact":
        return 0
    return sum(0.2 if menu[c]["ortho"] else 1 for c in j["cells"]) * (3 if len(j["cells"]) == 1 else 1)


def run(ctx):
    import mdtraj  # noqa: F401  (imported before fork)
    jobs, names, compact = _jobs(ctx)
    order = sorted(range(len(jobs)), key=lambda i: -_cost(jobs[i]))        # longest first
    res = ctx.pmap(_job, [jobs[i] for i in order])
    res = [r for _, r in sorted(zip(order, res), key=lambda p: p[0])]
    tot = collections.Counter()
    ratio = collections.defaultdict(float)
    samples = []
    for r in res:
        ctx.report(r["viol"])
        tot.update(r["n"])
        for k, v in r["ratio"].items():
            ratio[k] = max(ratio[k], v)
    for r in res[:: max(1, len(res) // 6)]:
        samples.append(r["samples"][len(samples) % 3])
    judged = {k: v for k, v in ratio.items() if k not in ("nonintegrality", "i==j-abs-distance")}
    if tot["core_calls_that_rewrote_callers_unitcell_vectors"]:
        ctx.assume("observation (not judged, the property is silent): compute_distances_core(opt=False) rewrote the caller's "
                   "float32 unitcell_vectors array in place (to the reduced form of the same lattice) in %d calls; "
                   "Trajectory.unitcell_vectors is recomputed on every access, so trajectory-level calls are unaffected"
                   % tot["core_calls_that_rewrote_callers_unitcell_vectors"])
    cov = {
        "evaluations": int(tot["evaluations"]),
        "distinct_nontrivial": int(tot["distinct_nontrivial"]),
        "rule": "one case = (cell as stored, frame/base, atom pair); every case is evaluated by 3 functions x opt x periodic "
                "(evaluations counts individual reported values compared with the oracle or a metamorphic partner). "
                "distinct = distinct float32 (r1, r2) coordinate pairs per frame within a job (jobs differ in cell or "
                "jitter); non-trivial = the float64 minimum image needs a non-zero lattice shift",
        "samples": samples,
        "exhaustive": True,
        "jobs": len(jobs),
        "axes": {"cells": names, "stacks": STACKS, "bases": BASE_NAMES, "modes": ["exact", "jit"],
                 "grid_step": jobs[0]["step"], "grid_points_per_base": res[0]["K"], "pairs_per_frame": res[0]["NP"],
                 "opt": [True, False], "periodic": [True, False],
                 "time_pairs": "rows (f,f), (f,f+2), (f,f+1) for every frame f (mod n_frames; compact jobs (f,f), (f,f+1)), then the "
                               "reverse chain (f+1,f): all 9 frame pairs for 3 frames, with runs (same first frame), chains "
                               "(first frame = previous row's second) and reverse chains as adjacent rows; mixed-shape stacks: additionally the lists "
                               "'every second frame rectangular' and 'every first frame rectangular'",
                 "compact_cells": compact, "compact_shapes": ["pair (2 atoms per frame)", "cluster (4 atoms per frame)"],
                 "pair_list_length_classes": BLOCK_SIZES,
                 "functions": ["compute_distances", "compute_displacements", "compute_distances_t", "find_closest_contact"]},
        "distinct_inputs": int(tot["distinct_inputs"]),
        "pairs_in_minimum_image_domain": int(tot["pairs_in_domain"]),
        "pairs_beyond_domain_only_lower_bound_judged": int(tot["pairs_beyond_domain"]),
        "beyond_domain_values_equal_to_dstar": int(tot["beyond_domain_equal_dstar"]),
        "beyond_domain_values_larger_than_dstar": int(tot["beyond_domain_larger"]),
        "t_pairs_in_domain": int(tot["t_pairs_in_domain"]),
        "t_distinct_nontrivial": int(tot["t_distinct_nontrivial"]),
        "compact_group_frames": int(tot["compact_frames"]),
        "compact_pairs_with_a_closer_image_in_domain": int(tot["compact_pairs_with_a_closer_image_in_domain"]),
        "pair_sublist_calls_compared_with_full_list": int(tot["pair_list_length_classes"]),
        "closest_contact_calls": int(tot["closest_contact_calls"]),
        "closest_contact_beyond_domain_only_lower_bound_judged": int(tot["closest_contact_beyond_domain"]),
        "excluded_within_margin": {"pairs_within_float32_margin_of_the_minimum_image_domain_edge_(equality_not_judged)":
                                   int(tot["pairs_within_margin_of_domain_edge"]),
                                   "t_pairs_within_margin_of_domain_edge": int(tot["t_pairs_within_margin_of_domain_edge"]),
                                   "closest_contact_calls_within_margin_of_domain_edge":
                                   int(tot["closest_contact_within_margin_of_domain_edge"]),
                                   "opt_vs_ref_displacement_other_equally_long_image": int(tot["opt_ref_tie_other_image"]),
                                   "reversed_pair_other_equally_long_image": int(tot["reversed_pair_tie_other_image"])},
        "core_calls_that_rewrote_callers_unitcell_vectors": int(tot["core_calls_that_rewrote_callers_unitcell_vectors"]),
        "comparisons_per_check": {k[4:]: int(v) for k, v in tot.items() if k.startswith("cmp_")},
        "failing_comparisons_per_check": {k[4:]: int(v) for k, v in tot.items() if k.startswith("bad_")},
        "max_err_over_tol_per_check": {k: float(v) for k, v in judged.items()},
        "max_err_over_tol": float(max(judged.values())) if judged else 0.0,
        "max_nonintegrality_of_lattice_coefficients": float(ratio.get("nonintegrality", 0.0)),
        "max_abs_distance_reported_for_pairs_i_i": float(ratio.get("i==j-abs-distance", 0.0)),
        "tolerance": "|err| <= %d*eps32*S, S = 2|r2-r1| + |a|+|b|+|c| (periodic) or |r2-r1| (plain); opt-vs-ref and _t-vs-static: "
                     "twice that" % gc.C_DISP,
    }
    return "exploration", cov


def replay(ctx, rep):
    import mdtraj  # noqa: F401
    a = _job(rep["job"])
    b = _job(rep["job"])
    sa = sorted({v[0] for v in a["viol"]})
    sb = sorted({v[0] for v in b["viol"]})
    print("replay 1:", [v[1] for v in a["viol"] if v[0] == rep["sig"]][:1] or sa)
    print("replay 2:", [v[1] for v in b["viol"] if v[0] == rep["sig"]][:1] or sb)
    assert sa == sb and a["n"] == b["n"], "replay is not deterministic"
    return rep["sig"] not in sa
