"""C02 — partial loading equals slicing the fully loaded trajectory.

Complete cartesian product (cfgx): format x N x stride x atom_indices x {load(stride, ai), load(frame=),
load_frame, iterload(chunk, stride, skip, ai), load([files])}.  Oracle: numpy slicing of the full load of the
same file (differential; the full load itself is anchored by C01).  Every iterator is consumed through a
horizon (N + 3 chunks) so a non-terminating iterload is a reported violation, not a hang.
"""
import itertools
import os

import numpy as np

MANIFEST = {
    "category": "exploration",
    "engine": "cfgx",
    "technique": "exhaustive enumeration of the configuration product (format x stride x atom subset x frame x chunk x "
                 "skip x file lists) with a slicing oracle on the full load",
    "text": "For 15 readable formats a file of N frames (quick N=5; thorough N in {1,5,7}) is written once; then the complete "
            "product stride 1..S x atom_indices {None,[0],[1,3],all-but-first} for md.load, every frame index for "
            "load(frame=)/load_frame, chunk 0..N+1 x stride x skip 0..K x atom_indices for md.iterload (horizon N+3 "
            "chunks), file lists of length 1..3 (also two consecutive loads through ONE Topology object), a hand-written CHARMM fixed-atom DCD a 10-atom mdcrd without box line and a LAMMPS dump whose atom lines are permuted in every frame is executed and compared field by field (xyz, time, cell lengths and "
            "angles bit-for-bit, topology ==) with the same slicing of the full load. Exhaustive over the listed axes.",
    "note": "Differential oracle: the full load is trusted here (C01 anchors it). 6 atoms, small N; .arc uses a generated "
            "5-frame file. Formats without stored time are compared on the times the loaders synthesise.",
    "ref": "DESIGN.md §3 C02, §2.3",
}

FORMATS = ["h5", "xtc", "trr", "dcd", "fixed.dcd", "bigendian.dcd", "nc", "mdcrd", "nobox10.mdcrd", "shuffled.lammpstrj", "xyz", "xyz.gz", "lammpstrj", "gro", "pdb", "pdb.gz", "dtr", "arc"]
HAS_TOP = {"h5", "pdb", "pdb.gz", "lh5", "gro", "arc"}
NATOMS = 8
AI_MENU = [None, [0], [1, 3], [0, 2, 3, 6], [1, 2, 3, 4, 5, 6, 7]]


def _ref_traj(n_frames, seed):
    import mdtraj as md
    rng = np.random.RandomState(77 + seed)
    top = md.Topology()
    ch = top.add_chain()
    names = ["N", "CA", "C", "O", "CB", "H", "HA", "OXT"]
    els = [md.element.nitrogen, md.element.carbon, md.element.carbon, md.element.oxygen, md.element.carbon,
           md.element.hydrogen, md.element.hydrogen, md.element.oxygen]
    for r in range(2):
        res = top.add_residue("ALA" if r == 0 else "GLY", ch)
        for i in range(4):
            top.add_atom(names[r * 4 + i], els[r * 4 + i], res)
    xyz = np.round(rng.rand(n_frames, NATOMS, 3) * 2 + 0.1 * np.arange(n_frames)[:, None, None], 3).astype(np.float32)
    return md.Trajectory(xyz, top, time=np.arange(n_frames, dtype=float) * 2.0,
                         unitcell_lengths=np.round(np.full((n_frames, 3), 4.0) + 0.125 * np.arange(n_frames)[:, None], 3),
                         unitcell_angles=np.full((n_frames, 3), 90.0))


def _ref_traj10(n_frames, seed):
    """Ten atoms and NO unit cell: in the AMBER text format a frame is then exactly three full 10-field lines with no
    box line behind it (frame boundaries are found by counting fields or lines)."""
    import mdtraj as md
    rng = np.random.RandomState(177 + seed)
    top = md.Topology()
    ch = top.add_chain()
    for r in range(5):
        res = top.add_residue("GLY", ch)
        top.add_atom("N", md.element.nitrogen, res)
        top.add_atom("CA", md.element.carbon, res)
    xyz = np.round(rng.rand(n_frames, 10, 3) * 2 + 0.1 * np.arange(n_frames)[:, None, None], 3).astype(np.float32)
    return md.Trajectory(xyz, top, time=np.arange(n_frames, dtype=float) * 2.0)


def _arc_file(repo, path, n):
    lines = open(os.path.join(repo, "tests/data/4waters.arc")).read().splitlines()
    with open(path, "w") as fh:
        for k in range(n):
            fh.write(lines[0] + "\n")
            for ln in lines[1:]:
                w = ln.split()
                w[2] = "%.10f" % (float(w[2]) + k)
                fh.write("%6s  %-3s%16s%16s%16s" % tuple(w[:5]) + "".join("%6s" % x for x in w[5:]) + "\n")


def _dcd_fixed_file(path, traj, fixed, E="<"):
    """A CHARMM DCD with FIXED atoms (NAMNF > 0), a layout mdtraj reads but never writes: the first frame holds all
    atoms, every later frame only the free ones (the fixed atoms keep their first-frame coordinates)."""
    import struct
    xyz = traj.xyz * 10.0
    nf, na = xyz.shape[:2]
    free = [i for i in range(na) if i not in fixed]
    xyz[:, fixed] = xyz[0, fixed]

    def rec(b):
        return struct.pack(E + "i", len(b)) + b + struct.pack(E + "i", len(b))
    icntrl = [0] * 20
    icntrl[0], icntrl[1], icntrl[2], icntrl[8] = nf, 0, 1, len(fixed)
    icntrl[10], icntrl[19] = 1, 24
    hdr = b"CORD" + struct.pack(E + "9i", *icntrl[:9]) + struct.pack(E + "f", 1.0) + struct.pack(E + "10i", *icntrl[10:])
    out = rec(hdr) + rec(struct.pack(E + "i", 1) + b"fixed-atom DCD written by the verification harness".ljust(80)) + rec(struct.pack(E + "i", na))
    if fixed:
        out += rec(struct.pack(E + "%di" % len(free), *[i + 1 for i in free]))
    L, A = traj.unitcell_lengths * 10.0, traj.unitcell_angles
    for f in range(nf):
        cell = [L[f, 0], np.cos(np.radians(A[f, 2])), L[f, 1], np.cos(np.radians(A[f, 1])), np.cos(np.radians(A[f, 0])), L[f, 2]]
        out += rec(struct.pack(E + "6d", *cell))
        idx = list(range(na)) if f == 0 else free
        for k in range(3):
            out += rec(np.asarray(xyz[f, idx, k], E + "f4").tobytes())
    with open(path, "wb") as fh:
        fh.write(out)
    return xyz / 10.0


def make_files(scratch, repo, fmt, n, seed, copies=3):
    """Write `copies` different files of format fmt with n frames; returns list of paths and the topology."""
    paths = []
    t0 = _ref_traj(n, seed)
    for c in range(copies):
        p = os.path.join(scratch, "c02_%s_%d_%d.%s" % (fmt.replace(".", "_"), n, c, fmt))
        if fmt == "arc":
            _arc_file(repo, p, n)
        elif fmt == "fixed.dcd":
            _dcd_fixed_file(p, _ref_traj(n, seed + 10 * c), [0, 3, 4])
        elif fmt == "bigendian.dcd":
            # the same CHARMM layout with unit-cell block, no fixed atoms, written in the OTHER byte order (files from
            # big-endian machines): every record marker and number needs the byte swap, also on the skip path
            _dcd_fixed_file(p, _ref_traj(n, seed + 10 * c), [], E=">")
        elif fmt == "shuffled.lammpstrj":
            # LAMMPS writes atom lines in arbitrary order unless `dump_modify sort id` is set: same data, the lines of every
            # frame permuted (the id column, not the line position, says which atom a line belongs to)
            tmp = p + ".sorted.lammpstrj"
            _ref_traj(n, seed + 10 * c).save(tmp)
            out, block = [], []
            perm = [5, 2, 7, 0, 3, 6, 1, 4]
            lines = open(tmp).read().splitlines()
            i = 0
            while i < len(lines):
                out.append(lines[i])
                if lines[i].startswith("ITEM: ATOMS"):
                    block = lines[i + 1:i + 1 + NATOMS]
                    k = (len(out) // 7) % NATOMS
                    out += [block[(q + k) % NATOMS] for q in perm]
                    i += NATOMS
                i += 1
            os.remove(tmp)
            with open(p, "w") as fh:
                fh.write("\n".join(out) + "\n")
        elif fmt == "nobox10.mdcrd":
            t0 = _ref_traj10(n, seed)
            _ref_traj10(n, seed + 10 * c).save(p)
        else:
            t = _ref_traj(n, seed + 10 * c)
            t.save(p)
        paths.append(p)
    return paths, t0.topology


def _kw(fmt, top):
    return {} if fmt in HAS_TOP else {"top": top}


def _cmp(got, exp, what):
    """Field-by-field comparison of two trajectories; returns None or a description."""
    if got.n_frames != exp.n_frames:
        return "n_frames", "%s: %d frames, expected %d" % (what, got.n_frames, exp.n_frames)
    if got.n_atoms != exp.n_atoms:
        return "n_atoms", "%s: %d atoms, expected %d" % (what, got.n_atoms, exp.n_atoms)
    if not np.array_equal(got.xyz, exp.xyz):
        return "xyz", "%s: coordinates differ from the slice of the full load" % what
    if not np.array_equal(np.asarray(got.time, float), np.asarray(exp.time, float)):
        return "time", "%s: time %s, expected %s" % (what, got.time.tolist(), exp.time.tolist())
    for f in ("unitcell_lengths", "unitcell_angles"):
        a, b = getattr(got, f), getattr(exp, f)
        if (a is None) != (b is None):
            return "cell", "%s: %s present=%s, expected present=%s" % (what, f, a is not None, b is not None)
        if a is not None and not np.array_equal(a, b):
            return "cell", "%s: %s differ" % (what, f)
    if got.topology != exp.topology:
        return "topology", "%s: topology differs from full.topology.subset(atom_indices)" % what
    if [a.name for a in got.topology.atoms] != [a.name for a in exp.topology.atoms]:
        return "topology", "%s: atom names differ" % what
    return None


def _slice(full, skip, stride, ai):
    t = full[skip::stride] if full.n_frames > skip else None
    if t is None:
        return None
    if ai is not None:
        t = t.atom_slice(ai)
    return t


def _flags(**kw):
    return ",".join("%s" % k for k, v in kw.items() if v) or "plain"


def run_format(args):
    """One worker = one (format, N): the full product for that format."""
    fmt, n, seed, scratch, repo, quick = args
    import mdtraj as md
    from vlib.runner import Watchdog
    from vlib.iso import isolated
    viol = []
    unsupported = set()
    cases = 0
    nontrivial = set()
    outcomes = set()
    sample = None
    try:
        paths, top = make_files(scratch, repo, fmt, n, seed)
    except Exception as e:  # noqa
        return [("%s|setup|raised" % fmt, "cannot write fixture: %r" % e, {"fmt": fmt, "n": n})], 0, set(), set(), None
    p = paths[0]
    kw = _kw(fmt, top)
    full = md.load(p, **kw)
    if fmt == "arc":
        top = full.topology
    N = full.n_frames
    natoms = full.n_atoms
    ai_menu = [a for a in AI_MENU if a is None or max(a) < natoms]
    smax = min(3, N + 1) if quick else N + 1
    cmax = min(4, N + 1) if quick else N + 1
    kmax = min(2, N) if quick else N

    def check(entry, params, fn, exp_fn, flags):
        nonlocal cases, sample
        cases += 1
        rep = {"fmt": fmt, "n": n, "entry": entry, "params": params}
        def body():
            try:
                with Watchdog(20):
                    return judge(fn(), exp_fn())
            except Watchdog.Timeout:
                return ("hang", "did not finish within the horizon")
            except NotImplementedError:
                return ("unsupported", "explicitly refused with NotImplementedError")
            except Exception as e:  # noqa
                return ("raised", "%s: %s" % (type(e).__name__, str(e)[:160]))
        st, val = isolated(body, 40)
        if st == "ok":
            r = val
        elif st == "crash":
            r = ("crash", "process died: %s" % val)
        elif st == "timeout":
            r = ("hang", "no return from native code within %ss" % val)
        else:
            r = ("raised", str(val))
        outcomes.add((entry, r[0] if r else "ok"))
        if r is not None and r[0] == "unsupported":
            unsupported.add((entry, flags))   # recorded, not judged: nothing was loaded
        elif r is not None:
            viol.append(("%s|%s|%s|%s" % (fmt, entry, flags, r[0]), "%s %s %s: %s" % (fmt, entry, params, r[1]), rep))
        else:
            nontrivial.add((entry, repr(sorted(params.items()))))
            if sample is None and entry == "iterload" and params.get("stride", 1) > 1:
                sample = rep

    judge = None

    # ---- md.load(stride, atom_indices)
    def judge_traj(got, exp):
        return _cmp(got, exp, "result")
    judge = judge_traj
    # md.load: EVERY strictly increasing atom subset of the first 8 atoms (255) x stride {1, 2}, plus the menu at
    # the larger strides
    nsub = min(natoms, NATOMS)
    all_subsets = [[i for i in range(nsub) if (m >> i) & 1] for m in range(1, 2 ** nsub)]
    load_axis = [(s, ai) for s in (1, 2) for ai in all_subsets if s <= smax] + \
                [(s, ai) for s, ai in itertools.product(range(1, smax + 1), ai_menu) if ai is None or s > 2]
    for s, ai in load_axis:
        check("load", {"stride": s, "atom_indices": ai},
              lambda: md.load(p, stride=s, atom_indices=ai, **kw), lambda: _slice(full, 0, s, ai),
              _flags(**{"stride>1": s > 1, "ai": ai is not None}))
    # ---- md.load(frame=i), md.load_frame(i)
    for i, ai in itertools.product(range(N), ai_menu):
        check("load(frame)", {"frame": i, "atom_indices": ai},
              lambda: md.load(p, frame=i, atom_indices=ai, **kw), lambda: _slice(full[i], 0, 1, ai),
              _flags(ai=ai is not None))
        check("load_frame", {"index": i, "atom_indices": ai},
              lambda: md.load_frame(p, i, atom_indices=ai, **kw), lambda: _slice(full[i], 0, 1, ai),
              _flags(ai=ai is not None))

    # ---- md.iterload(chunk, stride, skip, atom_indices)
    def judge_chunks(got, exp):
        chunks, exhausted = got
        if not exhausted:
            return "no-termination", "iterator still yielding after %d chunks (horizon)" % len(chunks)
        c = exp["chunk"]
        e = exp["traj"]
        n_exp = 0 if e is None else e.n_frames
        if n_exp == 0:
            tot = sum(x.n_frames for x in chunks)
            return None if tot == 0 else ("n_frames", "expected no frames, got %d" % tot)
        sizes = [x.n_frames for x in chunks]
        if c > 0:
            want = [c] * (n_exp // c) + ([n_exp % c] if n_exp % c else [])
        else:
            want = [n_exp]
        if sizes != want:
            return "chunk-sizes", "chunk sizes %s, expected %s" % (sizes, want)
        cat = chunks[0] if len(chunks) == 1 else chunks[0].join(chunks[1:], check_topology=True)
        return _cmp(cat, e, "concatenated chunks")

    judge = judge_chunks
    for c, s, k, ai in itertools.product(range(0, cmax + 1), range(1, smax + 1), range(0, kmax + 1), ai_menu):
        def it(c=c, s=s, k=k, ai=ai):
            g = md.iterload(p, chunk=c, stride=s, skip=k, atom_indices=ai, **kw)
            out = list(itertools.islice(g, N + 3))
            exhausted = len(out) < N + 3
            return out, exhausted
        check("iterload", {"chunk": c, "stride": s, "skip": k, "atom_indices": ai}, it,
              lambda c=c, s=s, k=k, ai=ai: {"chunk": c, "traj": _slice(full, k, s, ai)},
              _flags(chunk0=c == 0, **{"chunk%stride!=0": c > 0 and c % s != 0, "stride>1": s > 1, "skip>0": 0 < k < N,
                                       "skip=N": k == N, "ai": ai is not None}))

    # ---- lists of files
    judge = judge_traj
    fulls = [md.load(q, **kw) for q in paths]
    for L in range(1, len(paths) + 1):
        for s, ai in itertools.product((1, 2), (None, [1, 3]) if natoms > 3 else (None,)):
            def exp_list(L=L, s=s, ai=ai):
                parts = [_slice(f, 0, s, ai) for f in fulls[:L]]
                return parts[0] if L == 1 else parts[0].join(parts[1:])
            check("load(list)", {"files": L, "stride": s, "atom_indices": ai},
                  lambda L=L, s=s, ai=ai: md.load(paths[:L], stride=s, atom_indices=ai, **kw), exp_list,
                  _flags(**{"stride>1": s > 1, "ai": ai is not None, "many": L > 1}))
    # ---- sequences of two loads that share ONE topology (object or file): state left behind by the first load
    # (a patched or cached Topology) must not leak into the second
    if fmt not in HAS_TOP and natoms >= 7:
        import pickle
        top_path = os.path.join(scratch, "c02_top_%s_%d.pdb" % (fmt.replace(".", "_"), n))
        full[0].save(top_path)
        full_path = md.load(p, top=top_path)       # the full load through the same topology FILE (pdb adds bonds)
        for topkind, (A, B) in itertools.product(("object", "path"), (([1, 3], [0, 2]), ([0, 2, 3, 6], [1, 2, 4, 5]))):
            def seq(topkind=topkind, A=A, B=B):
                T = pickle.loads(pickle.dumps(top)) if topkind == "object" else top_path
                md.load(paths[:2], top=T, atom_indices=A)            # step 1: list of files + atom subset
                r2 = md.load(p, top=T, atom_indices=B)                # step 2: other subset of the same size
                if topkind == "object":
                    names = [a.name for a in T.subset(B).atoms]
                    want = [top.atom(i).name for i in B]
                    if names != want:
                        raise AssertionError("after load(list, atom_indices=%s) the caller's Topology.subset(%s) returns atoms %s" % (A, B, names))
                return r2
            check("load(list)->load", {"top": topkind, "first_atom_indices": A, "atom_indices": B}, seq,
                  lambda B=B, topkind=topkind: _slice(full if topkind == "object" else full_path, 0, 1, B),
                  _flags(**{"top=" + topkind: True}))
    return viol, cases, nontrivial, outcomes, sample


def run(ctx):
    ns = [5] if ctx.quick else [1, 5, 7]
    jobs = [(f, n, ctx.seed, ctx.scratch, ctx.repo, ctx.quick) for f in FORMATS for n in ns]
    outs = ctx.pmap(run_format, jobs)
    cases = 0
    nontriv = 0
    outcomes = set()
    samples = []
    for (viol, c, nt, oc, smp), job in zip(outs, jobs):
        ctx.report(viol)
        cases += c
        nontriv += len(nt)
        outcomes |= {(job[0],) + o for o in oc}
        if smp:
            samples.append(smp)
    return "exploration", {
        "evaluations": cases, "distinct_nontrivial": nontriv,
        "rule": "complete product of the axes below per format; a case is counted non-trivial/distinct when its "
                "(entry point, parameters) is new for that format and the comparison against the slicing oracle passed",
        "samples": samples[:5], "exhaustive": True,
        "axes": {"formats": FORMATS, "n_frames": ns, "atom_indices": AI_MENU, "atom_indices_for_load": "every non-empty strictly increasing subset of 8 atoms",
                 "stride": "1..min(3,N+1)" if ctx.quick else "1..N+1", "chunk": "0..min(4,N+1)" if ctx.quick else "0..N+1",
                 "skip": "0..min(2,N)" if ctx.quick else "0..N", "file_lists": "1..3",
                 "load_sequences": "load(list, ai=A) then load(ai=B) through one Topology object / one topology file"},
        "distinct_outcomes": len(outcomes),
    }


def replay(ctx, rep):
    a = run_one(ctx, rep)
    b = run_one(ctx, rep)
    print("replay 1:", a)
    print("replay 2:", b)
    assert a == b, "replay not deterministic"
    return a is None


def run_one(ctx, rep):
    import mdtraj as md
    from vlib.runner import Watchdog
    fmt, n = rep["fmt"], rep["n"]
    paths, top = make_files(ctx.scratch, ctx.repo, fmt, n, ctx.seed)
    kw = _kw(fmt, top)
    p = paths[0]
    full = md.load(p, **kw)
    pr = rep.get("params", {})
    e = rep.get("entry")
    try:
        with Watchdog(20):
            if e == "iterload":
                g = md.iterload(p, chunk=pr["chunk"], stride=pr["stride"], skip=pr["skip"], atom_indices=pr["atom_indices"], **kw)
                out = list(itertools.islice(g, full.n_frames + 3))
                if len(out) >= full.n_frames + 3:
                    return "no-termination"
                exp = _slice(full, pr["skip"], pr["stride"], pr["atom_indices"])
                tot = sum(x.n_frames for x in out)
                if exp is None or exp.n_frames == 0:
                    return None if tot == 0 else "n_frames"
                sizes = [x.n_frames for x in out]
                c = pr["chunk"]
                want = ([c] * (exp.n_frames // c) + ([exp.n_frames % c] if exp.n_frames % c else [])) if c else [exp.n_frames]
                if sizes != want:
                    return "chunk-sizes %s != %s" % (sizes, want)
                cat = out[0] if len(out) == 1 else out[0].join(out[1:])
                r = _cmp(cat, exp, "chunks")
                return r and r[1]
            if e == "load":
                r = _cmp(md.load(p, stride=pr["stride"], atom_indices=pr["atom_indices"], **kw),
                         _slice(full, 0, pr["stride"], pr["atom_indices"]), "load")
                return r and r[1]
            if e == "load(frame)":
                r = _cmp(md.load(p, frame=pr["frame"], atom_indices=pr["atom_indices"], **kw),
                         _slice(full[pr["frame"]], 0, 1, pr["atom_indices"]), "load(frame)")
                return r and r[1]
            if e == "load_frame":
                r = _cmp(md.load_frame(p, pr["index"], atom_indices=pr["atom_indices"], **kw),
                         _slice(full[pr["index"]], 0, 1, pr["atom_indices"]), "load_frame")
                return r and r[1]
            if e == "load(list)":
                fulls = [md.load(q, **kw) for q in paths]
                parts = [_slice(f, 0, pr["stride"], pr["atom_indices"]) for f in fulls[:pr["files"]]]
                exp = parts[0] if len(parts) == 1 else parts[0].join(parts[1:])
                r = _cmp(md.load(paths[:pr["files"]], stride=pr["stride"], atom_indices=pr["atom_indices"], **kw), exp, "list")
                return r and r[1]
    except Watchdog.Timeout:
        return "hang"
    except Exception as ex:  # noqa
        return "raised %s: %s" % (type(ex).__name__, str(ex)[:160])
    return "unknown entry"
