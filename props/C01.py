"""C01 — save then load reproduces the trajectory, in every writable format.

Complete product (cfgx): extension x n_atoms x n_frames x cell x magnitude x sign x time x save options.
Oracles: (1) a format capability model (native unit, coordinate quantum, which of time / cell the format
stores, documented unsupported configurations where raising is the right outcome); (2) independent readers of
the written bytes (vlib/readers/indep.py); (3) never silently different.
"""
import itertools
import os
import shutil

import numpy as np

MANIFEST = {
    "category": "exploration",
    "engine": "cfgx",
    "technique": "exhaustive enumeration of the save/load configuration product against a format capability model and "
                 "independent byte/text readers",
    "text": "18 extensions x n_atoms {1,2,9,10,13} x n_frames {1,2,3} x cell {none, cubic, orthorhombic, triclinic, "
            "per-frame varying, a rectangular first frame followed by sheared frames, a cell with beta and gamma on opposite sides of 90 degrees, three single-skew monoclinic cells, two small rhombohedral cells at the two-atom restart reader's box/velocity threshold} x magnitude {1e-3, 1, 90, 950 nm; 20 000 nm along z for binary formats} x sign {mixed, positive} x time {default, uniform 2 ps, "
            "non-uniform} x options (gro precision 1/3/5; pdb ter x header x bfactors) — quick runs a complete sub-product "
            "(atoms {1,9,10}, frames {1,3}, cells {none, orthorhombic, triclinic-varying}, magnitudes {1, 90}); each cell "
            "is saved, reloaded with mdtraj and read with an independent reader; frames/atoms must match, coordinates "
            "within the format's quantum + float32 unit-conversion error, time and cell where the format stores them; "
            "an exception is accepted only where the capability model documents the configuration as unsupported.",
    "note": "dtr has no independent reader (round trip only); compressed XTC frames are checked independently through "
            "their header (precision and integer bounding box), coordinates by round trip; PDB holds one CRYST1 (only frame "
            "0's cell is compared). Tolerances are derived (quantum/2 + 4 eps32 |x|), the largest observed error relative "
            "to them is in the evidence.",
    "ref": "DESIGN.md §3 C01, §2.3",
}

EPS = float(np.finfo(np.float32).eps)

# ext: unit factor nm->native, coordinate quantum in native units (0 = binary float32), time stored?, cell model
CAP = {
    "h5":        dict(u=1.0,  q=0.0,   time="f32", cell="full", reader="h5"),
    "xtc":       dict(u=1.0,  q=1e-3,  time="f32", cell="vectors", reader="xtc"),
    "trr":       dict(u=1.0,  q=0.0,   time="f32", cell="vectors", reader="trr"),
    "dcd":       dict(u=10.0, q=0.0,   time=None,  cell="full", reader="dcd"),
    "nc":        dict(u=10.0, q=0.0,   time="f32", cell="full", reader="nc"),
    "netcdf":    dict(u=10.0, q=0.0,   time="f32", cell="full", reader="nc"),
    "ncdf":      dict(u=10.0, q=0.0,   time="f32", cell="full", reader="nc"),
    "mdcrd":     dict(u=10.0, q=1e-3,  time=None,  cell="rect-lengths", reader="mdcrd", lim=(-999.999, 9999.999)),
    "crd":       dict(u=10.0, q=1e-3,  time=None,  cell="rect-lengths", reader="mdcrd", lim=(-999.999, 9999.999)),
    "xyz":       dict(u=10.0, q=1e-3,  time=None,  cell=None, reader="xyz"),
    "xyz.gz":    dict(u=10.0, q=1e-3,  time=None,  cell=None, reader="xyz"),
    "lammpstrj": dict(u=10.0, q=1e-3,  time=None,  cell="full", reader="lammpstrj", needs_cell=True),
    "gro":       dict(u=1.0,  q=None,  time="text", cell="vectors5", reader="gro"),
    "pdb":       dict(u=10.0, q=1e-3,  time=None,  cell="single", reader="pdb", lim=(-999.999, 9999.999)),
    "pdb.gz":    dict(u=10.0, q=1e-3,  time=None,  cell="single", reader="pdb", lim=(-999.999, 9999.999)),
    "dtr":       dict(u=10.0, q=0.0,   time="f64", cell="full", reader=None, needs_cell=True),
    "rst7":      dict(u=10.0, q=1e-7,  time="e7",  cell="full7", reader="rst7", restart=True, lim=(-999.9999999, 9999.9999999)),
    "ncrst":     dict(u=10.0, q=0.0,   time="f64", cell="full", reader="nc", restart=True),
}
NEEDS_TOP = {"xtc", "trr", "dcd", "nc", "netcdf", "ncdf", "ncrst", "crd", "mdcrd", "lammpstrj", "xyz", "xyz.gz", "rst7", "dtr"}

CELLS = {
    "none": None,
    "cubic": ([4.0, 4.0, 4.0], [90.0, 90.0, 90.0]),
    "ortho": ([4.0, 5.0, 6.5], [90.0, 90.0, 90.0]),
    "triclinic": ([4.0, 5.0, 6.5], [75.0, 100.0, 115.0]),
    # beta and gamma on opposite sides of 90 degrees: the tilt factors xy and xz of a LAMMPS-style box have opposite signs
    "triclinic_opp": ([4.0, 5.0, 6.5], [85.0, 75.0, 110.0]),
    # exactly one skewed angle each: the box matrix then has exactly one non-zero off-diagonal element
    "mono_alpha": ([4.0, 5.0, 6.5], [75.0, 90.0, 90.0]),
    "mono_beta": ([4.0, 5.0, 6.5], [90.0, 105.0, 90.0]),
    "mono_gamma": ([4.0, 5.0, 6.5], [90.0, 90.0, 60.0]),
    # small rhombohedral cells: all six numbers of a box line are <= 60 (30 A, 60 deg) resp. < 60 -- the two-atom
    # AMBER restart file, whose third line is either velocities or the box, has to tell them apart
    "rhombo60": ([3.0, 3.0, 3.0], [60.0, 60.0, 60.0]),
    "acute": ([3.0, 3.0, 3.0], [50.0, 55.0, 58.0]),
    "shear": None,      # per-frame, built in build_traj
}


def build_traj(n_atoms, n_frames, cell, mag, sign, timek, seed):
    import mdtraj as md
    from vlib import grids
    top = md.Topology()
    ch = top.add_chain()
    for i in range(n_atoms):
        r = top.add_residue("ALA", ch)
        top.add_atom("CA", md.element.carbon, r)
    u = grids.jitter(n_frames * n_atoms, 3, 2.0, seed).reshape(n_frames, n_atoms, 3)   # in [-1, 1)
    if sign == "positive":
        u = np.abs(u)
    if sign == "z-long":
        # anisotropic extent: only z spans the full magnitude (integer-packing code treats the axes separately)
        u = u * np.array([1e-4, 1e-4, 1.0])
    xyz = (u * mag).astype(np.float32)
    kw = {}
    if cell == "varying":
        L = np.array([[4.0 + 0.25 * f, 5.0 + 0.5 * f, 6.5 - 0.25 * f] for f in range(n_frames)])
        A = np.array([[75.0 + 2 * f, 100.0 - f, 115.0 - 3 * f] for f in range(n_frames)])
        kw = dict(unitcell_lengths=L, unitcell_angles=A)
    elif cell == "shear":
        # a flexible-cell run that starts from a rectangular box: frame 0 is 90/90/90, the later frames are sheared
        L = np.array([[4.0, 5.0, 6.5]] * n_frames)
        A = np.array([[90.0, 90.0, 90.0]] + [[80.0 + f, 95.0, 70.0 + 2 * f] for f in range(1, n_frames)])
        kw = dict(unitcell_lengths=L, unitcell_angles=A)
    elif CELLS[cell] is not None:
        L, A = CELLS[cell]
        kw = dict(unitcell_lengths=np.array([L] * n_frames), unitcell_angles=np.array([A] * n_frames))
    if timek == "default":
        t = md.Trajectory(xyz, top, **kw)
    elif timek == "uniform":
        t = md.Trajectory(xyz, top, time=np.arange(n_frames) * 2.0, **kw)
    else:
        t = md.Trajectory(xyz, top, time=np.array([0.5, 3.25, 4.0, 10.125])[:n_frames], **kw)
    return t


def coord_tol(cap, x_nm, prec=None, n_atoms=10, ext=""):
    """Allowed |reload - original| in nm for each coordinate (array)."""
    q = cap["q"]
    if ext == "gro":
        q = 10.0 ** (-prec)
    if ext == "xtc" and n_atoms <= 9:
        q = 0.0                       # small systems are stored as raw floats
    conv = 0.0 if cap["u"] == 1.0 and q == 0.0 else 4 * EPS * np.abs(x_nm)
    # text/quantised formats: half a quantum (in nm) + float32 representation of the parsed number
    return (0.5 * q / cap["u"]) * (1 + 1e-6) + conv + (2 * EPS * np.abs(x_nm) if q else 0.0)


def expected_failure(ext, cap, cell, mag, n_atoms, t):
    """Configurations the format documents as unsupported: an exception is the right outcome."""
    if cap["cell"] == "rect-lengths" and t.unitcell_angles is not None and not np.all(t.unitcell_angles == 90):
        return "mdcrd stores only rectilinear boxes (documented ValueError)"
    if cap.get("needs_cell") and cell == "none":
        return "%s needs a unit cell (explicit ValueError)" % ext
    lim = cap.get("lim")
    if lim is not None:
        x = t.xyz * cap["u"]
        if x.min() <= lim[0] or x.max() >= lim[1]:
            return "value does not fit the fixed-width field"
    return None


def _load_back(path, ext, top, n_frames):
    import mdtraj as md
    if CAP[ext].get("restart"):
        fn = md.load_restrt if ext == "rst7" else md.load_ncrestrt
        if n_frames == 1:
            return fn(path, top=top)
        w = len(str(n_frames))
        parts = [fn("%s.%0*d" % (path, w, i + 1), top=top) for i in range(n_frames)]
        return parts[0].join(parts[1:])
    if ext in NEEDS_TOP:
        return md.load(path, top=top)
    return md.load(path)


def _cmp_cell(ext, cap, t, r, frames):
    """Compare unit cells of original t and reloaded r.  Returns list of (kind, text, err_over_tol)."""
    out = []
    model = cap["cell"]
    if model is None:
        return out
    if t.unitcell_lengths is None:
        if r.unitcell_lengths is not None and model not in ("vectors5",):
            # a cell appearing from nowhere is a silent difference (gro always writes a box line: zeros)
            if np.any(np.abs(r.unitcell_lengths) > 1e-6):
                out.append(("cell-appeared", "reloaded trajectory has a unit cell, the original had none", None))
        return out
    if r.unitcell_lengths is None:
        out.append(("cell-lost", "unit cell not reloaded although the format stores it", None))
        return out
    fr = [0] if model == "single" else list(range(frames))
    L0, A0 = t.unitcell_lengths[fr].astype(float), t.unitcell_angles[fr].astype(float)
    L1, A1 = r.unitcell_lengths[fr].astype(float), r.unitcell_angles[fr].astype(float)
    if model in ("full", "rect-lengths"):
        ltol = 8 * EPS * np.abs(L0) + (0.5e-4 if cap["q"] else 0) + (0.5e-4 if ext in ("mdcrd", "crd") else 0)
        atol = 1e-4 + 8 * EPS * 180
    elif model == "single":
        ltol = 0.5e-4 * (1 + 1e-6) + 8 * EPS * np.abs(L0)
        atol = 0.5e-2 * (1 + 1e-6) + 1e-5
    elif model == "full7":
        ltol = 1e-7 + 8 * EPS * np.abs(L0)
        atol = 1e-6 + 8 * EPS * 180
    else:  # vectors in float32 (or %10.5f text): lengths/angles recomputed from vectors
        q = 0.5e-5 if model == "vectors5" else 0.0
        ltol = 16 * EPS * np.abs(L0) + 2 * q
        sinmin = np.sin(np.radians(A0)).min()
        atol = np.degrees((16 * EPS + 4 * q / L0.min()) / sinmin) + 1e-5
    el = np.abs(L1 - L0) / ltol
    if el.max() > 1:
        out.append(("cell-lengths", "cell lengths %s reloaded as %s" % (L0[np.unravel_index(el.argmax(), el.shape)[0]].tolist(),
                                                                       L1[np.unravel_index(el.argmax(), el.shape)[0]].tolist()), el.max()))
    if model != "rect-lengths":
        ea = np.abs(A1 - A0) / atol
        if ea.max() > 1:
            i = np.unravel_index(ea.argmax(), ea.shape)[0]
            out.append(("cell-angles", "cell angles %s reloaded as %s" % (A0[i].tolist(), A1[i].tolist()), ea.max()))
        return out + [("ok", "", max(el.max(), ea.max()))]
    return out + [("ok", "", el.max())]


def _cmp_time(cap, t, r):
    if cap["time"] is None:
        return None, 0.0
    t0, t1 = np.asarray(t.time, float), np.asarray(r.time, float)
    rel = {"f32": 2 * EPS, "f64": 1e-12, "text": 1e-6, "e7": 1e-7}[cap["time"]]
    tol = rel * np.abs(t0) + 1e-9
    e = np.abs(t1 - t0) / tol
    if e.max() > 1:
        return "time stamps %s reloaded as %s" % (t0.tolist(), t1.tolist()), e.max()
    return None, e.max()


def _indep(ext, cap, path, t, n_frames, n_atoms, cell, prec, xtol_nm):
    """Independent reading of the written file; returns list of (kind, text)."""
    from vlib.readers import indep
    rd = cap["reader"]
    out = []
    if rd is None:
        return out, 0
    w = len(str(n_frames))
    paths = [path] if not (cap.get("restart") and n_frames > 1) else ["%s.%0*d" % (path, w, i + 1) for i in range(n_frames)]
    has_cell = t.unitcell_lengths is not None
    recs = []
    for p in paths:
        if rd == "h5":
            recs.append(indep.read_h5(p))
        elif rd == "nc":
            recs.append(indep.read_nc(p))
        elif rd == "trr":
            recs.append(indep.read_trr(p))
        elif rd == "dcd":
            recs.append(indep.read_dcd(p))
        elif rd == "mdcrd":
            recs.append(indep.read_mdcrd(p, n_atoms, has_cell))
        elif rd == "xyz":
            recs.append(indep.read_xyz(p))
        elif rd == "lammpstrj":
            recs.append(indep.read_lammpstrj(p))
        elif rd == "gro":
            recs.append(indep.read_gro(p))
        elif rd == "pdb":
            recs.append(indep.read_pdb(p))
        elif rd == "rst7":
            recs.append(indep.read_rst7(p))
        elif rd == "xtc":
            hs = indep.read_xtc_headers(p)
            if len(hs) != n_frames:
                out.append(("indep-n_frames", "independent XTC reader finds %d frames, %d written" % (len(hs), n_frames)))
                return out, 1
            for f, h in enumerate(hs):
                if h["natoms"] != n_atoms:
                    out.append(("indep-n_atoms", "XTC header natoms %d != %d" % (h["natoms"], n_atoms)))
                if abs(h["time"] - t.time[f]) > 2 * EPS * abs(t.time[f]) + 1e-9:
                    out.append(("indep-time", "XTC header time %r, trajectory time %r (ps)" % (h["time"], float(t.time[f]))))
                if has_cell:
                    if np.abs(h["box"] - t.unitcell_vectors[f]).max() > 16 * EPS * np.abs(t.unitcell_vectors[f]).max():
                        out.append(("indep-cell", "XTC header box (nm) differs from unitcell_vectors"))
                if "xyz" in h:
                    if np.abs(h["xyz"] - t.xyz[f].astype(float)).max() > 0:
                        out.append(("indep-xyz", "raw XTC floats (nm) differ from the coordinates"))
                else:
                    if abs(h["precision"] - 1000.0) > 1e-3:
                        out.append(("indep-precision", "XTC precision field %r, expected 1000 (1e-3 nm)" % h["precision"]))
                    x = t.xyz[f].astype(np.float64) * 1000.0
                    lo, hi = np.floor(x.min(0) + 0.5), np.floor(x.max(0) + 0.5)
                    if np.abs(h["minint"] - lo).max() > 1 or np.abs(h["maxint"] - hi).max() > 1:
                        out.append(("indep-bbox", "XTC integer bounding box %s..%s, expected %s..%s (nm*1000)"
                                    % (h["minint"].tolist(), h["maxint"].tolist(), lo.tolist(), hi.tolist())))
            return out, 1
    rec = recs[0]
    if len(recs) > 1:
        rec = dict(recs[0])
        rec["xyz"] = np.concatenate([r["xyz"] for r in recs])
        for k in ("time", "lengths", "angles"):
            rec[k] = None if recs[0].get(k) is None else np.concatenate([r[k] for r in recs])
    u = 10.0 if rec["unit"] == "A" else 1.0
    x = rec["xyz"]
    if x.shape != (n_frames, n_atoms, 3):
        out.append(("indep-shape", "independent reader finds shape %s, wrote %s" % (x.shape, (n_frames, n_atoms, 3))))
        return out, 1
    err = np.abs(x / u - t.xyz.astype(float))
    if (err > xtol_nm).any():
        i = np.unravel_index((err / np.maximum(xtol_nm, 1e-300)).argmax(), err.shape)
        out.append(("indep-xyz", "file holds %r %s for a coordinate of %r nm" % (float(x[i]), rec["unit"], float(t.xyz[i]))))
    if rec.get("units"):
        want = {"coordinates": "nanometers" if u == 1 else "angstrom", "cell_lengths": "nanometers" if u == 1 else "angstrom",
                "time": "picosecond", "cell_angles": "degree"}
        for k, v in rec["units"].items():
            if not v.lower().startswith(want[k][:8]):
                out.append(("indep-units", "%s units attribute %r" % (k, v)))
    if rec.get("time") is not None and cap["time"] is not None:
        tt = np.asarray(rec["time"], float)
        if tt.shape != (n_frames,) or (np.abs(tt - t.time) > 1e-6 * np.abs(t.time) + 1e-9).any():
            out.append(("indep-time", "file holds times %s, trajectory %s" % (tt.tolist(), t.time.tolist())))
    if has_cell and cap["cell"] is not None:
        fr = [0] if cap["cell"] == "single" else list(range(n_frames))
        if rec.get("lengths") is not None:
            L = np.asarray(rec["lengths"], float)[fr] / u
            ltol = 1e-4 if cap["q"] else 1e-5
            if np.abs(L - t.unitcell_lengths[fr]).max() > ltol * max(1.0, np.abs(L).max()):
                out.append(("indep-cell", "file holds cell lengths %s %s for %s nm" % ((L[0] * u).tolist(), rec["unit"], t.unitcell_lengths[0].tolist())))
        if rec.get("angles") is not None and cap["cell"] != "rect-lengths":
            A = np.asarray(rec["angles"], float)[fr]
            if np.abs(A - t.unitcell_angles[fr]).max() > (1e-2 if cap["cell"] == "single" else 2e-3):
                out.append(("indep-cell", "file holds cell angles %s for %s" % (A[0].tolist(), t.unitcell_angles[0].tolist())))
        if rec.get("vectors") is not None:
            V = np.asarray(rec["vectors"], float) / u
            if np.abs(V - t.unitcell_vectors).max() > 2e-5 * max(1.0, np.abs(V).max()):
                out.append(("indep-cell", "file holds box vectors that differ from unitcell_vectors"))
    return out, 1


def run_case(case, scratch, seed):
    """One round trip.  Returns (violations, stats)."""
    ext, n_atoms, n_frames, cell, mag, sign, timek, opt = case
    cap = CAP[ext]
    rep = dict(zip(("ext", "n_atoms", "n_frames", "cell", "mag", "sign", "time", "opt"), case))
    tag = "%s|cell=%s|time=%s|frames=%s|opt=%s%s" % (ext, cell, timek, "1" if n_frames == 1 else "many", opt,
                                                    "|natoms=%d" % n_atoms if n_atoms <= 2 else "")
    d = os.path.join(scratch, "c01_%d_%s" % (os.getpid(), abs(hash(case)) % 10 ** 9))
    shutil.rmtree(d, ignore_errors=True)
    os.makedirs(d)
    viol = []
    st = {"ok": False, "refused": None, "err": 0.0, "indep": 0}
    try:
        t = build_traj(n_atoms, n_frames, cell, mag, sign, timek, seed)
        orig = (t.xyz.copy(), t.time.copy())
        path = os.path.join(d, "t." + ext)
        kw = {}
        prec = 3
        if ext == "gro":
            prec = opt
            kw["precision"] = opt
        if ext in ("pdb", "pdb.gz") and opt is not None:
            ter, header, bf = opt
            kw.update(ter=ter, header=header)
            if bf:
                kw["bfactors"] = np.arange(n_atoms) * 0.5
        why = expected_failure(ext, cap, cell, mag, n_atoms, t)
        if why is not None and why.startswith("value does not fit"):
            # beyond the format's field limit: outside the property's quantifier ("magnitudes ... to the format's field
            # limit"); whether the writer raises, degrades precision or writes touching fields is not judged
            st["refused"] = "outside the field limit (not judged)"
            if ext in ("pdb", "pdb.gz"):
                # the PDB writer has an explicit fallback for numbers that overflow %8.3f (it keeps the leading 8
                # characters, i.e. drops decimals): precision beyond the limit is not judged, but the file must not hold a
                # grossly different number without any error -- an exception, or the value to within 0.1 %
                try:
                    t.save(path, **kw)
                    r = _load_back(path, ext, t.topology, n_frames)
                except Exception:  # noqa
                    return viol, st
                if r.xyz.shape == t.xyz.shape:
                    e = np.abs(r.xyz.astype(float) - t.xyz.astype(float))
                    bad = e > 1e-3 * np.abs(t.xyz) + 0.01
                    if bad.any():
                        i = np.unravel_index(np.argmax(e), e.shape)
                        viol.append((tag + "|beyond-field-limit|silently-other-number", "coordinate %r nm (does not fit %%8.3f) reloaded as %r nm "
                                     "without any error" % (float(t.xyz[i]), float(r.xyz[i])), rep))
                    st["refused"] = "outside the field limit (only gross silent corruption judged)"
            return viol, st
        try:
            t.save(path, **kw)
            r = _load_back(path, ext, t.topology, n_frames)
        except Exception as e:  # noqa
            if why is None:
                viol.append((tag + "|raised", "%s: %s" % (type(e).__name__, str(e)[:200]), rep))
            else:
                st["refused"] = why
            return viol, st
        if not (np.array_equal(orig[0], t.xyz) and np.array_equal(orig[1], t.time)):
            viol.append((tag + "|input-modified", "save() changed the trajectory it was given", rep))
        if why is not None:
            st["refused"] = "accepted-although:" + why   # recorded; the comparison below still applies
        if r.n_frames != n_frames or r.n_atoms != n_atoms:
            viol.append((tag + "|shape", "saved %d frames x %d atoms, reloaded %d x %d" % (n_frames, n_atoms, r.n_frames, r.n_atoms), rep))
            return viol, st
        xt = coord_tol(cap, t.xyz.astype(float), prec, n_atoms, ext)
        e = np.abs(r.xyz.astype(float) - t.xyz.astype(float))
        ratio = (e / np.maximum(xt, 1e-300)) if np.any(xt > 0) else e * 1e300
        worst = float(ratio.max()) if np.any(xt > 0) else (0.0 if e.max() == 0 else float("inf"))
        if np.any(e > xt):
            i = np.unravel_index(np.argmax(e - xt), e.shape)
            viol.append((tag + "|xyz", "coordinate %r nm reloaded as %r nm (allowed error %.3g)" % (float(t.xyz[i]), float(r.xyz[i]), float(np.broadcast_to(xt, e.shape)[i])), rep))
        st["err"] = worst if np.isfinite(worst) else 0.0
        msg, terr = _cmp_time(cap, t, r)
        if msg:
            viol.append((tag + "|time", msg, rep))
        for kind, text, eo in _cmp_cell(ext, cap, t, r, n_frames):
            if kind != "ok":
                viol.append((tag + "|" + kind, text, rep))
            elif eo is not None:
                st["err"] = max(st["err"], float(eo))
        try:
            iv, n = _indep(ext, cap, path, t, n_frames, n_atoms, cell, prec, np.maximum(xt, 1e-12))
            st["indep"] = n
            for kind, text in iv:
                viol.append((tag + "|" + kind, text, rep))
        except Exception as ex:  # noqa
            viol.append((tag + "|indep-unreadable", "independent reader failed: %s: %s" % (type(ex).__name__, str(ex)[:160]), rep))
        st["ok"] = not viol
    finally:
        shutil.rmtree(d, ignore_errors=True)
    return viol, st


def _chunk(args):
    cases, scratch, seed = args
    out = []
    for c in cases:
        try:
            v, st = run_case(c, scratch, seed)
        except Exception as e:  # noqa  (harness error: make it loud, not silent)
            v, st = [("harness|%s" % c[0], "harness error %s: %s" % (type(e).__name__, str(e)[:200]), {"case": c})], {"ok": False, "refused": None, "err": 0, "indep": 0}
        out.append((c, v, st))
    return out


def cases(quick):
    exts = list(CAP)
    atoms = [1, 9, 10] if quick else [1, 2, 9, 10, 13]
    frames = [1, 3] if quick else [1, 2, 3]
    cells = ["none", "ortho", "varying", "shear", "mono_alpha", "triclinic_opp"] if quick else \
        ["none", "cubic", "ortho", "triclinic", "triclinic_opp", "varying", "shear", "mono_alpha", "mono_beta", "mono_gamma", "rhombo60", "acute"]
    mags = [1.0, 90.0] if quick else [1e-3, 1.0, 90.0, 950.0]     # 950 nm = 9500 A: just under the %8.3f field limit
    signs = ["mixed"] if quick else ["mixed", "positive"]
    times = ["uniform", "nonuniform"] if quick else ["default", "uniform", "nonuniform"]      # uniform starts at exactly 0 ps
    out = []
    for ext in exts:
        if ext == "gro":
            opts = [1, 3, 5]
        elif ext in ("pdb", "pdb.gz"):
            opts = [(True, True, False), (False, False, True)] if quick else list(itertools.product((True, False), (True, False), (False, True)))
        else:
            opts = [None]
        for c in itertools.product([ext], atoms, frames, cells, mags, signs, times, opts):
            out.append(c)
        if quick:
            for c in itertools.product([ext], [2], [1, 3], ["rhombo60"], [1.0], signs, times, opts[:1]):
                out.append(c)
            if ext in ("pdb", "pdb.gz"):        # -150 nm = -1500 A does not fit %8.3f: the writer's overflow fallback
                for c in itertools.product([ext], [9], [1], ["ortho"], [150.0], signs, times[:1], opts[:1]):
                    out.append(c)
        # binary formats have no narrow text field: 20 000 nm along z only (XTC packs integers of x*1000 per axis)
        if CAP[ext]["q"] in (0.0,) or ext == "xtc":
            for c in itertools.product([ext], atoms, frames, ["none", "ortho"], [20000.0], ["z-long"], times[:1], opts):
                out.append(c)
    return out


def run(ctx):
    cs = cases(ctx.quick)
    n = 24
    jobs = [(cs[i::n * 4], ctx.scratch, ctx.seed) for i in range(n * 4)]
    outs = ctx.pmap(_chunk, jobs)
    ok = set()
    refused = {}
    worst = 0.0
    indep = 0
    total = 0
    for chunk in outs:
        for c, v, st in chunk:
            total += 1
            ctx.report(v)
            if st["ok"]:
                ok.add(c)
            if st["refused"]:
                refused[st["refused"]] = refused.get(st["refused"], 0) + 1
            worst = max(worst, st["err"])
            indep += st["indep"]
    return "exploration", {
        "evaluations": total, "distinct_nontrivial": len(ok),
        "rule": "complete product of the axes; a case counts when save, reload and the independent read all succeeded and "
                "agreed within the derived tolerances",
        "samples": [dict(zip(("ext", "n_atoms", "n_frames", "cell", "mag", "sign", "time", "opt"), c)) for c in cs[7::max(1, len(cs) // 5)]][:5],
        "exhaustive": True, "independent_reads": indep, "max_err_over_tol": round(worst, 4),
        "refused_as_documented": refused,
        "axes": {"ext": list(CAP), "quick": ctx.quick},
    }


def replay(ctx, rep):
    c = rep.get("case") or (rep["ext"], rep["n_atoms"], rep["n_frames"], rep["cell"], rep["mag"], rep["sign"], rep["time"],
                            tuple(rep["opt"]) if isinstance(rep["opt"], list) else rep["opt"])
    c = tuple(c)
    a = run_case(c, ctx.scratch, ctx.seed)[0]
    b = run_case(c, ctx.scratch, ctx.seed)[0]
    print("replay 1:", [(v[0], v[1]) for v in a])
    print("replay 2:", [v[0] for v in b])
    assert [v[0] for v in a] == [v[0] for v in b], "replay not deterministic"
    return not a
