"""C12 — every selection expression selects exactly the atoms its meaning denotes.

Exhaustive program enumeration (progx): every expression of the documented selection grammar up to
a nesting depth, in every keyword-alias / operator / literal spelling, executed through
Topology.select and Topology.select_expression on a hand-built topology and compared with a
hand-written reference interpreter (vlib/refmodels/selection_ref.py).  See selection_gen.py for the
exact space.
"""
import re
import threading

MANIFEST = {
    "category": "exploration",
    "engine": "progx",
    "technique": "exhaustive enumeration of the programs of the selection grammar to a nesting depth, each run "
                 "against an independent recursive-descent reference interpreter",
    "text": "Depth 1: every condition of the value tables in every spelling (32 keyword aliases x {== eq != ne < lt <= le > gt "
            ">= ge, implicit equality, =~} x bare/'single'/\"double\"/int/float literals, reversed comparisons, ranges, implicit "
            "lists; 825 strings) plus operator-like literals: every string-keyword alias (11) x 12 words spelled like operator "
            "words in upper/mixed case (NE Ne OR AND NOT TO EQ LT LE GT GE Or; NE/Ne are real atom, residue and element names "
            "of the fixture) alone, with == != eq ne, reversed, bare and quoted, and as first / middle / last element of "
            "implicit lists (2244 strings); the same forms for 11 lower-case bare words that merely START with an operator "
            "spelling (leu gtp ne2 eq1 let gea orn and1 nota tox lta - residue and atom names of the fixture) on name / resname "
            "/ segment_id aliases, bare and quoted in one variant group (935 strings); implicit lists of 4..6 integers WITH "
            "REPEATS - every multiset of that size over four values for resid, resSeq, index and the float-valued mass, incl. "
            "279 lists whose count equals max-min+1 (`resid 2 2 2 6 6`) - plus genuinely consecutive lists (891 strings); and quoted literals that contain the other quote character (primed atom names "
            "\"O5'\", \"H5''\", 'H5\"', with unprimed decoys O5 C3 H5 in the fixture) alone, with == != eq ne in both orders, in "
            "implicit lists, as =~ patterns (252 strings); and 21 regular expressions that match only a proper prefix of some "
            "fixture value (name =~ 'C', 'C[1-4]' with C1..C4 and C10..C12 present, resname =~ 'H' with HOH/HIS, 'A.', ...) in "
            "every alias and quoting (96 strings) and under not/and/or in every connective spelling (300 trees, 600 strings), "
            "judged only by select(e) == eval(select_expression(e)) with the real re module and by the emitted source being "
            "the same text on a second call, not by the reference. Depth 2: every tree leaf | not leaf | leaf conn leaf over 21 representative leaves "
            "x {and,&&,or,||} x {not,!}, rendered flat / minimally / fully parenthesised / every leaf parenthesised (1827 trees, "
            "~3.6k strings); the operator-like literals (1296 trees), operator-prefixed words (648 trees), integer lists with repeats (130 trees) "
            "and the quote-containing literals (520 trees) under every connective. Depth 3, quick: the three-leaf "
            "slice over 3 leaves in all 16 connective spellings (864 trees); thorough: every tree of depth <= 3 over 4 leaves "
            "plus the slice over 5 leaves (25k trees, ~58k strings). Plus parenthesis nesting 1..5, 25 whitespace variants, ~100 "
            "malformed strings. History layer: every edit sequence of length 1..2 (156, all ordered pairs) over 12 edits "
            "{insert_atom at the front / inside a bonded water, delete_atom_by_index of a bonded water / side-chain atom, "
            "add_bond, rename atom, rename residue (2), add_residue+add_atom+add_bond at the end, and three edits after which "
            "the traversal order is not the index order: add_atom to the first / a middle residue, insert_atom(index=2) into "
            "a water} applied to ONE Topology object x 28 expressions touching every keyword, evaluated before the edits "
            "(fills caches), after every edit, and at the end also through eval(select_expression) and on a from-scratch, "
            "index-preserving copy of the edited topology (~12.6k cases). Topology: 79 atoms, protein chains/segments, nucleotide- and lipid-like residues, "
            "water, ions, repeated names and residue numbers. Oracles: select(e) == reference and strictly increasing; all "
            "spelling/parenthesisation variants of one abstract expression agree; eval(select_expression(e)) == select(e); "
            "malformed strings raise; edited object == reference on the re-walked atom table (index = atom.index) == "
            "eval(select_expression) == from-scratch copy. Right "
            "level: the property quantifies over programs of a compositional language (and over the topologies they run on); "
            "mis-parses and stale derived attributes appear only in particular combinations, which enumeration reaches.",
    "note": "Trusted base: the hand-written atom table and reference parser (self-checked: direct tree evaluation == "
            "reference parse of every meaning-preserving rendering). Only type-consistent conditions are generated (string "
            "keywords with ==/!=/=~, numeric keywords with numbers; thresholds >= 0.4 Da away from every atomic mass; regex "
            "patterns on which match/fullmatch agree; patterns that match a proper prefix only are never compared with the "
            "reference, because the documentation does not say whether =~ anchors at the end). `not` is applied only to leaves and parenthesised expressions. Depth "
            ">= 2 uses representative leaves, not every alias. Strings on which the documentation is silent (bool keyword "
            "compared with a literal, missing whitespace, `not(x)`, negative numbers, True/None) are executed and recorded, "
            "not judged. segment_id/segname are not in the documentation table but are included with the obvious meaning. "
            "History layer: the atom table of an edited topology is rebuilt by walking its chains/residues/atoms/bonds "
            "(trusted attribute reads) with name-based truth tables that reproduce the hand-written table exactly on the "
            "unedited fixture (asserted); delete_atom_by_index leaves the deleted atom's bonds in top.bonds and the "
            "documentation does not say whether they count for n_bonds, so atoms whose truth value depends on that are "
            "excluded per expression and counted; for topologies whose traversal order is not the index order the result is "
            "compared as a set (and as a list with eval(select_expression)) and its order only recorded, since the property's "
            "topologies do not include them; within one history every expression is parsed once and the parse reused by all "
            "stages (the layer targets state of the Topology, the parser is stateless). "
            "Each evaluation runs in a fresh thread so that the Python recursion depth available to the parser is the same "
            "as in a top-level script. For depth >= 2 programs select() and select_expression() share one parse result "
            "(the parse costs ~0.1 s CPU); depth-1 and all other strings are parsed by each method separately.",
    "ref": "DESIGN.md §3 C12, §2.6",
}

_TOP = None
_ATOMS = None
N_SAMPLES = 6


# ------------------------------------------------------------------------------------------------
# execution of one string against the code under test
# ------------------------------------------------------------------------------------------------
def _exc(e):
    msg = (str(e).splitlines() or [""])[0][:100]
    return ("exc", type(e).__name__, msg)


def _run_select(s, top=None):
    import numpy as np
    try:
        r = (top or _TOP).select(s)
    except Exception as e:                       # noqa: BLE001 - every error type is an observation
        return _exc(e)
    arr = np.asarray(r)
    if arr.ndim != 1:
        return ("bad", "ndim=%d" % arr.ndim, repr(r)[:80])
    vals = arr.tolist()
    if any(int(v) != v for v in vals):
        return ("bad", "non-integral", repr(r)[:80])
    return ("ok", tuple(int(v) for v in vals), arr.dtype.kind)


def _run_source(s):
    try:
        src = _TOP.select_expression(s)
        got = eval(src, {"topology": _TOP, "re": re})   # the documented way to use the generated source
    except Exception as e:                       # noqa: BLE001
        return _exc(e)
    return ("ok", tuple(int(v) for v in got), src)


class _SharedParse:
    """For the long depth >= 2 programs the (pure, ~0.1 s) parse is shared between select() and
    select_expression(): both methods still run their own code, but on one parse result.
    Depth-1, nesting, whitespace and malformed strings are parsed separately by each method."""

    def __init__(self):
        import mdtraj.core.topology as T
        self.T = T
        self.orig = T.parse_selection
        self.last = None
        self.on = False
        self.memo = None
        T.parse_selection = self

    def __call__(self, s):
        if self.memo is not None:                 # history layer: one parse per expression and history
            if s not in self.memo:
                self.memo[s] = self.orig(s)
            return self.memo[s]
        if not self.on:
            return self.orig(s)
        if self.last is None or self.last[0] != s:
            try:
                self.last = (s, "r", self.orig(s))
            except Exception as e:               # noqa: BLE001
                self.last = (s, "e", e)
        if self.last[1] == "e":
            raise self.last[2]
        return self.last[2]


_SHARE = None


def _in_thread(fn, arg):
    """Run fn(arg) in a fresh thread: constant, shallow base recursion depth (like a user script)."""
    box = []

    def go():
        try:
            box.append(("r", fn(arg)))
        except BaseException as e:               # noqa: BLE001
            box.append(("e", e))
    t = threading.Thread(target=go)
    t.start()
    t.join()
    if box[0][0] == "e":
        raise box[0][1]
    return box[0][1]


def _kind(outcome):
    if outcome[0] == "exc":
        return "raised:" + outcome[1]
    if outcome[0] == "bad":
        return "malformed-result"
    return "wrong-set"


def _eval_programs(batch):
    """batch: list of (string, mode) with mode in program | recorded | whitespace | malformed.
    -> list of per-string dicts (picklable)."""
    from vlib.refmodels import selection_ref as R
    out = []
    n_atoms = len(_ATOMS)
    for s, mode in batch:
        rec = {"s": s, "viol": []}
        _SHARE.on = mode == "program-shared"
        _SHARE.last = None
        if _SHARE.on:
            mode = "program"
        sel = _run_select(s)
        rec["sel"] = sel if sel[0] != "ok" else ("ok", sel[1])
        try:
            tree = R.parse(s)
        except R.RefSyntaxError as e:
            tree = None
            rec["ref_err"] = str(e)
        if tree is not None:
            exp = tuple(R.select(tree, _ATOMS))
            rec["ref"] = exp
            hz = R.first_hazard(R.hazards(tree, s, _ATOMS))
            rec["hz"] = hz
            rec["nontrivial"] = 0 < len(exp) < n_atoms
        if mode == "malformed":
            if tree is not None:
                raise AssertionError("reference accepts the 'malformed' string %r" % s)
            out.append(rec)
            continue
        if mode == "source-only":
            # prefix-matching regular expressions: the reference is deliberately NOT consulted (rec["ref"] removed);
            # judged: select(e) == eval(select_expression(e)) with the real re module, and the emitted source is the
            # same text on a second, independent call
            if tree is None:
                raise AssertionError("reference cannot read generated program %r: %s" % (s, rec["ref_err"]))
            rec.pop("ref", None)
            rec["nontrivial"] = sel[0] == "ok" and 0 < len(sel[1]) < n_atoms
            a = _run_source(s)
            b = _run_source(s)
            rp = {"kind": "source", "expr": s}
            if a[0] == "ok" and b[0] == "ok" and a[2] != b[2]:
                rec["viol"].append(("source-determinism|prefix-regex", "select_expression(%r) returned %r, then %r" % (s, a[2], b[2]), rp))
            if sel[0] == "ok" and a[0] == "ok":
                if sel[1] != a[1]:
                    rec["viol"].append(("source-eval|prefix-regex|differs",
                                        "select(%r) = %s but eval(%r) with the re module = %s" % (s, list(sel[1]), a[2], list(a[1])), rp))
            elif sel[0] != a[0] or sel[1] != a[1]:
                rec["viol"].append(("source-eval|prefix-regex|%s" % ("raised:" + a[1] if a[0] != "ok" else "select-raised:" + sel[1]),
                                    "select(%r) -> %s but eval(select_expression) -> %s" % (s, sel[:2], a[:2]), rp))
            out.append(rec)
            continue
        if mode == "recorded" or tree is None:
            if mode == "program":
                raise AssertionError("reference cannot read generated program %r: %s" % (s, rec["ref_err"]))
            out.append(rec)
            continue
        if sel[0] == "ok" and sel[2] not in "iu" and len(sel[1]):
            rec["viol"].append(("select|%s|non-integer-dtype" % hz, "%r returned dtype kind %s" % (s, sel[2]),
                                {"kind": "select", "expr": s}))
        if sel[0] == "ok" and not sel[1] and sel[2] not in "iu":
            rec["empty_non_int_dtype"] = True
        if sel[0] != "ok" and mode == "whitespace":
            out.append(rec)                       # raising on a whitespace variant is recorded, not judged
            continue
        if sel[0] != "ok" or sel[1] != exp:
            src = _run_source(s)
            rec["viol"].append((
                "select|%s|%s" % (hz, _kind(sel)),
                "select(%r): expected %s, got %s; generated source: %s" % (
                    s, list(exp), list(sel[1]) if sel[0] == "ok" else "%s: %s" % (sel[1], sel[2]),
                    src[2] if src[0] == "ok" else "%s: %s" % (src[1], src[2])),
                {"kind": "select", "expr": s}))
        if sel[0] == "ok":
            got = sel[1]
            if any(b <= a for a, b in zip(got, got[1:])):
                rec["viol"].append(("sorted|%s" % hz, "select(%r) is not strictly increasing: %s" % (s, list(got)),
                                    {"kind": "select", "expr": s}))
            src = _run_source(s)
            if src[0] != "ok":
                rec["viol"].append(("source-eval|%s|raised:%s" % (hz, src[1]),
                                    "eval(select_expression(%r)) raised %s: %s while select returned %s" % (
                                        s, src[1], src[2], list(got)), {"kind": "source", "expr": s}))
            elif src[1] != got:
                rec["viol"].append(("source-eval|%s|differs" % hz,
                                    "eval(%r) = %s but select(%r) = %s" % (src[2], list(src[1]), s, list(got)),
                                    {"kind": "source", "expr": s}))
        out.append(rec)
    return out


def _worker(batch):
    return _in_thread(_eval_programs, batch)


# ------------------------------------------------------------------------------------------------
# history layer: one Topology object, selections before / between / after edits
# ------------------------------------------------------------------------------------------------
def _hist_worker(hist):
    from vlib.refmodels import selection_ref as R, selection_hist as H
    top = R.build_topology()
    out = {"hist": hist, "viol": [], "selects": 0, "cases": 0, "nontrivial": 0, "excluded_atoms": 0,
           "applicable": True, "copies": 0, "source_evals": 0, "unordered_results": 0, "order_broken": False}
    trees = {e: R.parse(e) for e in H.EXPRS}
    _SHARE.memo = {}       # the layer is about state of the Topology, not of the (stateless) parser:
    #                        every expression is parsed once per history and the parse reused by all stages

    def evaluate(stage, last, final, broken):
        live, alt, stale, _lb = R.table_from_topology(top)
        rep = {"kind": "history", "edits": list(hist), "stage": stage}
        if stale and not broken:
            out["viol"].append(("history|%s|atom.index-stale" % last,
                                "after %s: atoms (position, .index, name) %s" % (list(hist[:stage]), stale[:5]),
                                dict(rep, expr=H.EXPRS[0])))
        idx = sorted(a["index"] for a in live)
        if idx != list(range(len(live))):
            out["viol"].append(("history|%s|atom.index-not-a-permutation" % last,
                                "after %s the .index values are %s" % (list(hist[:stage]), idx[:60]), dict(rep, expr=H.EXPRS[0])))
        copy = R.build_copy(top) if final else None
        if copy is not None:
            out["copies"] += 1
        for e in H.EXPRS:
            a = set(R.select(trees[e], live))
            dc = a ^ set(R.select(trees[e], alt))         # atoms whose truth depends on dangling bonds
            out["excluded_atoms"] += len(dc)
            out["cases"] += 1
            out["nontrivial"] += 0 < len(a) < len(live)
            got = _run_select(e, top)
            out["selects"] += 1
            sig = "history|%s|%s|" % (last, H.tag(e))
            where = "history %s, stage %d, select(%r)" % (list(hist), stage, e)
            if got[0] != "ok":
                out["viol"].append((sig + "vs-reference:" + _kind(got), "%s: expected %s, got %s" % (where, sorted(a), got[1:]),
                                    dict(rep, expr=e)))
                continue
            g = got[1]
            if any(y <= x for x, y in zip(g, g[1:])):
                if broken:
                    out["unordered_results"] += 1          # recorded, not judged
                else:
                    out["viol"].append((sig + "not-increasing", "%s returned %s" % (where, list(g)), dict(rep, expr=e)))
            if set(g) - dc != a - dc or len(set(g)) != len(g):
                out["viol"].append((sig + "vs-reference:wrong-set", "%s: expected %s, got %s" % (where, sorted(a), list(g)),
                                    dict(rep, expr=e)))
            if final:
                try:
                    src = top.select_expression(e)
                    lst = tuple(int(v) for v in eval(src, {"topology": top, "re": re}))
                except Exception as ex:                    # noqa: BLE001
                    src, lst = "?", ("exc", type(ex).__name__)
                out["source_evals"] += 1
                if lst != g:
                    out["viol"].append((sig + "vs-source-eval:differs",
                                        "%s = %s but eval(select_expression) = %s (%s)" % (where, list(g), list(lst), src),
                                        dict(rep, expr=e)))
                c = _run_select(e, copy)
                out["selects"] += 1
                if c[0] != "ok" or set(c[1]) - dc != set(g) - dc:
                    out["viol"].append((sig + "vs-copy:differs",
                                        "%s = %s on the edited object, but %s on a from-scratch copy of the edited topology" % (
                                            where, list(g), list(c[1]) if c[0] == "ok" else c[1:]), dict(rep, expr=e)))

    try:
        evaluate(0, "before", False, False)
        broken = False
        for i, e in enumerate(hist):
            if not H.apply_edit(top, e):
                out["applicable"] = False
                return out
            broken = broken or e[0] in H.ORDER_BREAKING
            evaluate(i + 1, e[0], i + 1 == len(hist), broken)
        out["order_broken"] = broken
        return out
    finally:
        _SHARE.memo = None


def _history_layer(ctx, R):
    from vlib.refmodels import selection_hist as H
    # the name-based walk must reproduce the hand-assigned truth table on the unedited fixture
    live, alt, stale, _lb = R.table_from_topology(_TOP)
    assert live == _ATOMS and alt == _ATOMS and not stale, "walk of the fixture differs from the hand-written table"
    hs = H.histories()
    k = ctx.seed % len(hs)
    res = ctx.pmap(_hist_worker, hs[k:] + hs[:k])
    cov = {"histories": len(hs), "histories_applicable": 0, "history_selects": 0, "history_cases": 0,
           "history_cases_nontrivial": 0, "history_from_scratch_copies": 0,
           "history_atoms_excluded_(truth_depends_on_bond_to_deleted_atom)": 0,
           "history_source_evals": 0, "histories_with_traversal_order_not_index_order": 0,
           "history_results_not_increasing_on_such_topologies_(recorded)": 0,
           "history_edits": [list(e) for e in H.EDITS], "history_expressions": list(H.EXPRS)}
    for r in res:
        cov["histories_applicable"] += r["applicable"]
        cov["history_selects"] += r["selects"]
        cov["history_cases"] += r["cases"]
        cov["history_cases_nontrivial"] += r["nontrivial"]
        cov["history_from_scratch_copies"] += r["copies"]
        cov["history_source_evals"] += r["source_evals"]
        cov["histories_with_traversal_order_not_index_order"] += r["order_broken"]
        cov["history_results_not_increasing_on_such_topologies_(recorded)"] += r["unordered_results"]
        cov["history_atoms_excluded_(truth_depends_on_bond_to_deleted_atom)"] += r["excluded_atoms"]
        ctx.report(r["viol"])
    return cov


# ------------------------------------------------------------------------------------------------
# fixture
# ------------------------------------------------------------------------------------------------
def _setup():
    global _TOP, _ATOMS, _SHARE
    from vlib.refmodels import selection_ref as R
    if _SHARE is None:
        _SHARE = _SharedParse()
    _SHARE.on = False
    _TOP = R.build_topology()
    _ATOMS, _bonds = R.atom_table()
    assert _TOP.n_atoms == len(_ATOMS)
    return R


def _fixture_checks(ctx, R, G):
    """Premises of the oracle, measured: element masses, threshold margins, regex anchoring."""
    info = {}
    worst = 0.0
    for a, ma in zip(_ATOMS, _TOP.atoms):
        d = abs(ma.element.mass - a["mass"])
        worst = max(worst, d)
        if d > 0.01:
            ctx.violation("fixture|element-mass", "element %s: mdtraj mass %r, standard atomic weight %r" % (
                a["type"], ma.element.mass, a["mass"]), {"kind": "fixture"})
    info["max_mass_table_difference_Da"] = worst
    thr = [float(v) for v in G.NUM_VALUES["mass"][0]] + [float(x) for r in G.NUM_VALUES["mass"][3] for x in r] + \
          [float(v) for v in G.NUM_VALUES["mass"][4]] + [13.0, 5.5, 21.0]
    masses = set(R.MASS.values()) | set(ma.element.mass for ma in _TOP.atoms)
    info["min_mass_threshold_margin_Da"] = min(abs(t - m) for t in thr for m in masses)
    assert info["min_mass_threshold_margin_Da"] >= 0.4
    amb = []
    for c, (_v, _l, regexes) in G.STR_VALUES.items():
        vals = set(a[c] for a in _ATOMS if a[c] is not None)
        for rx in regexes:
            if any((re.match(rx, v) is None) != (re.fullmatch(rx, v) is None) for v in vals) or \
               any((re.match(rx, v) is None) != (re.search(rx, v) is None) for v in vals):
                amb.append((c, rx))
    vals = set(a["name"] for a in _ATOMS)
    for rx in G.PRIMED_REGEX:
        if any((re.match(rx, v) is None) != (re.fullmatch(rx, v) is None) for v in vals) or \
           any((re.match(rx, v) is None) != (re.search(rx, v) is None) for v in vals):
            amb.append(("name", rx))
    info["regex_patterns_with_anchoring_dependent_meaning"] = amb
    assert not amb, amb
    return info


# ------------------------------------------------------------------------------------------------
# the space
# ------------------------------------------------------------------------------------------------
def _space(ctx, R, G):
    """-> (items, groups, self-check counters).  items: list of (string, mode); groups: key -> [strings]"""
    items, groups, seen = [], {}, set()
    stats = {}

    def add(s, mode, key=None):
        if s in seen:
            return
        seen.add(s)
        items.append((s, mode))
        if key is not None:
            groups.setdefault(key, []).append(s)

    d1 = G.depth1()
    for s, key, klass in d1:
        # the operator-like / quote-inside literal families share the parse between select and select_expression
        add(s, "program-shared" if klass.startswith(("oplike", "opprefix", "intlist", "primed")) else "program", ("d1", key))
    stats["depth1_strings"] = len(items)
    stats["depth1_abstract_conditions"] = len({k for _s, k, _c in d1})
    klasses = {}
    for _s, _k, c in d1:
        klasses[c] = klasses.get(c, 0) + 1
    stats["depth1_by_class"] = klasses

    # self-check helper: direct evaluation of a tree == reference parse of its renderings
    def selfcheck(trees, progs, tag):
        leaf_trees = {}
        by_key = {}
        for t in trees:
            by_key.setdefault(G.key(t), t)

        def collect(t):
            if t[0] == "leaf":
                leaf_trees.setdefault(t[2], R.parse(t[2]))
            elif t[0] == "not":
                collect(t[2])
            else:
                collect(t[3])
                collect(t[4])
        for t in by_key.values():
            collect(t)
        direct = {}
        n = 0
        for s, k, pres in progs:
            if not pres:
                continue
            if k not in direct:
                t = by_key[k]
                direct[k] = [a["index"] for a in _ATOMS if G.tree_truth(t, a, leaf_trees)]
            if R.select(R.parse(s), _ATOMS) != direct[k]:
                raise AssertionError("reference parser disagrees with direct tree evaluation on %r" % s)
            n += 1
        stats["selfcheck_" + tag] = n

    lv2 = G.leaves(G.reps("2", ctx.seed))
    t2 = G.trees2(lv2)
    p2 = G.programs(t2, ("min", "flat", "full", "leafparen"))
    selfcheck(t2, p2, "depth2")
    n0 = len(items)
    for s, k, _pres in p2:
        add(s, "program-shared", ("d2", k) if k is not None else None)
    stats["depth2_trees"] = len(t2)
    stats["depth2_strings"] = len(items) - n0

    to = G.oplike_trees(ctx.seed)
    po = G.programs(to, ("min",))
    selfcheck(to, po, "oplike")
    n0 = len(items)
    for s, k, _pres in po:
        add(s, "program-shared", ("ol", k) if k is not None else None)
    stats["operator_like_literal_trees"] = len(to)
    stats["operator_like_literal_depth2_strings"] = len(items) - n0
    stats["operator_like_words"] = list(G.OPLIKE_WORDS)

    for tag, trees_, modes in (("operator_prefixed_literal", G.opprefix_trees(ctx.seed), ("min",)),
                               ("integer_list", G.intlist_trees(ctx.seed), ("min", "leafparen"))):
        pg = G.programs(trees_, modes)
        selfcheck(trees_, pg, tag)
        n0 = len(items)
        for s, k, _pres in pg:
            add(s, "program-shared", (tag, k) if k is not None else None)
        stats[tag + "_trees"] = len(trees_)
        stats[tag + "_depth2_strings"] = len(items) - n0
    stats["operator_prefixed_words"] = list(G.OPPREFIX_WORDS)
    stats["integer_list_value_sets"] = {k: list(v) for k, v in G.INTLIST_VALUES.items()}

    tp = G.primed_trees(ctx.seed)
    pp = G.programs(tp, ("min", "leafparen"))
    selfcheck(tp, pp, "primed")
    n0 = len(items)
    for s, k, _pres in pp:
        add(s, "program-shared", ("pr", k) if k is not None else None)
    stats["quote_inside_literal_trees"] = len(tp)
    stats["quote_inside_literal_depth2_strings"] = len(items) - n0
    stats["quote_inside_literals"] = list(G.PRIMED)

    if ctx.quick:
        lv3 = G.leaves(G.reps("3q", ctx.seed))
        t3 = G.triples(lv3)
    else:
        t3 = G.trees3(G.leaves(G.reps("3", ctx.seed)))
        have = {G.key(t) for t in t3}
        t3 += [t for t in G.triples(G.leaves(G.reps("3t", ctx.seed))) if G.key(t) not in have]
    p3 = G.programs(t3, ("min", "flat", "full"))
    selfcheck(t3, p3, "depth3")
    n0 = len(items)
    for s, k, _pres in p3:
        add(s, "program-shared", ("d3", k) if k is not None else None)
    stats["depth3_trees"] = len(t3)
    stats["depth3_strings"] = len(items) - n0
    stats["depth3_flat_renderings_reassociated"] = sum(1 for _s, _k, pres in p3 if not pres)

    n0 = len(items)
    for s in G.prefix_regex_depth1():
        add(s, "source-only")
    stats["prefix_regex_depth1_strings"] = len(items) - n0
    tpx = G.prefix_regex_trees(ctx.seed)
    n1 = len(items)
    for s, _k, _pres in G.programs(tpx, ("min", "leafparen")):
        add(s, "source-only")
    stats["prefix_regex_trees"] = len(tpx)
    stats["prefix_regex_depth2_strings"] = len(items) - n1
    amb = 0
    for c, pats in G.PREFIX_REGEX.items():
        vals = set(a[c] for a in _ATOMS if a[c] is not None)
        for rx in pats:
            if not any(re.match(rx, v) is not None and re.fullmatch(rx, v) is None for v in vals):
                raise AssertionError("prefix pattern %r matches no proper prefix of a %s value" % (rx, c))
            amb += 1
    stats["prefix_regex_patterns"] = amb

    n0 = len(items)
    for base in G.NESTING:
        for n in range(1, 6):
            add("(" * n + base + ")" * n, "program", ("nest", base))
    add("protein and (water or (backbone and (sidechain or (name CA))))", "program")
    add("((((protein) or water) and backbone) or sidechain) and name CA", "program")
    stats["nesting_strings"] = len(items) - n0
    for s in G.WHITESPACE:
        add(s, "whitespace")
    for s in G.RECORDED:
        add(s, "recorded")
    for s, _c in G.MALFORMED:
        if s in seen:
            raise AssertionError("malformed string %r is also generated as a program" % s)
        add(s, "malformed")
    return items, groups, stats


def run(ctx):
    R = _setup()
    from vlib.refmodels import selection_gen as G
    fixture = _fixture_checks(ctx, R, G)
    items, groups, stats = _space(ctx, R, G)

    # strided batches mix cheap and expensive programs; the seed only rotates the hand-out order (jitter)
    nb = max(1, min(len(items) // 25, 512))
    batches = [items[j::nb] for j in range(nb)]
    k = ctx.seed % nb
    batches = batches[k:] + batches[:k]
    results = {}
    for recs in ctx.pmap(_worker, batches):
        for rec in recs:
            results[rec["s"]] = rec

    n_eval = 0
    nontrivial = set()
    distinct_sets = set()
    by_mode = {}
    exc_types = {}
    empty_float = 0
    samples = []
    mal_class = dict(G.MALFORMED)
    recorded = {}
    ws_raised = {}
    hz_count = {}
    for s, mode in items:
        rec = results[s]
        n_eval += 1
        mode = "program" if mode == "program-shared" else mode
        by_mode[mode] = by_mode.get(mode, 0) + 1
        sel = rec["sel"]
        if mode == "malformed":
            if sel[0] == "exc":
                exc_types[sel[1]] = exc_types.get(sel[1], 0) + 1
            else:
                c = mal_class[s]
                ctx.violation("malformed|accepted|%s" % c,
                              "select(%r) returned %s instead of raising" % (s, list(sel[1]) if sel[0] == "ok" else sel),
                              {"kind": "malformed", "expr": s})
            continue
        if mode == "source-only":
            ctx.report(rec["viol"])
            if rec["nontrivial"]:
                nontrivial.add(s)
            if sel[0] != "ok":
                recorded[s] = "%s" % (sel[1],)
            continue
        if mode == "recorded" or "ref" not in rec:
            recorded[s] = ("selects %d atoms" % len(sel[1])) if sel[0] == "ok" else "%s" % (sel[1],)
            continue
        if mode == "whitespace" and sel[0] != "ok":
            ws_raised[s] = sel[1]
        if rec.get("empty_non_int_dtype"):
            empty_float += 1
        hz_count[rec["hz"]] = hz_count.get(rec["hz"], 0) + 1
        if rec["nontrivial"]:
            nontrivial.add(s)
        distinct_sets.add(rec["ref"])
        ctx.report(rec["viol"])
        if rec["nontrivial"] and len(samples) < N_SAMPLES and (n_eval % 997 == 1 or len(s) > 60):
            samples.append({"expr": s, "selected": list(rec["ref"])})

    # spelling / parenthesisation variants of one abstract expression select the same atoms
    n_groups = n_var_members = 0
    for key, members in groups.items():
        if len(members) < 2:
            continue
        n_groups += 1
        n_var_members += len(members)
        base = next((m for m in members if results[m]["hz"] == "none"), members[0])
        b = results[base]["sel"]
        for m in members:
            o = results[m]["sel"]
            if o[:2] != b[:2] and not (o[0] == "exc" and b[0] == "exc" and o[1] == b[1]):
                ctx.violation("variants|%s|%s" % (results[m]["hz"], "raised:" + o[1] if o[0] == "exc" else "differs"),
                              "%r -> %s but its variant %r -> %s" % (
                                  m, list(o[1]) if o[0] == "ok" else o[1:], base, list(b[1]) if b[0] == "ok" else b[1:]),
                              {"kind": "variants", "expr": m, "base": base})
    if not samples:
        samples = [{"expr": s, "selected": list(results[s]["ref"])} for s in list(nontrivial)[:3]]
    cov = {
        "evaluations": n_eval,
        "distinct_nontrivial": len(nontrivial),
        "distinct_selected_sets": len(distinct_sets),
        "rule": "every program of the grammar described in vlib/refmodels/selection_gen.py (depth 1 in every spelling, depth 2 "
                "over 21 representative leaves, depth 3 %s, all connective spellings and parenthesisations) plus "
                "nesting, whitespace and malformed strings; each distinct string is executed once; non-trivial = the reference "
                "selects neither no atom nor all %d atoms; history layer: every edit sequence of length 1..2 over the 12 edits of "
                "selection_hist.py x its 28 expressions, evaluated on one object before / after every edit and on a from-scratch "
                "copy, a case = (history, stage, expression), non-trivial by the same rule" % (
                    "three-leaf slice over 3 leaves" if ctx.quick else "complete over 4 leaves + three-leaf slice over 5 leaves",
                    len(_ATOMS)),
        "samples": samples,
        "exhaustive": True,
        "strings_by_mode": by_mode,
        "variant_groups": n_groups, "variant_group_members": n_var_members,
        "programs_by_hazard_class": hz_count,
        "malformed_rejected_by_exception_type": exc_types,
        "whitespace_variants_raising_(recorded)": ws_raised,
        "recorded_not_judged": recorded,
        "empty_selections_returned_with_non_integer_dtype_(recorded)": empty_float,
        "excluded_within_margin": 0,
        "max_err_over_tol": 0.0,
        "keyword_aliases": sorted(R.ALIAS), "operator_spellings": sorted(R.RESERVED),
        "depth2_leaves": [t for _i, t in G.reps("2", ctx.seed)],
        "depth3_leaves": [t for _i, t in G.reps("3q" if ctx.quick else "3", ctx.seed)],
        "depth3_three_leaf_slice_leaves": [t for _i, t in G.reps("3q" if ctx.quick else "3t", ctx.seed)],
        "n_atoms": len(_ATOMS),
    }
    cov.update(stats)
    cov.update(fixture)
    hcov = _history_layer(ctx, R)
    cov.update(hcov)
    cov["evaluations"] += hcov["history_selects"]
    cov["distinct_nontrivial"] += hcov["history_cases_nontrivial"]
    cov["samples"].append({"history": [list(e) for e in (("delete", 6, "H1"), ("insert_front",))],
                           "expr": "n_bonds 2 and water", "stages": "before, after each edit, from-scratch copy"})
    ctx.assume("the documented meaning of =~ is Python re.match on the attribute value; only patterns on which match, "
               "fullmatch and search agree for every value of the fixture are used")
    ctx.assume("an attribute without a value (rescode of a non-protein residue) equals no literal and matches no pattern")
    return "exploration", cov


def replay(ctx, rep):
    R = _setup()
    kind = rep.get("kind")
    if kind == "fixture":
        return all(abs(ma.element.mass - a["mass"]) <= 0.01 for a, ma in zip(_ATOMS, _TOP.atoms))
    if kind == "history":
        def norm(e):
            return tuple(tuple(x) if isinstance(x, list) else x for x in e)
        hist = tuple(norm(e) for e in rep["edits"])
        runs = [_hist_worker(hist) for _ in range(2)]
        obs = [sorted((v[0], v[2]["stage"], v[2]["expr"]) for v in r["viol"]) for r in runs]
        print("replay 1:", obs[0][:6])
        print("replay 2:", obs[1][:6])
        assert obs[0] == obs[1], "replay is not deterministic"
        return not any(st == rep["stage"] and ex == rep["expr"] for _sig, st, ex in obs[0])
    s = rep["expr"]

    def once():
        sel = _in_thread(_run_select, s)
        src = _in_thread(_run_source, s)
        base = _in_thread(_run_select, rep["base"]) if kind == "variants" else None
        return sel, src[:2], base
    a, b = once(), once()
    print("replay 1:", a)
    print("replay 2:", b)
    assert a == b, "replay is not deterministic"
    sel, src, base = a
    if kind == "malformed":
        return sel[0] == "exc"
    if kind == "variants":
        return sel[:2] == base[:2] or (sel[0] == base[0] == "exc" and sel[1] == base[1])
    exp = tuple(R.select(R.parse(s), _ATOMS))
    print("reference:", list(exp))
    if kind == "source":
        return sel[0] == "ok" and src[0] == "ok" and src[1] == sel[1]
    return sel[0] == "ok" and sel[1] == exp and all(y > x for x, y in zip(sel[1], sel[1][1:]))
