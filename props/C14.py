"""C14 -- reported hydrogen bonds are exactly those meeting the stated criteria.

Three enumerations, every member evaluated by the real function and by a float64 evaluation of the
documented criterion (vlib/refmodels/hbond_ref.py); sets are compared exactly, members the oracle places
within the margin (1e-5 + float32 error model) of a threshold are excluded and counted.

BH  baker_hubbard: a hand-built 20-residue topology (explicit bonds; N-H and O-H donors, N/O acceptors,
    N-terminal NH3+, C-terminal OXT, proline, a ligand with N/O, waters) made of 10 donor->acceptor *sites*.
    In every trajectory each site carries one point of the grid {H...A distance ladder} x {D-H...A angle
    ladder} around the cut-offs in a "test" frame, the other frames being clearly bonded / clearly not
    bonded, so the bond is present in k of n frames for every k <= n <= 4; x freq {0,.1,.5,1} x
    exclude_water x sidechain_only x cut-off settings x (no cell | cells of the menu with every atom
    shifted by its own lattice vector, periodic True/False).
WN  wernet_nilsson: same topology, grid {delta(H-D...A)} x {r_DA ladder around 0.33-0.000044 delta^2},
    1..3 frames, options as above.
KS  kabsch_sander: backbone residue pairs on an (O...H distance ladder around E = -0.5) x (N-H...O angle) x
    (C=O...H angle) grid, three acceptors competing for one donor in every energy order and sequence
    position, proline donors, CA-CA distance ladder around 0.9 nm, chain boundaries, waters/ligand residues,
    windows of 1..3 frames.
"""
import itertools

import numpy as np

from vlib import grids
from vlib.refmodels import hbond_ref as hr

MANIFEST = {
    "category": "exploration",
    "engine": "gridx",
    "technique": "designed threshold-straddling geometry grids x option products on hand-built topologies, judged by a "
                 "float64 evaluation of the documented criteria with exact set comparison",
    "text": "baker_hubbard: every point of {H..A distance: cutoff*(1+-{1e-3,1e-2,1e-1}), 0.6x, 1.6x, 1 nm} x {D-H..A angle: "
            "cutoff*(1+-{1e-3,1e-2,1e-1}), 0.5x, 175 deg} carried by each of 10 donor->acceptor sites (backbone, side chain, "
            "N-/C-terminus, proline N, ligand, water) of a 20-residue hand-built topology with explicit bonds (incl. H-H bonds in the "
            "waters and N-N-N / O-O-O chains in the ligands, which must not act as donors; no duplicate rows), as the deciding "
            "frame of an n-frame trajectory in which the bond is otherwise present in k frames (all 0<=k<n<=4, deciding frame "
            "first or last) x freq {0,0.1,0.5,1} x exclude_water x sidechain_only x cut-off settings {(0.25,120),(0.3,150),"
            "(0.2,90)} (thorough: 3x3; quick runs the custom cut-offs with n<=2 frames, freq {0,0.5}, default filters) x {no "
            "cell; cells cubic3, mono110 (thorough: + hex60, tric_75_100_115 at the default cut-offs) with every atom moved by "
            "its own lattice vector; periodic True/False; n<=2 frames; plus trajectories whose cell SHAPE changes from frame to frame "
            "(cubic3>mono110, mono110>cubic3, ortho234>tric_75_100_115), each frame judged with its own cell}. Residue numbers "
            "restart at 1 in every chain, so waters share their resSeq with peptide/ligand residues (and later residues do not). wernet_nilsson: {delta: 0,5,20,40,44.5,45.5,50,70,80 deg} x "
            "{r_DA: cone cut-off*(1+-{1e-3,1e-2,1e-1}), 0.5x, 0.33*(1+-1e-3), 0.5 nm} in 1..3 frames x the same options. "
            "kabsch_sander: residue pairs on {O..H distance ladder around the E=-0.5 root} x {N-H..O angle 180,150,120} x "
            "{C=O..H angle 180,150,120}, three competing acceptors in all 6 energy orders x 4 sequence positions, proline "
            "donors, CA-CA ladder around 0.9 nm, chain boundaries, water/ligand residues, donors whose predecessor lacks N, CA, both, "
            "or is an acetyl cap but has C and O (hydrogen still placed from that C=O), windows of 1..3 frames. History layer (each sequence "
            "inside one process): 72 topologies of identical layout, bonds and residue names differing only in the element of the "
            "donor heavy atom {O,N,C}, of the hydrogen {H,C}, of the acceptor {O,N,C}, the acceptor's name {OD1,O} and a ligand "
            "donor's element {N,C}; every topology with each single-axis neighbour as [v,w] on two Topology objects (both orders) "
            "and as [v -> w -> copy() of the edited object -> v] edited in place on one object (thorough: all ordered pairs) x "
            "exclude_water x sidechain_only, every sequence tagged with a unique name on an inert atom so that no earlier "
            "topology of the process has the same content, "
            "baker_hubbard then wernet_nilsson, every result compared with the reference of ITS topology; the same for "
            "kabsch_sander: N, CA, C or O of the donor or of the acceptor residue renamed, acceptor O <-> OT1, donor residue named "
            "PRO, each as [base; rename in place; copy()], the reverse repair [broken; repair in place; copy()], [base; rename; "
            "restore] and two objects in both orders, in-place sequences first. Oracle = the "
            "docstring criteria in float64 (strict inequalities; mean presence > freq; 0.33-0.000044 delta^2; "
            "E = 0.42*0.2*33.2*(1/rON+1/rCH-1/rOH-1/rCN) with H 0.1 nm from N along O->C of the preceding residue; best two per "
            "donor). The property is about threshold semantics on all structures; designed grids that straddle every threshold "
            "on every kind of donor/acceptor decide that on the stated finite space.",
    "note": "Not judged (docstrings silent), only counted: Kabsch-Sander donors that are first in their chain or follow a "
            "residue without C/O (hydrogen placement undocumented), the covalently bonded pair acceptor i / donor i+1 (skipped by "
            "DSSP), pairs beyond the 0.9 nm CA pre-filter, energies below DSSP's -9.9 floor. The ASan kernel seam and its toolchain are "
            "optional: if they do not build or run the memory check is skipped with a WARNING, never a check error. Angles/distances under periodic "
            "boundaries are minimum-image vectors from the hydrogen (donor) atom; cells are at least 2.6 nm wide. Trusted: "
            "numpy float64, vlib/refmodels/mic.py. History sequences have length <= 3 and use only atom.element / "
            "atom.name / residue.name edits; the 16 history processes are fork()ed workers whose module state starts from the "
            "parent's (which has made no hbond call).",
    "ref": "DESIGN.md §3 C14, §2.4",
}

LADDER = [1e-3, 1e-2, 1e-1]
FREQS = [0.0, 0.1, 0.5, 1.0]

# ------------------------------------------------------------------------------------------------------
# topology of the BH/WN enumeration

TEMPL = {
    "ALA": ("ALA", "N:N H:H CA:C HA:H CB:C C:C O:O", "N-H N-CA CA-HA CA-CB CA-C C-O"),
    "NALA": ("ALA", "N:N H1:H H2:H H3:H CA:C CB:C C:C O:O", "N-H1 N-H2 N-H3 N-CA CA-CB CA-C C-O"),
    "GLY": ("GLY", "N:N H:H CA:C C:C O:O", "N-H N-CA CA-C C-O"),
    "CGLY": ("GLY", "N:N H:H CA:C C:C O:O OXT:O", "N-H N-CA CA-C C-O C-OXT"),
    "SER": ("SER", "N:N H:H CA:C C:C O:O CB:C OG:O HG:H", "N-H N-CA CA-C C-O CA-CB CB-OG OG-HG"),
    "THR": ("THR", "N:N H:H CA:C C:C O:O CB:C OG1:O HG1:H CG2:C", "N-H N-CA CA-C C-O CA-CB CB-OG1 OG1-HG1 CB-CG2"),
    "ASN": ("ASN", "N:N H:H CA:C C:C O:O CB:C CG:C OD1:O ND2:N HD21:H HD22:H",
            "N-H N-CA CA-C C-O CA-CB CB-CG CG-OD1 CG-ND2 ND2-HD21 ND2-HD22"),
    "LYS": ("LYS", "N:N H:H CA:C C:C O:O CB:C CE:C NZ:N HZ1:H HZ2:H HZ3:H",
            "N-H N-CA CA-C C-O CA-CB CB-CE CE-NZ NZ-HZ1 NZ-HZ2 NZ-HZ3"),
    "HIS": ("HIS", "N:N H:H CA:C C:C O:O CB:C CG:C ND1:N HD1:H CE1:C NE2:N",
            "N-H N-CA CA-C C-O CA-CB CB-CG CG-ND1 ND1-HD1 ND1-CE1 CE1-NE2"),
    "PRO": ("PRO", "N:N CD:C CA:C C:C O:O CB:C", "N-CD N-CA CA-C C-O CA-CB"),
    # the ligand carries an azide-like N-N-N chain and a trioxide-like O-O-O chain, the waters an explicit H-H bond
    # (rigid-water topologies of prmtop/psf files): bonds between two N, two O or two H are NOT donors
    "LIG": ("LIG", "C1:C N1:N H1:H O1:O C2:C N2:N NA1:N NA2:N NA3:N OP1:O OP2:O OP3:O",
            "C1-N1 N1-H1 C1-O1 C1-C2 C2-N2 C2-NA1 NA1-NA2 NA2-NA3 C2-OP1 OP1-OP2 OP2-OP3"),
    "HOH": ("HOH", "O:O H1:H H2:H", "O-H1 O-H2 H1-H2"),
}

# (donor template, D, H, acceptor template, A, label)
SITES = [
    ("ALA", "N", "H", "GLY", "O", "bb-bb"),
    ("SER", "OG", "HG", "ASN", "OD1", "sc-sc OH..O"),
    ("LYS", "NZ", "HZ1", "HIS", "NE2", "sc-sc NH..N"),
    ("LYS", "NZ", "HZ2", "PRO", "O", "sc-bb"),
    ("LIG", "N1", "H1", "SER", "OG", "lig-sc"),
    ("HOH", "O", "H1", "HOH", "O", "wat-wat"),
    ("HOH", "O", "H2", "LIG", "N2", "wat-lig"),
    ("THR", "OG1", "HG1", "CGLY", "OXT", "sc-OXT"),
    ("NALA", "N", "H1", "HOH", "O", "nterm-wat"),
    ("HIS", "ND1", "HD1", "PRO", "N", "sc-proN"),
]
# chain of each site's (donor residue, acceptor residue): proteins in chains 0/1, ligands 2, waters 3
_CHAIN = {"LIG": 2, "HOH": 3}


def build_topology():
    """Returns atoms [(name, el, resname, resindex, chain)], bonds [(i,j)], sites [dict(D,H,A,don_atoms,acc_atoms,...)]."""
    residues = []      # (template key, chain, site index, role)
    for si, s in enumerate(SITES):
        residues.append((s[0], _CHAIN.get(s[0], si % 2), si, "don"))
        residues.append((s[3], _CHAIN.get(s[3], si % 2), si, "acc"))
    # N-terminal residue first in its chain, C-terminal last: stable sort by chain, NALA first, CGLY last
    order = sorted(range(len(residues)), key=lambda k: (residues[k][1], 0 if residues[k][0] == "NALA" else
                                                        (2 if residues[k][0] == "CGLY" else 1), k))
    atoms, bonds = [], []
    sites = [dict(label=s[5]) for s in SITES]
    for ri, k in enumerate(order):
        key, chain, si, role = residues[k]
        resname, alist, blist = TEMPL[key]
        idx = {}
        for tok in alist.split():
            nm, el = tok.split(":")
            idx[nm] = len(atoms)
            atoms.append((nm, el, resname, ri, chain))
        for b in blist.split():
            a, c = b.split("-")
            bonds.append((idx[a], idx[c]))
        s = SITES[si]
        if role == "don":
            sites[si].update(D=idx[s[1]], H=idx[s[2]], don=list(idx.values()))
        else:
            sites[si].update(A=idx[s[4]], acc=list(idx.values()))
    return atoms, bonds, sites


def make_md_topology(atoms, bonds):
    import mdtraj as md
    top = md.Topology()
    chains, residues, nres_in_chain = {}, {}, {}
    alist = []
    for nm, el, rn, ri, ch in atoms:
        if ch not in chains:
            chains[ch] = top.add_chain()
        if ri not in residues:
            # residue numbers restart at 1 in every chain (as in multi-chain PDB files): the waters share their resSeq
            # with the first residues of the peptide and ligand chains, later residues have numbers no water has
            nres_in_chain[ch] = nres_in_chain.get(ch, 0) + 1
            residues[ri] = top.add_residue(rn, chains[ch], resSeq=nres_in_chain[ch])
        alist.append(top.add_atom(nm, md.element.get_by_symbol(el), residues[ri]))
    for i, j in bonds:
        top.add_bond(alist[i], alist[j])
    return top


def _perp(e):
    a = np.array([0.0, 0.0, 1.0]) if abs(e[2]) < 0.9 else np.array([1.0, 0.0, 0.0])
    w = np.cross(e, a)
    w /= np.linalg.norm(w)
    return w, np.cross(e, w)


def place_site(xyz, site, bonds_of, origin, e, kind, p1, p2, phi, dh):
    """Put one site's two residues into xyz (n,3).  kind 'bh': p1 = H..A distance, p2 = angle D-H..A (rad);
    kind 'wn': p1 = D..A distance, p2 = angle H-D..A (rad).  phi = azimuth of A about the D-H axis."""
    w1, w2 = _perp(e)
    wphi = np.cos(phi) * w1 + np.sin(phi) * w2
    D = origin
    H = D + dh * e
    if kind == "bh":
        u = -e * np.cos(p2) + wphi * np.sin(p2)          # angle between H->D (= -e) and H->A is p2
        A = H + p1 * u
    else:
        u = e * np.cos(p2) + wphi * np.sin(p2)           # angle between D->H (= e) and D->A is p2
        A = D + p1 * u
    xyz[site["D"]], xyz[site["H"]], xyz[site["A"]] = D, H, A
    # other hydrogens bonded to D: tetrahedral directions about -e, away from A
    oh = [h for h in bonds_of[site["D"]] if h != site["H"] and h in site["_hyd"]]
    for m, h in enumerate(oh):
        az = phi + np.pi + (m - 0.5) * 2.0
        xyz[h] = D + 0.1 * (-e * 0.334 + (np.cos(az) * w1 + np.sin(az) * w2) * 0.943)
    # donor residue tail: remaining atoms behind D, zigzag
    rest = [a for a in site["don"] if a not in (site["D"], site["H"]) and a not in oh]
    for m, a in enumerate(rest):
        xyz[a] = D - e * (0.14 + 0.105 * m) + (w1 if m % 2 else w2) * 0.06 * (1 if m % 4 < 2 else -1)
    # acceptor residue tail: behind A, away from H
    f = A - H
    nf = np.linalg.norm(f)
    f = f / nf if nf > 1e-9 else e
    g1, g2 = _perp(f)
    rest = [a for a in site["acc"] if a != site["A"]]
    for m, a in enumerate(rest):
        xyz[a] = A + f * (0.14 + 0.105 * m) + (g1 if m % 2 else g2) * 0.06 * (1 if m % 4 < 2 else -1)


_TOPO = {}


def topo():
    if not _TOPO:
        atoms, bonds, sites = build_topology()
        bonds_of = {i: [] for i in range(len(atoms))}
        for i, j in bonds:
            bonds_of[i].append(j)
            bonds_of[j].append(i)
        hyd = {i for i, a in enumerate(atoms) if a[1] == "H"}
        for s in sites:
            s["_hyd"] = hyd
        _TOPO.update(atoms=atoms, bonds=bonds, sites=sites, bonds_of=bonds_of, md=make_md_topology(atoms, bonds))
        for ew in (True, False):
            for sc in (True, False):
                for oxt in (False, True):
                    _TOPO[("trip", ew, sc, oxt)] = np.array(hr.hbond_triplets(atoms, bonds, ew, sc, oxt), int).reshape(-1, 3)
        full = _TOPO[("trip", False, False, False)]
        row = {tuple(t): k for k, t in enumerate(full.tolist())}
        assert len(row) == len(full)
        for ew in (True, False):
            for sc in (True, False):
                tr = _TOPO[("trip", ew, sc, False)]
                _TOPO[("rows", ew, sc)] = np.array([row[tuple(t)] for t in tr.tolist()], int)
                nb = set(map(tuple, _TOPO[("trip", ew, sc, True)].tolist()))
                _TOPO[("keep", ew, sc)] = np.array([tuple(t) in nb for t in tr.tolist()], bool)
    return _TOPO


def site_origins(seed):
    """10 sites, 0.95 nm apart on a 3x2x2(-2) lattice, each with its own orientation."""
    T = topo()
    rots = grids.cube_rotations()[::2] + grids.generic_rotations(6, seed)
    out = []
    k = 0
    for z in range(2):
        for y in range(2):
            for x in range(3):
                if k < len(T["sites"]):
                    out.append((np.array([0.45 + 0.95 * x, 0.45 + 0.95 * y, 0.45 + 0.95 * z]), rots[(k * 5 + seed) % len(rots)] @ np.array([1.0, 0, 0])))
                    k += 1
    return out


def bh_grid(dc, ac):
    ds = sorted([dc * (1 + s * l) for l in LADDER for s in (1, -1)] + [0.6 * dc, 1.6 * dc, 1.0])
    an = sorted([ac * (1 + s * l) for l in LADDER for s in (1, -1)] + [0.5 * ac, 175.0])
    return [(d, np.radians(a)) for d in ds for a in an]


def wn_grid():
    g = []
    for delta in (0.0, 5.0, 20.0, 40.0, 44.5, 45.5, 50.0, 70.0, 80.0):
        cut = 0.33 - 0.000044 * delta ** 2
        rs = [cut * (1 + s * l) for l in LADDER for s in (1, -1)] + [0.5 * cut, 0.33 * (1 + 1e-3), 0.33 * (1 - 1e-3), 0.5]
        g += [(r, np.radians(delta)) for r in sorted(rs)]
    return g


def build_frames(kind, grid, gi, pattern, seed, clear):
    """pattern: list over frames of 'T' (test frame: site s carries grid[(gi+7s) % G]), 'Y' (clearly bonded), 'N' (clearly not).
    clear = (yes_point, no_point)."""
    T = topo()
    org = site_origins(seed)
    n = len(T["atoms"])
    xyz = np.zeros((len(pattern), n, 3))
    jit = grids.jitter(64, 3, 1.0, seed)
    for f, pt in enumerate(pattern):
        for s, site in enumerate(T["sites"]):
            if pt == "T":
                p1, p2 = grid[(gi + 7 * s) % len(grid)]
            else:
                p1, p2 = clear[0] if pt == "Y" else clear[1]
            phi = 2 * np.pi * (jit[(s + 3 * f) % 64, 0] + 0.5)
            dh = 0.1 + 0.004 * jit[s, 1]
            place_site(xyz[f], site, T["bonds_of"], org[s][0], org[s][1], kind, p1, p2, phi, dh)
    return xyz.astype(np.float32)


def lattice_shift(xyz32, cell, seed):
    """Move every atom by its own lattice vector n.cell, n in {-1,0,1}^3 (deterministic)."""
    n = xyz32.shape[1]
    k = ((np.arange(n)[:, None] + seed) // np.array([1, 3, 9])) % 3 - 1                         # (n,3) in {-1,0,1}
    return (xyz32.astype(np.float64) + k @ cell).astype(np.float32)


_CELLS = {}
_MICR = {}


def cells(quick):
    key = bool(quick)
    if key not in _CELLS:
        want = ["cubic3", "mono110"] if quick else ["cubic3", "mono110", "hex60", "tric_75_100_115"]
        _CELLS[key] = [c for c in grids.cell_menu(False, unreduced=False) if c["name"] in want]
    return _CELLS[key]


# ------------------------------------------------------------------------------------------------------
# judging one trajectory

def _set(a):
    return set(map(tuple, np.asarray(a, int).reshape(-1, 3).tolist()))


def _sitekind(T, trip):
    """label of the site a triplet belongs to (or 'cross')."""
    for s in T["sites"]:
        if trip[0] == s["D"] and trip[1] == s["H"] and trip[2] == s["A"]:
            return s["label"].split()[0]
    return "background"


def judge_traj(spec, xyz32, cellrec, opts_bh, opts_wn, stats, recs):
    """spec: json-able description for replay.  cellrec: None or cell dict."""
    import mdtraj as md
    T = topo()
    traj = md.Trajectory(xyz32.copy(), T["md"])
    cellv = None
    cellstack = None
    if cellrec is not None:
        F = xyz32.shape[0]
        if "stack" in cellrec:          # cell shape changes from frame to frame
            traj.unitcell_vectors = np.array(cellrec["stack"], np.float32)
            cellstack = np.asarray(traj.unitcell_vectors, np.float64)
        else:
            traj.unitcell_vectors = np.repeat(cellrec["vectors"][None].astype(np.float32), F, axis=0)
        cellv = np.asarray(traj.unitcell_vectors[0], np.float64)
    x64 = xyz32.astype(np.float64)
    geo_cache = {}

    def geo(ew, sc, per):
        per = bool(per and cellv is not None)
        if per not in geo_cache:
            c = cellv if per else None
            R = 2
            if per:
                if "stack" in cellrec:
                    pass
                elif cellrec["name"] not in _MICR:
                    _MICR[cellrec["name"]] = hr.mic_search_radius(cellv)
                R = _MICR.get(cellrec["name"], 2)
            if per and cellstack is not None:
                parts = [hr.hbond_geometry(x64[f:f + 1], T[("trip", False, False, False)], cellstack[f], 2) for f in range(x64.shape[0])]
                g_ = {kk: np.concatenate([p_[kk] for p_ in parts], axis=0) for kk in parts[0]}
                geo_cache[per] = (g_, max(hr.err_model(x64, cellstack[f]) for f in range(x64.shape[0])))
            else:
                geo_cache[per] = (hr.hbond_geometry(x64, T[("trip", False, False, False)], c, R), hr.err_model(x64, c))
        k = (ew, sc, per)
        if k not in geo_cache:
            g, err = geo_cache[per]
            rows = T[("rows", ew, sc)]
            geo_cache[k] = (T[("trip", ew, sc, False)], {kk: v[:, rows] for kk, v in g.items()}, err)
        return geo_cache[k]

    def rec(sig, detail, call):
        key = sig
        stats["nsig"][key] = stats["nsig"].get(key, 0) + 1
        if stats["nsig"][key] <= 2:
            rp = dict(spec)
            rp.update(call=call, sig=sig)
            recs.append((sig, "%s %s: %s" % (spec["family"], call, detail), rp))

    def compare(fn, call, got, tr, present, amb, ew, sc, frame=None):
        stats["calls"] += 1
        want = _set(tr[present & ~amb])
        maybe = _set(tr[amb])
        stats["excluded"] += len(maybe)
        stats["judged_present"] += len(want)
        g = np.asarray(got)
        if g.ndim != 2 or g.shape[1] != 3:
            if g.size == 0:
                g = g.reshape(0, 3)
            else:
                rec("%s|shape" % fn, "returned shape %s" % (g.shape,), call)
                return
        gs = _set(g)
        if len(gs) != len(g):
            rec("%s|duplicate-rows" % fn, "result has repeated triplets", call)
        extra = gs - want - maybe
        missing = want - gs
        if sc:
            # C-terminal OXT counted as side chain? (judged under its own signature)
            oxt = {t for t in extra if T["atoms"][t[2]][0] == "OXT"}
            if oxt:
                rec("%s|sidechain_only|OXT-acceptor-reported" % fn, "sidechain_only=True reports %s with acceptor OXT "
                    "(C-terminal carboxylate oxygen)" % sorted(oxt)[:2], call)
                extra -= oxt
        if extra:
            t = sorted(extra)[0]
            cls = "criterion-not-met"
            if t not in _set(tr):
                el = (T["atoms"][t[0]][1], T["atoms"][t[1]][1])
                cls = "not-a-candidate" if (el[0] in ("N", "O") and el[1] == "H") else "donor-is-%s-%s-bond" % el
            rec("%s|extra|%s|%s" % (fn, cls, _sitekind(T, t)), "reports %s %s which the documented criterion rejects%s"
                % (t, [T["atoms"][i][:3] for i in t], "" if frame is None else " in frame %d" % frame), call)
        if missing:
            t = sorted(missing)[0]
            rec("%s|missing|%s" % (fn, _sitekind(T, t)), "does not report %s %s which meets the documented criterion%s"
                % (t, [T["atoms"][i][:3] for i in t], "" if frame is None else " in frame %d" % frame), call)

    for o in opts_bh:
        freq, ew, sc, per, dc, ac = o
        call = dict(fn="baker_hubbard", freq=freq, exclude_water=ew, sidechain_only=sc, periodic=per,
                    distance_cutoff=dc, angle_cutoff=ac)
        # with sidechain_only the oracle's candidate list treats OXT as backbone; mdtraj's extra OXT rows are classified above
        tr, g, err = geo(ew, sc, per)
        keep = T[("keep", ew, sc)]
        try:
            got = md.baker_hubbard(traj, freq=freq, exclude_water=ew, periodic=per, sidechain_only=sc,
                                   distance_cutoff=dc, angle_cutoff=ac)
        except Exception as e:  # noqa: BLE001
            stats["calls"] += 1
            rec("baker_hubbard|exception|%s" % type(e).__name__, "%s: %s" % (type(e).__name__, e), call)
            continue
        pres, amb, namb = hr.baker_hubbard_ref(g, freq, dc, ac, err)
        stats["amb_frames"] += namb
        if not ew and not sc:
            _site_outcomes(T, stats, "bh", tr, pres, amb)
        if sc and len(tr):
            # triplets with OXT acceptors are not required (documentation calls for side chains only) nor, under the
            # separate signature, silently accepted
            pres = pres & keep
            amb = amb & keep
        compare("baker_hubbard", call, got, tr, pres, amb, ew, sc)
    for o in opts_wn:
        ew, sc, per = o
        call = dict(fn="wernet_nilsson", exclude_water=ew, sidechain_only=sc, periodic=per)
        tr, g, err = geo(ew, sc, per)
        keep = T[("keep", ew, sc)]
        try:
            got = md.wernet_nilsson(traj, exclude_water=ew, periodic=per, sidechain_only=sc)
        except Exception as e:  # noqa: BLE001
            stats["calls"] += 1
            rec("wernet_nilsson|exception|%s" % type(e).__name__, "%s: %s" % (type(e).__name__, e), call)
            continue
        pres, amb = hr.wernet_nilsson_ref(g, err)
        if len(got) != xyz32.shape[0]:
            rec("wernet_nilsson|shape", "returned %d frames for %d" % (len(got), xyz32.shape[0]), call)
            continue
        for f in range(xyz32.shape[0]):
            p, a = pres[f], amb[f]
            if not ew and not sc:
                _site_outcomes(T, stats, "wn", tr, p, a)
            if sc and len(tr):
                p, a = p & keep, a & keep
            compare("wernet_nilsson", call, got[f], tr, p, a, ew, sc, frame=f)


def _site_outcomes(T, stats, fam, tr, pres, amb):
    """Count, per site, how often the oracle decides its designed triplet present / absent / within margin."""
    if "_siterow" not in T:
        full = T[("trip", False, False, False)].tolist()
        T["_siterow"] = [full.index([s["D"], s["H"], s["A"]]) for s in T["sites"]]
    for s, r in zip(T["sites"], T["_siterow"]):
        k = "%s %s" % (fam, s["label"])
        o = stats["site_out"].setdefault(k, [0, 0, 0])
        o[2 if amb[r] else (0 if pres[r] else 1)] += 1


def _patterns(nmax, both_ends=True):
    """All (pattern) lists: n frames, one test frame 'T' first or last, k others clearly bonded."""
    out = []
    for n in range(1, nmax + 1):
        for k in range(0, n):
            others = ["Y"] * k + ["N"] * (n - 1 - k)
            pats = [["T"] + others]
            if n > 1 and both_ends:
                pats.append(others[::-1] + ["T"])
            for p in pats:
                if p not in out:
                    out.append(p)
    return out


def _new_stats():
    return dict(calls=0, excluded=0, amb_frames=0, judged_present=0, nsig={}, trajs=0, ks_pairs=0, ks_excl=0,
                ks_bonds=0, ks_three_plus=0, site_out={}, ks_notjudged={}, ks_err=0.0, ks_calls=0, hist_calls=0, hist_seqs=0)


_CTX = {}


def work_bhwn(item):
    """item = (family, cut, pattern, gi, cellname)"""
    family, cut, pattern, gi, cellname = item
    seed, quick = _CTX["seed"], _CTX["quick"]
    stats, recs = _new_stats(), []
    run_bhwn_item(family, cut, pattern, gi, cellname, seed, quick, stats, recs)
    return recs, stats


def run_bhwn_item(family, cut, pattern, gi, cellname, seed, quick, stats, recs, only_call=None):
    dc, ac = cut
    if family == "bh":
        grid = bh_grid(dc, ac)
        clear = ((0.7 * dc, np.radians(min(175.0, ac + 0.6 * (180 - ac)))), (2.0 * dc, np.radians(0.6 * ac)))
    else:
        grid = wn_grid()
        clear = ((0.27, np.radians(10.0)), (0.6, np.radians(30.0)))
    xyz = build_frames(family, grid, gi, pattern, seed, clear)
    cellrec = None
    if cellname is not None:
        menu = {c["name"]: c for c in grids.cell_menu(False, unreduced=False)}
        if ">" in cellname:
            # the cell SHAPE changes along the trajectory: frame f uses the (f mod 2)-th of the two named cells
            names = cellname.split(">")
            stack = [menu[names[f % len(names)]]["vectors"] for f in range(xyz.shape[0])]
            xyz = np.concatenate([lattice_shift(xyz[f:f + 1], stack[f], seed) for f in range(xyz.shape[0])], axis=0)
            cellrec = dict(name=cellname, stack=stack)
        else:
            cellrec = menu[cellname]
            xyz = lattice_shift(xyz, cellrec["vectors"], seed)
    pers = [True] if cellname is None else [True, False]
    if family == "bh":
        default = (dc, ac) == (0.25, 120.0)
        fqs = FREQS if (default and (cellname is None or not quick)) or not quick else [0.0, 0.5]
        filt = [(ew, sc) for ew in (True, False) for sc in (False, True)] if (default or not quick) else [(True, False)]
        obh = [(fq, ew, sc, per, dc, ac) for fq in fqs for (ew, sc) in filt for per in pers]
        if cellname is None and gi % 9 == 0:
            obh += [(fq, True, False, False, dc, ac) for fq in (0.0, 0.5)]       # periodic=False without a cell
        own = [(True, False, True)] if (dc, ac) == (0.25, 120.0) else []        # cross run, default options
    else:
        own = [(ew, sc, per) for ew in (True, False) for sc in (False, True) for per in pers]
        obh = [(0.1, True, False, True, 0.25, 120.0), (0.0, False, False, True, 0.25, 120.0)]   # cross run
    if only_call is not None:
        if only_call["fn"] == "baker_hubbard":
            obh = [(only_call["freq"], only_call["exclude_water"], only_call["sidechain_only"], only_call["periodic"],
                    only_call["distance_cutoff"], only_call["angle_cutoff"])]
            own = []
        else:
            own = [(only_call["exclude_water"], only_call["sidechain_only"], only_call["periodic"])]
            obh = []
    spec = dict(family=family, cut=list(cut), pattern=pattern, gi=gi, cell=cellname, seed=seed)
    stats["trajs"] += 1
    judge_traj(spec, xyz, cellrec, obh, own, stats, recs)


# ------------------------------------------------------------------------------------------------------
# Kabsch-Sander enumeration

def ks_energy(n, h, c, o):
    r = np.linalg.norm
    return hr.KS_COUPLING * (1 / r(o - n) + 1 / r(c - h) - 1 / r(o - h) - 1 / r(c - n))


def ks_place_pair(x_oh, ang_nho, ang_coh, phi):
    """Local coordinates of donor N,H and acceptor C,O: H at origin, N at -0.1 x; O at distance x_oh from H with
    angle N-H..O = ang_nho; C 0.123 nm from O with angle C=O..H = ang_coh."""
    H = np.zeros(3)
    N = np.array([-0.1, 0, 0])
    w = np.array([0, np.cos(phi), np.sin(phi)])
    u = np.array([1.0, 0, 0]) * (-np.cos(ang_nho)) + w * np.sin(ang_nho)     # angle between H->N (-x) and H->O is ang_nho
    O = H + x_oh * u
    # C: angle at O between O->C and O->H is ang_coh
    oh = -u
    w2 = np.cross(u, np.array([0.3, -0.5, 0.8]))
    w2 /= np.linalg.norm(w2)
    C = O + 0.123 * (oh * np.cos(ang_coh) + w2 * np.sin(ang_coh))
    return N, H, C, O


def ks_root(ang_nho, ang_coh, phi):
    """O..H distance at which the documented energy equals -0.5 for this orientation (bisection, float64)."""
    lo, hi = 0.12, 1.5
    f = lambda x: ks_energy(*ks_place_pair(x, ang_nho, ang_coh, phi)) + 0.5
    if not (f(lo) < 0 < f(hi)):
        return None
    for _ in range(200):
        mid = 0.5 * (lo + hi)
        if f(mid) < 0:
            lo = mid
        else:
            hi = mid
    return 0.5 * (lo + hi)


class KSBuilder:
    """Assemble residues (N, CA, C, O [+ water/ligand residues]) with chosen H directions."""

    def __init__(self):
        self.atoms = []      # (name, el, resname, resindex, chain)
        self.xyz = []
        self.res = []

    def add_protein(self, name, chain, N, CA, C, O):
        ri = len(self.res)
        d = dict(name=name, chain=chain)
        for nm, el, p in (("N", "N", N), ("CA", "C", CA), ("C", "C", C), ("O", "O", O)):
            d[nm] = len(self.atoms)
            self.atoms.append((nm, el, name, ri, chain))
            self.xyz.append(np.asarray(p, float))
        self.res.append(d)
        return ri

    def set_chains(self, firsts):
        """Assign chain indices by residue-index blocks (chains must be contiguous in mdtraj): `firsts` = sorted residue
        indices at which a new chain starts; residues added with chain >= 9 (waters, ligands) keep their own chains."""
        for ri, r in enumerate(self.res):
            if r["chain"] >= 9:
                continue
            r["chain"] = int(sum(1 for f in firsts if f <= ri))
        self.atoms = [(nm, el, rn, ri, self.res[ri]["chain"]) for (nm, el, rn, ri, _c) in self.atoms]

    def add_other(self, name, chain, atoms):
        """atoms: list of (name, el, pos); non-backbone names except where given."""
        ri = len(self.res)
        d = dict(name=name, chain=chain, N=-1, CA=-1, C=-1, O=-1)
        for nm, el, p in atoms:
            if nm in ("N", "CA", "C", "O"):
                d[nm] = len(self.atoms)
            self.atoms.append((nm, el, name, ri, chain))
            self.xyz.append(np.asarray(p, float))
        self.res.append(d)
        return ri


def ks_topology(atoms):
    import mdtraj as md
    top = md.Topology()
    chains, residues = {}, {}
    for nm, el, rn, ri, ch in atoms:
        if ch not in chains:
            chains[ch] = top.add_chain()
        if ri not in residues:
            residues[ri] = top.add_residue(rn, chains[ch])
        top.add_atom(nm, md.element.get_by_symbol(el), residues[ri])
    return top


def ks_unit(b, origin, rot, donor_name, x_oh, a1, a2, phi, ca_dist=None, acc_first=False, acc_name="ALA", pred="full"):
    """One pair unit = predecessor P, donor D, acceptor A (sequence order P, D, A or A, P, D when acc_first).
    The donor's documented H (0.1 nm from N along O->C of P) is at `origin`; geometry rotated by `rot`."""
    N, H, C, O = ks_place_pair(x_oh, a1, a2, phi)
    tr = lambda p: origin + rot @ np.asarray(p, float)
    # predecessor: its C=O must be parallel to N->H: O_p -> C_p direction = +x; put C_p bonded-ish to N
    Cp = N + np.array([-0.08, 0.105, 0.0])
    Op = Cp - np.array([0.123, 0, 0])
    CAp = Cp + np.array([0.02, 0.15, 0.0])
    Np = CAp + np.array([-0.12, 0.08, 0.02])
    CAd = N + np.array([-0.06, -0.13, 0.0])
    Cd = CAd + np.array([-0.15, -0.02, 0.03])
    Od = Cd + np.array([-0.02, -0.12, 0.0])
    # acceptor residue: CA bonded to C, N further
    oc = (C - O) / np.linalg.norm(C - O)
    pp = np.cross(oc, np.array([0.2, 0.9, -0.4]))
    pp /= np.linalg.norm(pp)
    CAa = C + 0.153 * (0.5 * oc + 0.866 * pp)
    Na = CAa + 0.147 * (0.5 * oc - 0.866 * pp)
    if ca_dist is not None:
        # free (unphysical) placement of the acceptor CA at the requested distance from the donor CA, away from everything
        v = CAa - CAd
        CAa = CAd + v / np.linalg.norm(v) * ca_dist
    ac = chain = 0
    ids = {}
    if acc_first:
        ids["A"] = b.add_protein(acc_name, ac, tr(Na), tr(CAa), tr(C), tr(O))
    if pred == "full":
        ids["P"] = b.add_protein("GLY", chain, tr(Np), tr(CAp), tr(Cp), tr(Op))
    else:
        # incomplete predecessor that still has its carbonyl: the donor's hydrogen is defined by that C=O all the same
        lst = {"noN": [("CA", "C", CAp), ("C", "C", Cp), ("O", "O", Op)],
               "noCA": [("N", "N", Np), ("C", "C", Cp), ("O", "O", Op)],
               "noNCA": [("C", "C", Cp), ("O", "O", Op)],
               "ACE": [("CH3", "C", CAp), ("C", "C", Cp), ("O", "O", Op)]}[pred]
        ids["P"] = b.add_other("ACE" if pred == "ACE" else "ALA", chain, [(nm, el, tr(pos)) for nm, el, pos in lst])
    ids["D"] = b.add_protein(donor_name, chain, tr(N), tr(CAd), tr(Cd), tr(Od))
    if not acc_first:
        ids["A"] = b.add_protein(acc_name, ac, tr(Na), tr(CAa), tr(C), tr(O))
    return ids


def ks_frames(seed, quick):
    """List of (label, atoms, xyz (F,n,3) float32, res)."""
    out = []
    rots = grids.cube_rotations()[::3] + grids.generic_rotations(6, seed)
    angs = [np.pi, np.radians(150.0), np.radians(120.0)]
    jit = grids.jitter(256, 3, 1.0, seed)
    lad = sorted([1 + s * l for l in LADDER for s in (1, -1)] + [0.75, 1.5])
    # --- (a) orientation x distance grid: 9 orientations = 9 units per frame, the 8 ladder values are the frames
    for variant in range(2 if quick else 4):
        b_frames = []
        atoms = res = None
        for fi, fac in enumerate(lad):
            b = KSBuilder()
            k = 0
            for a1 in angs:
                for a2 in angs:
                    phi = 2 * np.pi * (jit[(k + 11 * variant) % 256, 0] + 0.5)
                    root = ks_root(a1, a2, phi) or 0.2
                    x = root * lad[(fi + k) % len(lad)]
                    org = np.array([0.6 + 1.3 * (k % 3), 0.6 + 1.3 * (k // 3), 0.6 + 0.4 * variant])
                    ks_unit(b, org, rots[(k + variant) % len(rots)], "PRO" if (variant == 1 and k % 4 == 3) else "ALA", x, a1, a2, phi,
                            acc_first=(variant % 2 == 1 and k % 2 == 0))
                    k += 1
            if variant == 0:
                # close contact: documented energy far below DSSP's -9.9 floor (not judged, counted)
                ks_unit(b, np.array([0.6, 0.6, 3.2]), rots[0], "ALA", 0.045, np.pi, np.pi, 0.0)
            # chain boundaries (variant >= 1): between two units, between P and D of a unit, between D and A of a unit
            if variant == 1:
                b.set_chains([9, 16])        # residue 9 starts a unit; 16 = donor of unit 5 -> chain-first donor
            elif variant == 2:
                b.set_chains([5, 13])        # 5 = acceptor of unit 1 (P,D | A): cross-chain bond; 13 = D of unit 4
            elif variant == 3:
                b.set_chains([3, 6, 10])
            # trailing water and ligand residues (skipped by the kernel; last in the residue list)
            b.add_other("HOH", 9, [("O", "O", [3.4, 3.4, 3.0]), ("H1", "H", [3.5, 3.4, 3.0]), ("H2", "H", [3.4, 3.5, 3.0])])
            b.add_other("LIG", 9, [("N1", "N", [3.4, 2.6, 3.0]), ("O1", "O", [3.5, 2.6, 3.0]), ("C1", "C", [3.4, 2.7, 3.0])])
            b_frames.append(np.array(b.xyz))
            atoms, res = b.atoms, b.res
        out.append(("grid-v%d" % variant, atoms, np.array(b_frames, np.float32), res))
    # --- (a') donors whose predecessor is incomplete (no N, no CA, neither, acetyl cap) but HAS atoms named C and O:
    #          the hydrogen is placed from that C=O; frames = the O..H ladder; first a complete residue so that the
    #          incomplete ones sit at index >= 1, a second copy of the cap starts a new chain (cap = first residue of its chain)
    preds = ["full", "noN", "noCA", "noNCA", "ACE", "ACE"]
    frames = []
    for fi in range(len(lad)):
        b = KSBuilder()
        b.add_protein("GLY", 0, [0.3, 3.0, 0.3], [0.4, 3.1, 0.3], [0.5, 3.0, 0.4], [0.6, 3.05, 0.4])
        firsts = []
        for k, pk in enumerate(preds):
            a1, a2, phi = angs[k % 3], angs[(k // 3) % 3], 0.9 * k
            root = ks_root(a1, a2, phi) or 0.2
            if k == len(preds) - 1:
                firsts.append(len(b.res))
            ks_unit(b, np.array([0.7 + 1.2 * (k % 3), 0.7 + 1.3 * (k // 3), 0.9]), rots[(k + 2) % len(rots)], "ALA",
                    root * lad[(fi + 3 * k) % len(lad)], a1, a2, phi, pred=pk)
        b.set_chains(firsts)
        frames.append(np.array(b.xyz))
    out.append(("incomplete-pred", b.atoms, np.array(frames, np.float32), b.res))
    # --- (b) three acceptors competing for one donor: strengths by O..H factor; all 6 orders x 4 sequence positions
    facs = [0.62, 0.72, 0.84]          # x root: all three clearly below -0.5, clearly different energies
    for pos in range(4):               # number of acceptors placed before the donor in the sequence
        frames = []
        atoms = res = None
        for perm in itertools.permutations(range(3)):
            b = KSBuilder()
            org = np.array([2.2, 2.0, 1.0])
            dirs = [(np.pi, np.radians(160.0), 0.3), (np.radians(140.0), np.pi, 2.4), (np.radians(135.0), np.radians(150.0), 4.5)]
            accs = []
            for m in range(3):
                a1, a2, phi = dirs[m]
                root = ks_root(a1, a2, phi)
                N, H, C, O = ks_place_pair(root * facs[perm[m]], a1, a2, phi)
                accs.append((C, O))
            N, H = np.array([-0.1, 0, 0]), np.zeros(3)
            Cp = N + np.array([-0.08, 0.105, 0.0]); Op = Cp - np.array([0.123, 0, 0]); CAp = Cp + np.array([0.02, 0.15, 0.0])
            Np = CAp + np.array([-0.12, 0.08, 0.02]); CAd = N + np.array([-0.06, -0.13, 0.0]); Cd = CAd + np.array([-0.15, -0.02, 0.03])
            Od = Cd + np.array([-0.02, -0.12, 0.0])
            tr = lambda p: org + np.asarray(p, float)

            def add_acc(m):
                C, O = accs[m]
                oc = (C - O) / np.linalg.norm(C - O)
                pp = np.cross(oc, np.array([0.2, 0.9, -0.4])); pp /= np.linalg.norm(pp)
                CAa = C + 0.153 * (0.5 * oc + 0.866 * pp)
                Na = CAa + 0.147 * (0.5 * oc - 0.866 * pp)
                b.add_protein("ALA", 0, tr(Na), tr(CAa), tr(C), tr(O))
            for m in range(pos if pos < 3 else 3):
                add_acc(m)
                b.add_protein("GLY", 0, tr(np.array([1.6 + 0.6 * m, 1.8, 0.0])), tr(np.array([1.7 + 0.6 * m, 1.9, 0.0])),
                              tr(np.array([1.8 + 0.6 * m, 1.8, 0.1])), tr(np.array([1.9 + 0.6 * m, 1.85, 0.1])))     # spacer far away
            b.add_protein("GLY", 0, tr(Np), tr(CAp), tr(Cp), tr(Op))
            b.add_protein("ALA", 0, tr(N), tr(CAd), tr(Cd), tr(Od))
            b.add_protein("GLY", 0, tr(np.array([-1.8, 1.8, 0.0])), tr(np.array([-1.9, 1.9, 0.0])),
                          tr(np.array([-2.0, 1.8, 0.1])), tr(np.array([-2.1, 1.85, 0.1])))                # spacer
            for m in range(pos if pos < 3 else 3, 3):
                add_acc(m)
                b.add_protein("GLY", 0, tr(np.array([1.6 + 0.6 * m, -1.8, 0.0])), tr(np.array([1.7 + 0.6 * m, -1.9, 0.0])),
                              tr(np.array([1.8 + 0.6 * m, -1.8, 0.1])), tr(np.array([1.9 + 0.6 * m, -1.85, 0.1])))
            frames.append(np.array(b.xyz))
            atoms, res = b.atoms, b.res
        out.append(("compete-pos%d" % pos, atoms, np.array(frames, np.float32), res))
    # --- (c) CA pre-filter ladder: strong bond, acceptor CA moved to 0.9*(1 +- ladder) nm from the donor CA
    cal = sorted([0.9 * (1 + s * l) for l in LADDER for s in (1, -1)] + [0.5, 1.3])
    frames = []
    for fi in range(len(cal)):
        b = KSBuilder()
        for k in range(4):
            a1, a2, phi = angs[k % 3], angs[(k + 1) % 3], 0.7 * k
            root = ks_root(a1, a2, phi)
            ks_unit(b, np.array([0.8 + 2.0 * k, 0.8, 0.8]), rots[k], "ALA", root * 0.7, a1, a2, phi,
                    ca_dist=cal[(fi + 2 * k) % len(cal)], acc_first=(k % 2 == 1))
        frames.append(np.array(b.xyz))
    out.append(("ca-prefilter", b.atoms, np.array(frames, np.float32), b.res))
    return out


def judge_ks(label, atoms, xyz32, res, a, bnd, stats, recs, top=None):
    """Run md.kabsch_sander on frames [a, bnd) and judge every frame."""
    import mdtraj as md
    top = top or ks_topology(atoms)
    traj = md.Trajectory(xyz32[a:bnd].copy(), top)
    spec = dict(family="ks", label=label, window=[a, bnd], atoms=[list(t) for t in atoms], xyz=xyz32[a:bnd].tolist(),
                res=res)

    def rec(sig, detail):
        stats["nsig"][sig] = stats["nsig"].get(sig, 0) + 1
        if stats["nsig"][sig] <= 2:
            rp = dict(spec)
            rp["sig"] = sig
            recs.append((sig, "ks %s frames [%d,%d): %s" % (label, a, bnd, detail), rp))

    stats["ks_calls"] += 1
    try:
        mats = md.kabsch_sander(traj)
    except Exception as e:  # noqa: BLE001
        rec("kabsch_sander|exception|%s" % type(e).__name__, "%s: %s" % (type(e).__name__, e))
        return
    nr = len(res)
    if len(mats) != bnd - a:
        rec("kabsch_sander|shape", "%d matrices for %d frames" % (len(mats), bnd - a))
        return
    nj = stats["ks_notjudged"]
    for f in range(bnd - a):
        M = mats[f]
        if M.shape != (nr, nr):
            rec("kabsch_sander|shape", "matrix shape %s for %d residues" % (M.shape, nr))
            continue
        coo = M.tocoo()
        got = {}
        for i, j, v in zip(coo.row, coo.col, coo.data):
            got[(int(i), int(j))] = got.get((int(i), int(j)), 0.0) + float(v)
        ref = hr.ks_reference(xyz32[a + f].astype(np.float64), res)
        E, tolE, ca = ref["E"], ref["tolE"] + hr.MARGIN, ref["ca"]
        for j in range(nr):                       # donor j
            col_got = {i: v for (i, jj), v in got.items() if jj == j}
            if not ref["full"][j]:
                if col_got:
                    rec("kabsch_sander|extra|incomplete-donor", "donor residue %d has no N/CA/C/O but bonds %s" % (j, col_got))
                continue
            if np.isnan(ref["H"][j, 0]):
                nj["donor-H-undocumented(chain-first or predecessor without C/O)"] = nj.get(
                    "donor-H-undocumented(chain-first or predecessor without C/O)", 0) + 1
                if col_got:
                    nj["...of which the kernel reports bonds"] = nj.get("...of which the kernel reports bonds", 0) + 1
                continue
            if j > 0 and not ref["full"][j - 1]:
                nj["(judged) donors behind an incomplete predecessor that has C and O"] = nj.get(
                    "(judged) donors behind an incomplete predecessor that has C and O", 0) + 1
            if res[j]["name"] == "PRO":
                stats["ks_pairs"] += 1
                wb = int(np.nansum((E[:, j] < hr.KS_CUTOFF - tolE[:, j]) & (ca[:, j] < hr.KS_CA_PREFILTER)))
                if wb:
                    nj["(judged) proline donors whose geometry would give E<-0.5: must be absent"] = nj.get(
                        "(judged) proline donors whose geometry would give E<-0.5: must be absent", 0) + 1
                if col_got:
                    rec("kabsch_sander|extra|proline-donor", "proline residue %d reported as N-H donor: %s" % (j, col_got))
                continue
            # candidates per the documented rule
            cand, ambig, unjudged = [], False, set()
            for i in range(nr):
                if i == j or not ref["full"][i] or np.isnan(E[i, j]):
                    continue
                stats["ks_pairs"] += 1
                if i == j - 1 and res[i]["chain"] == res[j]["chain"]:
                    nj["bonded-neighbour acceptor i / donor i+1"] = nj.get("bonded-neighbour acceptor i / donor i+1", 0) + 1
                    unjudged.add(i)
                    continue
                if E[i, j] < -9.9:
                    nj["energy below DSSP floor -9.9"] = nj.get("energy below DSSP floor -9.9", 0) + 1
                    unjudged.add(i)
                    continue
                if ca[i, j] >= hr.KS_CA_PREFILTER - hr.MARGIN - 8 * hr.EPS32 * 4:
                    if E[i, j] < hr.KS_CUTOFF + tolE[i, j]:
                        nj["E<-0.5 but CA-CA >= 0.9 nm (pre-filter)"] = nj.get("E<-0.5 but CA-CA >= 0.9 nm (pre-filter)", 0) + 1
                        if i in col_got:
                            nj["...reported all the same"] = nj.get("...reported all the same", 0) + 1
                        unjudged.add(i)
                    continue
                if abs(E[i, j] - hr.KS_CUTOFF) <= tolE[i, j]:
                    stats["ks_excl"] += 1
                    unjudged.add(i)
                    continue
                if E[i, j] < hr.KS_CUTOFF:
                    cand.append((E[i, j], i))
            cand.sort()
            if any(i in col_got for i in unjudged) and len(cand) >= 2:
                # a reported pair that is not judged occupies one of the two slots: the donor's set is not decidable
                stats["ks_excl"] += 1
                continue
            if len(cand) > 2 and abs(cand[1][0] - cand[2][0]) <= tolE[cand[1][1], j] + tolE[cand[2][1], j]:
                stats["ks_excl"] += 1
                continue
            if len(cand) > 2:
                stats["ks_three_plus"] += 1
            want = {i: e for e, i in cand[:2]}
            stats["ks_bonds"] += len(want)
            gotj = {i: v for i, v in col_got.items() if i not in unjudged}
            if set(gotj) != set(want):
                extra, missing = set(gotj) - set(want), set(want) - set(gotj)
                if missing and len(cand) > 2:
                    kind = "best-two"
                elif extra:
                    kind = "extra"
                else:
                    kind = "missing"
                rec("kabsch_sander|%s" % kind, "frame %d donor %d: reported acceptors %s, documented rule gives %s (all E<-0.5: %s)"
                    % (a + f, j, {k: round(v, 4) for k, v in gotj.items()}, {k: round(v, 4) for k, v in want.items()},
                       [(i, round(e, 4)) for e, i in cand]))
                continue
            for i, e in want.items():
                r_ = abs(gotj[i] - e) / tolE[i, j]
                if r_ > 1:
                    rec("kabsch_sander|energy-value", "frame %d acceptor %d donor %d: value %.7g, documented formula %.7g (tol %.2g)"
                        % (a + f, i, j, gotj[i], e, tolE[i, j]))
                else:
                    stats["ks_err"] = max(stats["ks_err"], r_)


def work_ks(item):
    idx, a, bnd = item
    stats, recs = _new_stats(), []
    label, atoms, xyz, res = _CTX["ks"][idx]
    judge_ks(label, atoms, xyz, res, a, bnd, stats, recs)
    return recs, stats


# ------------------------------------------------------------------------------------------------------
# Kabsch-Sander and memory outside the coordinate array (DESIGN C14 "S")

_N0 = np.array([1.0, 1.0, 1.0])


def _mem_case(kinds):
    """Residue list from a string: P complete residue, W water (atom O only), L ligand (no N/CA/C/O names),
    A acetyl-like cap (C and O only), X residue with N, CA, C but no O.  The residue after the odd one is placed so
    that its N-H would hydrogen-bond to residue 0's C=O *if* the hydrogen pointed along +x."""
    atoms, xyz, nco, ca = [], [], [], []

    def add(resname, ri, lst):
        idx = {}
        for nm, el, pos in lst:
            idx[nm] = len(atoms)
            atoms.append((nm, el, resname, ri, ri))       # every residue its own chain (contiguous)
            xyz.append(np.asarray(pos, float))
        nco.append([idx.get("N", -1), idx.get("C", -1), idx.get("O", -1)])
        ca.append(idx.get("CA", -1))

    for k, kind in enumerate(kinds):
        if kind == "P" and k == 0:       # acceptor: O 0.29 nm from the last residue's N along +x
            add("ALA", k, [("N", "N", _N0 + [0.30, 0.05, 0.15]), ("CA", "C", _N0 + [0.42, 0.12, 0.10]),
                           ("C", "C", _N0 + [0.41, 0.0, 0.0]), ("O", "O", _N0 + [0.29, 0.0, 0.0])])
        elif kind == "P":
            o = np.array([0.0, 0.0, 0.0]) if k == len(kinds) - 1 else np.array([0.0, 1.2 * k, 0.6])
            add("ALA", k, [("N", "N", _N0 + o), ("CA", "C", _N0 + o + [-0.06, -0.13, 0.0]),
                           ("C", "C", _N0 + o + [-0.2, -0.15, 0.0]), ("O", "O", _N0 + o + [-0.22, -0.27, 0.0])])
        elif kind == "W":
            add("HOH", k, [("O", "O", _N0 + [-0.3, 0.2, 0.0])])
        elif kind == "L":
            add("LIG", k, [("N1", "N", _N0 + [-0.3, 0.2, 0.0]), ("O1", "O", _N0 + [-0.35, 0.3, 0.0])])
        elif kind == "A":
            add("ACE", k, [("C", "C", _N0 + [-0.4, 0.2, 0.0]), ("O", "O", _N0 + [-0.3, 0.2, 0.0])])
        elif kind == "X":
            add("ALA", k, [("N", "N", _N0 + [-0.5, 0.3, 0.0]), ("CA", "C", _N0 + [-0.4, 0.3, 0.1]), ("C", "C", _N0 + [-0.3, 0.2, 0.0])])
    return atoms, np.array(xyz, np.float32), nco, ca


MEM_CASES = [("clean", "PPP", None), ("trailing-water", "PPW", None),
             ("water-between", "PWP", "predecessor-without-C-or-O"), ("ligand-between", "PLP", "predecessor-without-C-or-O"),
             ("no-O-between", "PXP", "predecessor-without-C-or-O"), ("first-residue-without-N", "APP", "first-residue-without-N")]


def ks_sentinel(kinds, sentinel):
    """md.kabsch_sander on a trajectory whose coordinate array is a view starting 3 floats into a larger buffer."""
    import mdtraj as md
    atoms, xyz, _nco, _ca = _mem_case(kinds)
    top = ks_topology(atoms)
    buf = np.zeros(3 + xyz.size, np.float32)
    buf[:3] = sentinel
    buf[3:] = xyz.ravel()
    t = md.Trajectory(buf[3:].reshape(1, -1, 3), top)
    shared = bool(np.shares_memory(t.xyz, buf))
    return md.kabsch_sander(t)[0].toarray(), shared


def ks_asan_lib(ctx_repo):
    """(so, libasan) or (None, reason); built once, before any thread is started."""
    import os
    import subprocess
    from vlib import build
    try:
        so = build.build_kernlib("hbseam", ctx_repo, "asan")
        libasan = subprocess.run(["gcc", "-print-file-name=libasan.so"], stdout=subprocess.PIPE, text=True).stdout.strip()
    except Exception as e:  # noqa: BLE001
        return None, str(e)[-300:]
    if not os.path.isabs(libasan) or not os.path.exists(libasan):
        return None, "libasan.so not found"
    return so, libasan


def ks_asan(lib, kinds, scratch):
    """(status, text): status 'ok' | 'asan' | 'unavailable' | 'error'."""
    import json
    import os
    import subprocess
    so, libasan = lib
    if so is None:
        return "unavailable", libasan
    _atoms, xyz, nco, ca = _mem_case(kinds)
    cf = os.path.join(scratch, "kscase-%s.json" % kinds)
    with open(cf, "w") as fh:
        json.dump(dict(xyz=[xyz.tolist()], nco=nco, ca=ca, pro=[0] * len(ca)), fh)
    env = dict(os.environ, LD_PRELOAD=libasan, ASAN_OPTIONS="detect_leaks=0")
    drv = os.path.join(os.path.dirname(os.path.abspath(hr.__file__)), "hbond_asan_driver.py")
    try:
        p = subprocess.run(["/venv/bin/python", drv, so, cf], env=env, stdout=subprocess.PIPE, stderr=subprocess.PIPE,
                           text=True, timeout=300)
    except subprocess.TimeoutExpired:
        return "error", "timeout"
    if "ERROR: AddressSanitizer" in p.stderr:
        lines = [ln.strip() for ln in p.stderr.splitlines()]
        head = [ln for ln in lines if "ERROR: AddressSanitizer" in ln][0]
        kind = head.split("AddressSanitizer:")[1].split()[0]
        frames = [ln.split(" in ", 1)[1] for ln in lines if ln.startswith("#") and "/geometry/src/" in ln][:2]
        return "asan", "%s %s" % (kind, "; ".join(frames))
    if p.returncode == 0 and "RESULT" in p.stdout:
        return "ok", ""
    return "error", (p.stderr or p.stdout)[-300:]


def run_memory_family(ctx_repo, scratch, only=None):
    """Returns (records, counts)."""
    from concurrent.futures import ThreadPoolExecutor
    recs, counts = [], dict(sentinel_cases=0, asan_cases=0, asan_available=True, sentinel_view_not_shared=0,
                             asan_harness_errors=[])
    cases = [c for c in MEM_CASES if only is None or c[0] == only]
    for name, kinds, cls in cases:
        a, sh1 = ks_sentinel(kinds, [-0.3, 1.2, 1.0])       # "atom -1" one nm on the -x side of the water oxygen
        b, sh2 = ks_sentinel(kinds, [1.7, 1.2, 1.0])        # ... on the +x side
        counts["sentinel_cases"] += 1
        if not (sh1 and sh2):
            counts["sentinel_view_not_shared"] += 1        # mdtraj copied the array: the test cannot see anything
        if not np.array_equal(a, b, equal_nan=True):
            recs.append(("kabsch_sander|depends-on-memory-before-xyz|%s" % (cls or name),
                         "residue list %s (%s): the result changes with the 3 floats stored in front of the coordinate array: "
                         "%s vs %s" % (kinds, name, a[a != 0].round(4).tolist(), b[b != 0].round(4).tolist()),
                         dict(family="ks-mem", case=name, sig="kabsch_sander|depends-on-memory-before-xyz|%s" % (cls or name))))
    lib = ks_asan_lib(ctx_repo)
    with ThreadPoolExecutor(6) as ex:
        outs = list(ex.map(lambda c: ks_asan(lib, c[1], scratch), cases))
    for (name, kinds, cls), (status, text) in zip(cases, outs):
        if status == "unavailable":
            counts["asan_available"] = False
            continue
        counts["asan_cases"] += 1
        if status == "asan":
            sig = "kabsch_sander|asan|read-before-xyz|%s" % (cls or name)
            recs.append((sig, "residue list %s (%s): AddressSanitizer: %s" % (kinds, name, text), dict(family="ks-mem", case=name, sig=sig)))
        elif status == "error":
            # a broken harness is a defect of the check / toolchain, not of mdtraj: no violation, no check error;
            # said so in the evidence (run() prints a WARNING)
            counts["asan_cases"] -= 1
            counts["asan_harness_errors"].append("%s: %s" % (name, text[-200:]))
    return recs, counts


# ------------------------------------------------------------------------------------------------------
# History layer: several topologies analysed back to back inside ONE process.
#
# The result of every call must be a function of ITS trajectory and arguments only.  The topologies of one family have
# identical layout (atom/residue/chain indices), identical bonds and identical residue names and differ only in the element
# or the name of the donor heavy atom, the hydrogen, the acceptor (so anything remembered between calls under a key that
# ignores elements / names shows up).  Sequences: [v, w] with two Topology objects (both orders occur, the neighbour
# relation is symmetric), and [v -> w -> v] on ONE Topology object edited in place (atom.element / atom.name / residue.name)
# and restored.  Every single result is compared with the brute-force reference of the topology it was computed for.

H_EL_D = ["O", "N", "C"]          # element of the side-chain donor heavy atom (SER "OG")
H_EL_H = ["H", "C"]               # element of the atom bonded to it ("HG")
H_EL_A = ["O", "N", "C"]          # element of the side-chain acceptor (ASN "OD1")
H_NM_A = ["OD1", "O"]             # its name: side chain / backbone name (matters for sidechain_only)
H_EL_X = ["N", "C"]               # element of the ligand atom carrying a hydrogen
H_AXES = ["donor-element", "hydrogen-element", "acceptor-element", "acceptor-name", "ligand-donor-element"]
H_IDX = dict(XG=6, HG=7, XD=15, X1=17)


def hist_variants():
    return [(d, h, a, na, x) for d in H_EL_D for h in H_EL_H for a in H_EL_A for na in H_NM_A for x in H_EL_X]


def hist_atoms(v, tag="C1"):
    """`tag` names a carbon that takes no part in anything: a unique tag per sequence makes its topologies unequal (under
    Topology.__eq__) to every topology analysed earlier in the process, while the layout/hash stays the same - so an entry
    remembered for an *object* cannot be masked by an older entry that happens to have the right content."""
    d, h, a, na, x = v
    ser = [("N", "N"), ("H", "H"), ("CA", "C"), ("C", "C"), ("O", "O"), ("CB", "C"), ("OG", d), ("HG", h)]
    asn = [("N", "N"), ("H", "H"), ("CA", "C"), ("C", "C"), ("O", "O"), ("CB", "C"), ("CG", "C"), (na, a)]
    lig = [(tag, "C"), ("X1", x), ("HX", "H"), ("O1", "O")]
    hoh = [("O", "O"), ("H1", "H"), ("H2", "H")]
    atoms = []
    for ri, (rn, ch, lst) in enumerate((("SER", 0, ser), ("ASN", 0, asn), ("LIG", 1, lig), ("HOH", 2, hoh))):
        atoms += [(nm, el, rn, ri, ch) for nm, el in lst]
    return atoms


H_BONDS = [(0, 1), (0, 2), (2, 3), (3, 4), (2, 5), (5, 6), (6, 7),
           (8, 9), (8, 10), (10, 11), (11, 12), (10, 13), (13, 14), (14, 15), (3, 8),
           (16, 17), (17, 18), (16, 19), (20, 21), (20, 22)]


def hist_xyz(seed):
    """One frame (plus a second, slightly displaced): three designed contacts, everything else >= 0.45 nm apart.
    site 1  SER XG-HG ... ASN XD      (r_HA 0.19, ~177 deg)
    site 2  LIG X1-HX ... SER O       (r_HA 0.195)
    site 3  ASN N-H   ... HOH O       (r_HA 0.20; control that never changes)"""
    jit = grids.jitter(23, 3, 0.01, seed)
    x = np.zeros((23, 3))
    for k in range(23):
        x[k] = [3.0 + 0.45 * (k % 6), 3.0 + 0.45 * (k // 6), 3.0]
    p1, p2, p3 = np.array([1.0, 1.0, 1.0]), np.array([2.0, 1.0, 1.0]), np.array([1.0, 2.0, 1.0])
    x[6], x[7], x[15] = p1, p1 + [0.1, 0, 0], p1 + [0.29, 0.01, 0]
    x[17], x[18], x[4] = p2, p2 + [0, 0.1, 0], p2 + [0, 0.295, 0.01]
    x[8], x[9], x[20] = p3, p3 + [0.1, 0, 0], p3 + [0.3, 0.005, 0]
    x[21], x[22] = x[20] + [0.06, 0.08, 0], x[20] + [0.06, -0.08, 0]
    x = x + jit
    return np.array([x, x + 0.003 * jit[::-1]], np.float32)


def _hist_ref(atoms, x64, ew, sc):
    tr = np.array(hr.hbond_triplets(atoms, H_BONDS, ew, sc, True), int).reshape(-1, 3)
    if len(tr) == 0:
        z = np.zeros(0, bool)
        return tr, z, z, np.zeros((x64.shape[0], 0), bool), np.zeros((x64.shape[0], 0), bool)
    g = hr.hbond_geometry(x64, tr, None)
    err = hr.err_model(x64, None)
    pb, ab, _n = hr.baker_hubbard_ref(g, 0.1, 0.25, 120.0, err)
    pw, aw = hr.wernet_nilsson_ref(g, err)
    return tr, pb, ab, pw, aw


def _hist_set_variant(top, v):
    """Edit a Topology object in place so that it describes variant v."""
    import mdtraj as md
    d, h, a, na, x = v
    at = list(top.atoms)
    at[H_IDX["XG"]].element = md.element.get_by_symbol(d)
    at[H_IDX["HG"]].element = md.element.get_by_symbol(h)
    at[H_IDX["XD"]].element = md.element.get_by_symbol(a)
    at[H_IDX["XD"]].name = na
    at[H_IDX["X1"]].element = md.element.get_by_symbol(x)


def hist_sequences(quick):
    """[(mode, [variants...], changed axis)]: every variant with each of its single-axis neighbours."""
    V = hist_variants()
    axes_vals = [H_EL_D, H_EL_H, H_EL_A, H_NM_A, H_EL_X]
    seqs = []
    for v in V:
        for ax, vals in enumerate(axes_vals):
            for val in vals:
                if val == v[ax]:
                    continue
                w = tuple(val if k == ax else v[k] for k in range(5))
                seqs.append(("two-objects", [v, w], H_AXES[ax]))
                seqs.append(("in-place", [v, w, v], H_AXES[ax]))
    if not quick:
        # all ordered pairs of variants (several axes changed at once), two objects
        for v in V:
            for w in V:
                if sum(a != b for a, b in zip(v, w)) >= 2:
                    seqs.append(("two-objects", [v, w], "several"))
    return seqs


def work_hist(item):
    """item = (item index, list of sequence indices): all sequences of the item run back to back in this process."""
    k, idxs = item
    stats, recs = _new_stats(), []
    run_hist_item(k, idxs, _CTX["seed"], _CTX["quick"], stats, recs)
    return recs, stats


def run_hist_item(k, idxs, seed, quick, stats, recs, upto=None):
    import mdtraj as md
    seqs = hist_sequences(quick)
    xyz = hist_xyz(seed)
    x64 = xyz.astype(np.float64)
    refs = {}

    def ref(v, ew, sc):
        key = (v, ew, sc)
        if key not in refs:
            refs[key] = _hist_ref(hist_atoms(v), x64, ew, sc)
        return refs[key]

    def rec(sig, detail, si):
        stats["nsig"][sig] = stats["nsig"].get(sig, 0) + 1
        if stats["nsig"][sig] <= 2:
            recs.append((sig, detail, dict(family="hist", item=k, idxs=list(idxs), upto=si, seed=seed, sig=sig)))

    def judge(fn, got, tr, pres, amb, mode, axis, step, v, si, flags, frame=None):
        stats["calls"] += 1
        stats["hist_calls"] += 1
        want, maybe = _set(tr[pres & ~amb]), _set(tr[amb])
        g = np.asarray(got)
        g = g.reshape(0, 3) if g.size == 0 else g
        gs = _set(g)
        for kind, bad in (("extra", gs - want - maybe), ("missing", want - gs)):
            if bad:
                t = sorted(bad)[0]
                at = hist_atoms(v)
                rec("history|%s|%s|%s|changed=%s" % (fn, kind, mode, axis),
                    "sequence #%d %s step %d (variant donor=%s hyd=%s acc=%s/%s ligand=%s) %s%s: %s %s %s; the reference for THIS "
                    "topology gives %s" % (si, mode, step, v[0], v[1], v[2], v[3], v[4], flags,
                                          "" if frame is None else " frame %d" % frame, kind, t, [at[i][:2] for i in t], sorted(want)), si)
        if len(gs) != len(g):
            rec("history|%s|duplicate-rows|%s|changed=%s" % (fn, mode, axis), "repeated rows", si)

    flagsets = [(True, False), (False, False), (True, True), (False, True)]
    for si in idxs:
        if upto is not None and si > upto:
            break
        mode, vs, axis = seqs[si]
        stats["hist_seqs"] += 1
        # the same flags for the whole sequence; wernet_nilsson right after baker_hubbard on the same object as well
        for fi_, (ew, sc) in enumerate(flagsets):
            tag = "C%dx%dx%d" % (k, si, fi_)
            steps = list(vs)
            if mode == "two-objects":
                tops = [make_md_topology(hist_atoms(v, tag), H_BONDS) for v in vs]
            else:
                # [v; edit to w; a copy() of the edited object; restore v]
                one = make_md_topology(hist_atoms(vs[0], tag), H_BONDS)
                steps = [vs[0], vs[1], vs[1], vs[2]]
                tops = [one, one, None, one]
            for step, v in enumerate(steps):
                if mode == "in-place":
                    if tops[step] is None:
                        tops[step] = one.copy()
                    else:
                        _hist_set_variant(tops[step], v)
                traj = md.Trajectory(xyz.copy(), tops[step])
                tr, pb, ab, pw, aw = ref(v, ew, sc)
                flags = "exclude_water=%s sidechain_only=%s" % (ew, sc)
                try:
                    got = md.baker_hubbard(traj, freq=0.1, exclude_water=ew, sidechain_only=sc)
                    judge("baker_hubbard", got, tr, pb, ab, mode, axis, step, v, si, flags)
                    gw = md.wernet_nilsson(traj, exclude_water=ew, sidechain_only=sc)
                    for f in range(xyz.shape[0]):
                        judge("wernet_nilsson", gw[f], tr, pw[f], aw[f], mode, axis, step, v, si, flags, frame=f)
                except Exception as e:  # noqa: BLE001
                    rec("history|exception|%s|%s" % (type(e).__name__, mode), "%s: %s (sequence #%d step %d %s)"
                        % (type(e).__name__, e, si, step, flags), si)
            if mode == "in-place":
                _hist_set_variant(tops[0], vs[0])


# Kabsch-Sander depends on atom names (N, CA, C, O) and the residue name PRO: same kind of history

KSH_EDITS = [("base", None)] + \
    [("%s %s renamed" % (rn, nm), ("atom", r, nm, nm + "X")) for r, rn in (("D", "donor"), ("A", "acceptor")) for nm in ("N", "CA", "C", "O")] + \
    [("acceptor O named OT1", ("atom", "A", "O", "OT1")), ("donor residue named PRO", ("res", "D", "PRO"))]


def _ksh_base(seed):
    b = KSBuilder()
    rots = grids.generic_rotations(4, seed)
    ids = []
    for k in range(2):
        a1, a2, phi = np.pi, np.radians(150.0 + 30 * k), 0.8 * k
        root = ks_root(a1, a2, phi) or 0.2
        ids.append(ks_unit(b, np.array([0.8 + 1.4 * k, 0.8, 0.8]), rots[k], "ALA", root * 0.7, a1, a2, phi, acc_first=(k == 1)))
    b.add_other("HOH", 9, [("OW", "O", [3.0, 3.0, 3.0])])      # carries the per-sequence tag (its name matters to nothing)
    return b.atoms, np.array([b.xyz], np.float32), ids[0]


def _ksh_apply(atoms, ids, edit, tag="OW"):
    """atoms list (plain data) of the edited topology."""
    out = []
    for (nm, el, rn, ri, ch) in atoms:
        if edit is not None and edit[0] == "atom" and ri == ids[edit[1]] and nm == edit[2]:
            nm = edit[3]
        if edit is not None and edit[0] == "res" and ri == ids[edit[1]]:
            rn = edit[2]
        if nm == "OW":
            nm = tag
        out.append((nm, el, rn, ri, ch))
    return out


def _ksh_res(atoms):
    res = {}
    for i, (nm, _el, rn, ri, ch) in enumerate(atoms):
        d = res.setdefault(ri, dict(name=rn, chain=ch, N=-1, CA=-1, C=-1, O=-1))
        if nm in ("N", "CA", "C", "O") and d[nm] < 0:
            d[nm] = i
    return [res[k] for k in sorted(res)]


def ksh_sequences():
    """(mode, steps, label).  A step is an edit (None = base) or "copy" (= Topology.copy() of the object as it is now).
    In-place sequences come first and every sequence carries its own tag, so nothing analysed earlier in the process has the
    same content as any of its states."""
    seqs = []
    for name, ed in KSH_EDITS[1:]:
        seqs.append(("in-place", [None, ed, "copy"], name))                       # break a residue, then copy
        seqs.append(("in-place", [ed, None, "copy"], name + " (repaired)"))       # the reverse: repair it, then copy
        seqs.append(("in-place", [None, ed, None], name + " (and restored)"))
    for name, ed in KSH_EDITS[1:]:
        seqs.append(("two-objects", [None, ed], name))
        seqs.append(("two-objects", [ed, None], name + " (reverse order)"))
    return seqs


def run_ks_history(seed, stats, recs, only=None):
    """Every call is judged against the float64 reference of the topology as it is at that moment (own name bookkeeping,
    nothing read back from mdtraj)."""
    atoms0, xyz, ids = _ksh_base(seed)
    for qi, (mode, steps, name) in enumerate(ksh_sequences()):
        if only is not None and qi != only:
            continue
        stats["hist_seqs"] += 1
        tag = "W%d" % qi
        one = None
        atoms = None
        for step, ed in enumerate(steps):
            if ed == "copy":
                top = one.copy()                       # atoms: unchanged, the copy describes the current state
                what = "copy() of the edited object"
            else:
                atoms = _ksh_apply(atoms0, ids, ed, tag)
                what = "base" if ed is None else "edited"
                if mode == "in-place":
                    if one is None:
                        one = ks_topology(atoms)
                    else:
                        for a_obj, (nm, _el, rn, _ri, _ch) in zip(one.atoms, atoms):
                            a_obj.name = nm
                            a_obj.residue.name = rn
                    top = one
                else:
                    top = ks_topology(atoms)
            sub = []
            st2 = _new_stats()
            judge_ks("history:%s" % name, atoms, xyz, _ksh_res(atoms), 0, 1, st2, sub, top=top)
            stats["ks_calls"] += 1
            stats["hist_calls"] += 1
            stats["calls"] += 0
            for sig, detail, _rp in sub:
                s2 = "history|%s|%s|step=%s|%s" % (sig, mode, "copy" if ed == "copy" else ("first" if step == 0 else "after-edit"),
                                                  name.split(" (")[0].replace(" ", "-"))
                stats["nsig"][s2] = stats["nsig"].get(s2, 0) + 1
                if stats["nsig"][s2] <= 2:
                    recs.append((s2, "sequence #%d '%s' %s, step %d (%s): %s" % (qi, name, mode, step, what, detail),
                                 dict(family="hist-ks", upto=qi, seed=seed, sig=s2)))


def run(ctx):
    _CTX.update(seed=ctx.seed, quick=ctx.quick)
    topo()
    quick = ctx.quick
    cuts = [(0.25, 120.0), (0.3, 150.0), (0.2, 90.0)] if quick else \
        [(d, a) for d in (0.25, 0.3, 0.2) for a in (120.0, 150.0, 90.0)]
    items = []
    pats4 = _patterns(4)
    pats2 = _patterns(2)
    for cut in cuts:
        G = len(bh_grid(*cut))
        default = cut == (0.25, 120.0)
        for p in (pats4 if (default or not quick) else pats2):
            for gi in range(G):
                items.append(("bh", cut, p, gi, None))
        if default or not quick:
            for c in cells(quick or not default):      # thorough: 4 cells at the default cut-offs, 2 at the others
                for p in pats2:
                    for gi in range(G):
                        items.append(("bh", cut, p, gi, c["name"]))
    # cell shape changing along the trajectory (rectangular <-> sheared), 2- and 3-frame patterns, every 3rd grid offset
    G0 = len(bh_grid(0.25, 120.0))
    for cn in ("cubic3>mono110", "mono110>cubic3", "ortho234>tric_75_100_115"):
        for p in [q for q in _patterns(2 if quick else 3) if len(q) >= 2]:
            for gi in range(0, G0, 5 if quick else 1):
                items.append(("bh", (0.25, 120.0), p, gi, cn))
    Gw = len(wn_grid())
    for cn in ("cubic3>mono110", "mono110>cubic3"):
        for p in pats2[1:]:
            for gi in range(0, Gw, 5 if quick else 1):
                items.append(("wn", (0.25, 120.0), p, gi, cn))
    for p in _patterns(3):
        for gi in range(Gw):
            items.append(("wn", (0.25, 120.0), p, gi, None))
    for c in cells(quick):
        for p in (pats2[:2] + pats2[-1:] if quick else pats2):
            for gi in range(Gw):
                items.append(("wn", (0.25, 120.0), p, gi, c["name"]))
    res = ctx.pmap(work_bhwn, items, chunksize=8)
    # Kabsch-Sander
    _CTX["ks"] = ks_frames(ctx.seed, quick)
    kitems = []
    for idx, (label, atoms, xyz, r) in enumerate(_CTX["ks"]):
        F = xyz.shape[0]
        for L in (1, 2, 3):
            for a in range(0, F - L + 1):
                kitems.append((idx, a, a + L))
    kres = ctx.pmap(work_ks, kitems, chunksize=2)
    # history layer: every item is one process analysing its sequences back to back
    nseq = len(hist_sequences(quick))
    nitem = 16
    hitems = [(k, list(range(k, nseq, nitem))) for k in range(nitem)]
    hres = list(ctx.pmap(work_hist, hitems, chunksize=1))
    hst, hrecs = _new_stats(), []
    run_ks_history(ctx.seed, hst, hrecs)
    hres.append((hrecs, hst))
    mrecs, mcounts = run_memory_family(ctx.repo, ctx.scratch)
    ctx.report(mrecs)
    if mcounts["asan_harness_errors"]:
        print("WARNING ASan kernel-seam harness failed on %d case(s); memory check incomplete" % len(mcounts["asan_harness_errors"]))
        ctx.assume("the AddressSanitizer harness (vlib/kern/hbseam.cpp) failed to run for: %s" % "; ".join(mcounts["asan_harness_errors"]))
    if not mcounts["asan_available"]:
        ctx.assume("AddressSanitizer runtime not available: the kernel-seam memory check was skipped")
    tot = _new_stats()
    for recs, st in list(res) + list(kres) + hres:
        ctx.report(recs)
        for k, v in st.items():
            if k == "site_out":
                for kk, vv in v.items():
                    o = tot[k].setdefault(kk, [0, 0, 0])
                    for q in range(3):
                        o[q] += vv[q]
            elif isinstance(v, dict):
                for kk, vv in v.items():
                    tot[k][kk] = tot[k].get(kk, 0) + vv
            elif k == "ks_err":
                tot[k] = max(tot[k], v)
            else:
                tot[k] += v
    T = topo()
    cov = {
        "evaluations": tot["calls"] + tot["ks_calls"] + 2 * mcounts["sentinel_cases"] + mcounts["asan_cases"],
        "ks_memory_cases": {"residue_lists": [c[1] for c in MEM_CASES], **mcounts},
        "distinct_nontrivial": tot["trajs"] + len(kitems) + tot["hist_seqs"],
        "rule": "one evaluation = one call of baker_hubbard / one frame of a wernet_nilsson call / one kabsch_sander call whose "
                "complete result set is compared with the float64 oracle; distinct non-trivial = distinct trajectories "
                "(family, cut-offs, k-of-n pattern, grid offset, cell) resp. distinct Kabsch-Sander frame windows; every one "
                "carries at least one donor-acceptor pair on a threshold ladder by construction",
        "samples": [dict(family=i[0], cutoffs=i[1], frame_pattern=i[2], grid_offset=i[3], cell=i[4]) for i in
                    (items[0], items[len(items) // 2], items[-1])] +
                   [dict(family="ks", structure=_CTX["ks"][k[0]][0], frames=[k[1], k[2]]) for k in kitems[:1]],
        "exhaustive": True,
        "history_layer": {"sequences": tot["hist_seqs"], "calls_judged": tot["hist_calls"], "variants": len(hist_variants()),
                          "axes": H_AXES, "modes": ["two-objects [v,w]", "in-place [v -> w -> copy() -> v]", "ks: [base,edit,copy] [edited,repair,copy] [base,edit,base] two-objects both orders"], "processes": nitem,
                          "kabsch_sander_edits": [e[0] for e in KSH_EDITS[1:]]},
        "trajectories_bh_wn": tot["trajs"], "ks_windows": len(kitems), "ks_calls": tot["ks_calls"],
        "ks_donor_acceptor_pairs_evaluated": tot["ks_pairs"], "ks_bonds_required": tot["ks_bonds"], "ks_donors_with_three_or_more_candidates": tot["ks_three_plus"],
        "ks_excluded_within_margin": tot["ks_excl"], "ks_not_judged": tot["ks_notjudged"],
        "triplets_required_present": tot["judged_present"],
        "designed_site_triplet_outcomes_present_absent_margin": tot["site_out"],
        "excluded_triplets_within_margin": tot["excluded"], "ambiguous_triplet_frames": tot["amb_frames"],
        "max_err_over_tol": tot["ks_err"],
        "max_err_over_tol_note": "Kabsch-Sander energy values against the float32 error model; the set comparisons are exact",
        "axes": {"freq": FREQS, "cutoffs": [list(c) for c in cuts], "ladder": LADDER, "patterns_k_of_n": len(pats4),
                 "bh_grid_points": len(bh_grid(0.25, 120.0)), "wn_grid_points": Gw, "sites": [s["label"] for s in T["sites"]],
                 "cells": [c["name"] for c in cells(quick)], "exclude_water": [True, False], "sidechain_only": [False, True],
                 "periodic": [True, False]},
        "topology": {"atoms": len(T["atoms"]), "residues": 2 * len(SITES), "bonds": len(T["bonds"]),
                     "candidate_triplets_all": int(len(T[("trip", False, False, False)]))},
    }
    return "exploration", cov


def _replay_hist(arg):
    rep, quick = arg
    stats, recs = _new_stats(), []
    if rep["family"] == "hist":
        run_hist_item(rep["item"], rep["idxs"], rep["seed"], quick, stats, recs, upto=rep["upto"])
    else:
        run_ks_history(rep["seed"], stats, recs, only=rep["upto"])
    return recs


def _in_child(fn, arg):
    import multiprocessing as mp
    with mp.get_context("fork").Pool(1) as pool:
        return pool.apply(fn, (arg,))


def replay(ctx, rep):
    _CTX.update(seed=rep.get("seed", ctx.seed), quick=ctx.quick)
    outs = []
    for _ in range(2):
        stats, recs = _new_stats(), []
        if rep["family"] == "ks-mem":
            r2, _c = run_memory_family(ctx.repo, ctx.scratch, only=rep["case"])
            recs += r2
        elif rep["family"] in ("hist", "hist-ks"):
            # a history is only the same history in a process that has not analysed anything yet: each repetition runs in
            # a freshly fork()ed child of this (pristine) process
            recs += _in_child(_replay_hist, (rep, ctx.quick))
        elif rep["family"] == "ks":
            atoms = [tuple(a) for a in rep["atoms"]]
            xyz = np.array(rep["xyz"], np.float32)
            judge_ks(rep["label"], atoms, xyz, rep["res"], 0, xyz.shape[0], stats, recs)
        else:
            run_bhwn_item(rep["family"], tuple(rep["cut"]), rep["pattern"], rep["gi"], rep["cell"], rep["seed"], ctx.quick,
                          stats, recs, only_call=rep.get("call"))
        outs.append(sorted(r[1] for r in recs if r[0] == rep["sig"]))
    assert outs[0] == outs[1], "replay is not deterministic"
    for d in outs[0][:3]:
        print("replay:", d[:400])
    return len(outs[0]) == 0
