"""C13 -- solvent-accessible areas are correct, additive and selection-independent.

Complete enumeration of the product
    structures x n_sphere_points x probe_radius x change_radii x mode x atom_indices subsets x frame windows
where every structure carries F >= 3 frames of different coordinates and every contiguous window of
1..3 frames is one call.  Oracles (vlib/refmodels/sasa_ref.py, float64, no mdtraj):
  * the golden-spiral point set re-derived from the formula and compared with the kernel's own set
    (kernel seam vlib/kern/sasaseam.cpp);
  * exact accessible-point count per atom on that set (points within 1e-5 nm of a neighbour surface
    are not judged: the kernel's count must lie in [acc, acc+amb]);
  * isolated atom 4 pi (r+p)^2; two spheres: analytic cap removal within the measured spiral
    discrepancy bound 1/sqrt(n);
  * residue mode = sum of atom mode over the residue's selected atoms; subset independence; -1 for
    unselected atoms / residues without a selected atom (the docstring documents -1);
  * a window of several frames = the frames computed alone.
"""
import itertools
import os

import numpy as np

from vlib import grids
from vlib.refmodels import sasa_ref as sr

MANIFEST = {
    "category": "exploration",
    "engine": "gridx",
    "technique": "exhaustive product of designed structures and options against an exact float64 Shrake-Rupley "
                 "point-count oracle on the re-derived spiral point set",
    "text": "Every member of {isolated atom of each of the 113 elements mdtraj knows from the radii table; two "
            "spheres (3 element pairs x axis directions) at 12 separations from concentric-ish to apart; three "
            "spheres in 6 arrangements; a 5-atom cluster; a hand-built 13-atom dipeptide; a 32-atom fragment of "
            "tests/data/2EQQ.pdb (4 NMR models); 'late big atom' residue-mode structures ([H,I], [H,H,S,I] in one residue, two "
            "residues of [H,H,H,Br]: the largest-radius element only after the first n_residues atoms) with the small-big pair "
            "separated along each signed coordinate axis (+ one generic direction) by 2r_s+2p+f(r_b-r_s), f in "
            "{-0.1,.05,.25,.5,.75,.95,1.1} per probe, single-frame windows} x n_sphere_points {1,2,10,24,100,960} x probe {0,0.14,0.3} x "
            "change_radii {None,{C:0.2},{C:0.26}} x mode {atom,residue} x atom_indices (ALL subsets incl. empty and None for "
            "<= 5 atoms plus unsorted / descending / shuffled lists, a menu above that incl. unsorted lists whose last-first+1 equals "
            "their length without being that block) x every contiguous window of 1..3 frames (quick: 2 axis directions; "
            "thorough: 6 directions, the extra pairs Fr-Li and S-H, and 3 rotated copies of every multi-atom structure).  Each call of md.shrake_rupley is compared with an independent "
            "float64 evaluation on the same point set: exact accessible-point count per atom (area compared under a "
            "16 eps32 4piR^2 model), analytic 4pi(r+p)^2 and two-sphere cap area within the measured 1/sqrt(n) spiral "
            "discrepancy, residue sums, subset independence and -1 marking, multi-frame == per-frame alone. The "
            "property is a statement about a numeric kernel's output on all small inputs; a complete product of "
            "small designed inputs with an exact discrete oracle decides it on that space.",
    "note": "Trusted: numpy float64; the radii table of sasa.py is taken as the documented table (8 common elements "
            "are anchored to Bondi/Mantina literature values). Coordinates stay below 4 nm so that float32 rounding "
            "(<1e-6 nm) is far inside the 1e-5 nm exclusion margin. Runs with OMP_NUM_THREADS=1 (thread schedules are "
            "C08's subject). Coincident atoms are outside the property. get_mapping is only checked for shape/content.",
    "ref": "DESIGN.md §3 C13, §2.4",
}

N_POINTS = [1, 2, 10, 24, 100, 960]
PROBES = [0.0, 0.14, 0.3]
CHANGE_RADII = [None, {"C": 0.2}, {"C": 0.26}]   # two overrides of the SAME symbol: a cache keyed on the symbols alone is exposed
MODES = ["atom", "residue"]
SEPARATIONS = [0.01, 0.03, 0.06, 0.1, 0.15, 0.2, 0.28, 0.34, 0.45, 0.62, 0.95, 1.3]
C_TOL = 16           # |dA| <= C_TOL * eps32 * 4 pi R^2 per atom (count*const*R*R in float32: <= 8 roundings)

def _live_table(ctx=None):
    """The documented radii table: sasa.py's own dict; if that private name is gone, the snapshot in sasa_ref."""
    try:
        from mdtraj.geometry.sasa import _ATOMIC_RADII
        return dict(_ATOMIC_RADII)
    except Exception:  # noqa: BLE001
        if ctx is not None:
            print("WARNING mdtraj.geometry.sasa._ATOMIC_RADII not importable; using the snapshot of the documented table")
            ctx.assume("radii table taken from the snapshot in vlib/refmodels/sasa_ref.py (private name _ATOMIC_RADII not importable)")
        return dict(sr.TABLE_SNAPSHOT)


_STRUCTS = []        # filled by the parent before fork
_TABLE = {}
_PTS = {}


# --------------------------------------------------------------------------------------------------
# structures

def _struct(name, kind, atoms, resnames, frames, subsets, maxwin=3, design=None):
    return dict(name=name, kind=kind, atoms=atoms, resnames=resnames,
                frames=np.asarray(frames, np.float64).astype(np.float32), subsets=subsets, maxwin=maxwin, design=design)


def _all_subsets(n):
    out = [None]
    for k in range(0, n + 1):
        for c in itertools.combinations(range(n), k):
            out.append(list(c))
    return out


def _unsorted_small(n):
    """Order matters to nothing in the documentation: unsorted selections of small structures."""
    u = [[0, 4, 2], [1, 4, 3], [4, 3, 2, 1, 0], [2, 1, 3], [4, 0], [3, 0, 1], [2, 0], [1, 0], [2, 0, 1], [0, 2, 1]]
    out = []
    for x in u:
        if max(x) < n and x not in out:
            out.append(x)
    return out


def _menu_subsets(atoms):
    n = len(atoms)
    res = [a[2] for a in atoms]
    heavy = [i for i, a in enumerate(atoms) if a[1] != "H"]
    m = [None, [], [0], [n - 1], list(range(n)), list(range(0, n, 2)), heavy, list(range(1, n)),
         [i for i in range(n) if res[i] == 0], [i for i in range(n) if res[i] == max(res)],
         [i for i in range(n) if res[i] == 0][-2:] + [i for i in range(n) if res[i] == 1][:2]]
    # unsorted lists: last-first+1 == len although the set is not that contiguous block; descending; shuffled blocks
    m += [u for u in ([0, 5, 2], [3, 12, 7, 6], [10, 17, 3, 13], [8, 21, 1, 11], [4, 2, 3], [6, 9, 8, 7], list(range(n - 1, -1, -1)),
                      [n - 1, 0], [5, 1, 9, 2, 7]) if max(u) < n]
    seen, out = set(), []
    for s in m:
        k = None if s is None else tuple(s)
        if k not in seen:
            seen.add(k)
            out.append(s)
    return out


def _unit(v):
    v = np.asarray(v, float)
    return v / np.linalg.norm(v)


def build_structures(ctx):
    import mdtraj as md
    _ATOMIC_RADII = _live_table()
    seed, quick = ctx.seed, ctx.quick
    S = []
    missing = []
    # A. isolated atoms, one structure per element of the table; 3 frames = 3 positions
    jit = grids.jitter(8, 3, 1.0, seed)
    for sym in _ATOMIC_RADII:
        try:
            md.element.get_by_symbol(sym)
        except KeyError:
            missing.append(sym)
            continue
        fr = [[(1.0 + jit[k])] for k in range(3)]
        S.append(_struct("iso-" + sym, "isolated", [("X", sym, 0)], ["UNK"], fr, [None, [0], []]))
    # B. two spheres: pairs x directions; the 12 separations are the frames
    rots = grids.generic_rotations(6, seed)
    dirs = [np.array([1.0, 0, 0]), rots[0] @ _unit([1, 1, 1])] if quick else \
        [np.array([1.0, 0, 0]), np.array([0, 1.0, 0]), np.array([0, 0, -1.0])] + [r @ _unit([1, 1, 1]) for r in rots[:3]]
    pairs = [("C", "C", True), ("C", "H", False), ("O", "N", False)]
    if not quick:
        pairs += [("Fr", "Li", False), ("S", "H", True)]
    for (e1, e2, same_res) in pairs:
        for di, u in enumerate(dirs):
            org = 1.5 + jit[3 + di % 4] * 0.5
            fr = [[org, org + s * u] for s in SEPARATIONS]
            atoms = [("A1", e1, 0), ("A2", e2, 0 if same_res else 1)]
            S.append(_struct("two-%s%s-d%d" % (e1, e2, di), "two", atoms, ["UNK", "UNK"][:1 if same_res else 2], fr,
                             _all_subsets(2)))
    # C. three spheres, 6 arrangements = 6 frames; atoms 0,1 in residue 0, atom 2 in residue 1
    j3 = grids.jitter(18, 3, 0.004, seed).reshape(6, 3, 3)
    arr = [
        [[0, 0, 0], [0.25, 0, 0], [0.125, 0.2165, 0]],           # equilateral, mutually overlapping
        [[0, 0, 0], [0.3, 0, 0], [0.6, 0, 0]],                   # linear chain
        [[0, 0, 0], [0.05, 0, 0], [-0.05, 0.02, 0]],             # tight cluster: small ones buried
        [[0, 0, 0], [0.2, 0, 0], [1.4, 0.9, 0.3]],               # pair + isolated
        [[0, 0, 0], [1.3, 0, 0], [0, 1.3, 0]],                   # all apart
        [[0, 0, 0], [0.15, 0.1, 0.05], [0.1, -0.12, 0.2]],       # generic
    ]
    for els in (("C", "N", "O"), ("S", "H", "C")):
        fr = [np.array(a) + 1.2 + j3[k] for k, a in enumerate(arr)]
        atoms = [("A1", els[0], 0), ("A2", els[1], 0), ("A3", els[2], 1)]
        S.append(_struct("three-" + "".join(els), "three", atoms, ["UNK", "UNK"], fr, _all_subsets(3) + _unsorted_small(3)))
    # C'. five-atom cluster (formamide-like O=C(H)-N(H)...), 2 residues, all 33 selections
    base5 = np.array([[0, 0, 0], [0.122, 0, 0], [-0.055, -0.093, 0], [-0.06, 0.118, 0], [-0.16, 0.12, 0.01]]) + 0.9
    j5 = grids.jitter(20, 3, 0.03, seed).reshape(4, 5, 3)
    # (atoms of a residue are contiguous: Topology.atoms iterates residue by residue)
    S.append(_struct("five", "small", [("C", "C", 0), ("O", "O", 0), ("H1", "H", 0), ("N", "N", 1), ("H2", "H", 1)],
                     ["UNK", "UNK"], [base5 + j5[k] for k in range(4)], _all_subsets(5) + _unsorted_small(5)))
    # D. hand-built dipeptide-like molecule ALA-GLY(+OXT), 13 atoms
    dip = [("N", "N", 0, (0.000, 0.000, 0.000)), ("H", "H", 0, (-0.033, -0.094, 0.000)),
           ("CA", "C", 0, (0.145, 0.000, 0.000)), ("HA", "H", 0, (0.181, -0.051, 0.089)),
           ("CB", "C", 0, (0.198, -0.077, -0.121)), ("C", "C", 0, (0.201, 0.142, 0.000)),
           ("O", "O", 0, (0.129, 0.241, 0.000)), ("N", "N", 1, (0.334, 0.152, 0.000)),
           ("H", "H", 1, (0.389, 0.068, 0.000)), ("CA", "C", 1, (0.401, 0.281, 0.000)),
           ("C", "C", 1, (0.552, 0.262, 0.000)), ("O", "O", 1, (0.603, 0.150, 0.000)),
           ("OXT", "O", 1, (0.621, 0.368, 0.000))]
    dxyz = np.array([d[3] for d in dip]) + 0.8
    jd = grids.jitter(4 * 13, 3, 0.04, seed).reshape(4, 13, 3)
    datoms = [(d[0], d[1], d[2]) for d in dip]
    S.append(_struct("dipeptide", "molecule", datoms, ["ALA", "GLY"], [dxyz + jd[k] for k in range(4)],
                     _menu_subsets(datoms)))
    # E. 32-atom fragment of tests/data/2EQQ.pdb (GLU1, ASN2 complete, N of PHE3), NMR models 0..3
    t = md.load(os.path.join(ctx.repo, "tests/data/2EQQ.pdb"))
    fatoms = [(a.name, a.element.symbol, a.residue.index) for a in list(t.top.atoms)[:32]]
    fx = t.xyz[:4, :32].astype(np.float64)
    fx = fx - fx.mean(axis=(0, 1)) + 1.5
    S.append(_struct("frag-2EQQ", "molecule", fatoms, [r.name for r in list(t.top.residues)[:3]], fx,
                     _menu_subsets(fatoms)))
    # F. "late big atom" structures for residue mode: few residues, many atoms, and the element with the largest radius
    # occurs only AFTER the first n_residues atoms in atom order.  Small atom s and big atom b are separated along one
    # coordinate axis by 2 r_s + 2 p + f (r_b - r_s): for 0 < f < 1 that lies between (R_s + largest radius among the first
    # n_residues atoms) and (R_s + R_b), i.e. the big atom still buries points of the small one although it is further
    # away along that axis than any pair of "leading" atoms could reach.  One ladder of f per probe radius; every signed
    # axis direction (and a generic one).  Single-frame windows only (the multi-frame relation is covered above).
    FL = [-0.1, 0.05, 0.25, 0.5, 0.75, 0.95, 1.1]
    design = [(p, f) for p in PROBES for f in FL]
    T = _ATOMIC_RADII

    def sep(small, big, p, f):
        return 2 * T[small] + 2 * p + f * (T[big] - T[small])
    axes = [np.array(a, float) for a in ([1, 0, 0], [-1, 0, 0], [0, 1, 0], [0, -1, 0], [0, 0, 1], [0, 0, -1])]
    axes.append(rots[1] @ _unit([1, 0.1, 0.05]))
    for ai, u in enumerate(axes):
        v = _unit(np.cross(u, [0.3, 0.5, 0.8]))
        w = np.cross(u, v)
        o = np.array([1.6, 1.6, 1.6])
        # [H, I] in one residue
        S.append(_struct("late-HI-a%d" % ai, "latebig", [("H1", "H", 0), ("I1", "I", 0)], ["UNK"],
                         [[o, o + sep("H", "I", p, f) * u] for p, f in design], _all_subsets(2), maxwin=1, design=design))
        if ai % 2 == 0 or not quick:
            # [H, H, S, I] in one residue: H0..S along +u, H1..I along -u
            S.append(_struct("late-HHSI-a%d" % ai, "latebig", [("H1", "H", 0), ("H2", "H", 0), ("S1", "S", 0), ("I1", "I", 0)], ["UNK"],
                             [[o, o + 1.3 * v, o + sep("H", "S", p, f) * u, o + 1.3 * v - sep("H", "I", p, f) * u] for p, f in design],
                             [None, [0, 1], [0, 1, 2, 3], [1, 3], []], maxwin=1, design=design))
        if ai % 2 == 1 or not quick:
            # two residues of [H, H, H, Br]: n_residues = 2, both leading atoms are H
            at = [("H1", "H", 0), ("H2", "H", 0), ("H3", "H", 0), ("BR", "Br", 0), ("H1", "H", 1), ("H2", "H", 1), ("H3", "H", 1), ("BR", "Br", 1)]
            fr = []
            for p, f in design:
                s_ = sep("H", "Br", p, f)
                a0 = o - 0.6 * w
                b0 = o + 0.7 * w
                fr.append([a0, a0 + 1.25 * v, a0 - 1.25 * v, a0 + s_ * u,
                           b0, b0 + 1.25 * v, b0 - 1.25 * v, b0 - 1.25 * v - s_ * u])
            S.append(_struct("late-HHHBr2-a%d" % ai, "latebig", at, ["UNK", "UNK"], fr,
                             [None, [0, 3], [4, 5, 6], [0, 1, 2, 4, 5, 6], list(range(8))], maxwin=1, design=design))
    if not quick:
        # rotated copies of the multi-atom structures about their centroid: the point set is fixed in the
        # laboratory frame, so a rotated molecule buries different points
        for st in [x for x in S if x["kind"] in ("three", "small", "molecule")]:
            for ri, rot in enumerate(grids.generic_rotations(3, seed + 11)):
                fr = st["frames"].astype(np.float64)
                c = fr.mean(axis=1, keepdims=True)
                S.append(_struct("%s-rot%d" % (st["name"], ri), st["kind"], st["atoms"], st["resnames"],
                                 (fr - c) @ rot.T + c, st["subsets"]))
    return S, missing


def make_traj(st, a, b):
    import mdtraj as md
    top = st.get("_top")
    if top is None:
        top = md.Topology()
        ch = top.add_chain()
        res = [top.add_residue(rn, ch) for rn in st["resnames"]]
        for name, sym, ri in st["atoms"]:
            top.add_atom(name, md.element.get_by_symbol(sym), res[ri])
        st["_top"] = top
    return md.Trajectory(st["frames"][a:b].copy(), top)


# --------------------------------------------------------------------------------------------------
# one work item = (structure, n_points, probe, change_radii): all modes x subsets x windows

def _pts(n):
    if n not in _PTS:
        _PTS[n] = sr.sasa_sphere_points(n)
    return _PTS[n]


def _radii(st, probe, cr):
    tab = dict(_TABLE)
    if cr:
        tab.update(cr)
    return np.array([tab[a[1]] for a in st["atoms"]], np.float64) + probe


def _sub_key(s):
    return "None" if s is None else ",".join(map(str, s))


def check_config(st, n, probe, cr, only_sig=None):
    """Returns (records, stats).  records: (sig, detail, replay)."""
    import mdtraj as md
    recs = []
    stats = dict(calls=0, nontrivial=0, excl_points=0, excl_atoms=0, err_area=0.0, err_res=0.0, err_multi=0.0,
                 err_analytic=0.0, err_analytic_n=0.0, shell_cases=0, suppressed_duplicates=0, bitexact_multi=0, multi_cmp=0, partial_atoms=0, sample=None)
    atoms = st["atoms"]
    na = len(atoms)
    F = st["frames"].shape[0]
    R = _radii(st, probe, cr)
    pts = _pts(n)
    resof = np.array([a[2] for a in atoms])
    nres = len(st["resnames"])
    full = 4 * np.pi * R ** 2
    tol_a = C_TOL * sr.EPS32 * full

    nsig = {}

    def rec(sig, detail, extra):
        nsig[sig] = nsig.get(sig, 0) + 1
        if nsig[sig] > 2:            # at most 2 records per signature and work item (the rest are counted)
            stats["suppressed_duplicates"] += 1
            return
        rp = dict(struct=dict(name=st["name"], kind=st["kind"], atoms=atoms, resnames=st["resnames"],
                              frames=st["frames"].tolist()),
                  n=n, probe=probe, change_radii=cr, sig=sig)
        rp.update(extra)
        recs.append((sig, "%s n=%d probe=%g change_radii=%s %s: %s" % (st["name"], n, probe, cr, extra, detail), rp))

    def call(a, b, mode, sub):
        stats["calls"] += 1
        return md.shrake_rupley(make_traj(st, a, b), probe_radius=probe, n_sphere_points=n, mode=mode,
                                change_radii=cr, atom_indices=sub)

    # oracle per frame
    acc = np.zeros((F, na), int)
    amb = np.zeros((F, na), int)
    for f in range(F):
        acc[f], amb[f] = sr.sasa_counts(st["frames"][f].astype(np.float64), R, pts)
    stats["excl_points"] = int(amb.sum())
    stats["excl_atoms"] = int((amb > 0).sum())
    stats["partial_atoms"] = int(((acc > 0) & (acc + amb < n)).sum())
    lo = sr.sasa_area(acc, R, n) - tol_a
    hi = sr.sasa_area(acc + amb, R, n) + tol_a

    alone = {}
    # ---- single-frame calls ---------------------------------------------------------------------
    for f in range(F):
        try:
            B = call(f, f + 1, "atom", None)
        except Exception as e:  # noqa: BLE001
            rec("sasa|exception|atom|all", "%s: %s" % (type(e).__name__, e), dict(window=[f, f + 1]))
            continue
        if B.shape != (1, na) or B.dtype != np.float32:
            rec("sasa|shape|atom", "shape %s dtype %s" % (B.shape, B.dtype), dict(window=[f, f + 1]))
            continue
        B = B[0].astype(np.float64)
        alone[(f, "atom", "None")] = B
        bad = (B < lo[f]) | (B > hi[f]) | ~np.isfinite(B)
        ex = np.where(amb[f] == 0, np.abs(B - sr.sasa_area(acc[f], R, n)) / tol_a, 0.0)
        if not bad.any():
            stats["err_area"] = max(stats["err_area"], float(ex.max()))
        if bad.any():
            i = int(np.argmax(bad))
            cnt = B[i] / full[i] * n
            kind = "isolated" if st["kind"] == "isolated" else "count"
            rec("sasa|%s|atom|single-frame" % kind,
                "atom %d (%s): area %.9g = %.4f points, oracle count %d (+%d within margin) of %d, R=%.4f"
                % (i, atoms[i][1], B[i], cnt, acc[f, i], amb[f, i], n, R[i]), dict(window=[f, f + 1], mode="atom", subset=None))
        # analytic anchors
        if st["kind"] == "isolated":
            want = 4 * np.pi * (_TABLE_DOC(atoms[0][1], cr) + probe) ** 2
            e = abs(B[0] - want) / (C_TOL * sr.EPS32 * want)
            stats["err_analytic"] = max(stats["err_analytic"], e)
            if e > 1:
                rec("sasa|isolated|analytic", "area %.9g, 4pi(r+p)^2 = %.9g" % (B[0], want), dict(window=[f, f + 1]))
        if st["kind"] == "two":
            d = float(np.linalg.norm(st["frames"][f, 0].astype(np.float64) - st["frames"][f, 1].astype(np.float64)))
            for i, j in ((0, 1), (1, 0)):
                want = sr.sasa_two_sphere_area(R[i], R[j], d)
                bound = full[i] * sr.sasa_cap_bound(n) + tol_a[i]
                e = abs(B[i] - want) / bound
                stats["err_analytic"] = max(stats["err_analytic"], e)
                stats["err_analytic_n"] = max(stats["err_analytic_n"], e)
                if e > 1:
                    rec("sasa|two-spheres|analytic-bound", "atom %d area %.9g, analytic %.9g, bound %.3g (d=%.4f R=%s)"
                        % (i, B[i], want, bound, d, R), dict(window=[f, f + 1]))
        # modes x subsets on this frame
        for mode in MODES:
            for sub in st["subsets"]:
                if mode == "atom" and sub is None:
                    continue
                try:
                    o = call(f, f + 1, mode, sub)
                except Exception as e:  # noqa: BLE001
                    rec("sasa|exception|%s|%s" % (mode, "empty-subset" if sub == [] else "subset"),
                        "%s: %s" % (type(e).__name__, e), dict(window=[f, f + 1], mode=mode, subset=sub))
                    continue
                dim = na if mode == "atom" else nres
                if o.shape != (1, dim):
                    rec("sasa|shape|%s" % mode, "shape %s" % (o.shape,), dict(window=[f, f + 1], mode=mode, subset=sub))
                    continue
                o = o[0].astype(np.float64)
                alone[(f, mode, _sub_key(sub))] = o
                sel = np.ones(na, bool) if sub is None else np.isin(np.arange(na), sub)
                if mode == "atom":
                    # kept atoms keep their value (same arithmetic: expected bit-identical, judged at tol_a)
                    dk = np.abs(o[sel] - B[sel])
                    if sel.any() and (dk > tol_a[sel]).any():
                        i = int(np.arange(na)[sel][np.argmax(dk / tol_a[sel])])
                        rec("sasa|subset|atom|kept-value-changed", "atom %d: %.9g with subset, %.9g without" % (i, o[i], B[i]),
                            dict(window=[f, f + 1], mode=mode, subset=sub))
                    if (~sel).any() and (o[~sel] != -1.0).any():
                        i = int(np.arange(na)[~sel][np.argmax(o[~sel] != -1.0)])
                        rec("sasa|subset|atom|unselected-not-minus1", "atom %d reported %.9g" % (i, o[i]),
                            dict(window=[f, f + 1], mode=mode, subset=sub))
                else:
                    for r in range(nres):
                        m = sel & (resof == r)
                        if not m.any():
                            if o[r] != -1.0:
                                rec("sasa|subset|residue|empty-residue-not-minus1", "residue %d reported %.9g" % (r, o[r]),
                                    dict(window=[f, f + 1], mode=mode, subset=sub))
                            continue
                        want = B[m].sum()
                        tol = (C_TOL + int(m.sum())) * sr.EPS32 * full[m].sum()
                        e = abs(o[r] - want) / tol
                        stats["err_res"] = max(stats["err_res"], e if e <= 1 else 0.0)
                        if not e <= 1:
                            rec("sasa|residue|sum-of-atoms" + ("" if sub is None else "|subset"),
                                "residue %d: %.9g, sum of atom mode over its selected atoms %.9g" % (r, o[r], want),
                                dict(window=[f, f + 1], mode=mode, subset=sub))
    # ---- windows of 2 and 3 frames: each frame must equal the frame alone ---------------------------
    cst = full / n
    for L in (2, 3):
        if L > st.get("maxwin", 3):
            continue
        for a in range(0, F - L + 1):
            for sub in st["subsets"]:
                multi_atom = None
                for mode in MODES:            # atom first: its output explains residue-mode deviations
                    try:
                        o = call(a, a + L, mode, sub).astype(np.float64)
                    except Exception as e:  # noqa: BLE001
                        rec("sasa|exception|multiframe|%s" % mode, "%s: %s" % (type(e).__name__, e),
                            dict(window=[a, a + L], mode=mode, subset=sub))
                        continue
                    if mode == "atom":
                        multi_atom = o
                    sel = np.ones(na, bool) if sub is None else np.isin(np.arange(na), sub)
                    if mode == "atom":
                        tol = tol_a
                    else:
                        tol = np.array([(C_TOL + max(1, int((resof == r).sum()))) * sr.EPS32 * full[resof == r].sum()
                                        for r in range(nres)])
                    for k in range(L):
                        ref = alone.get((a + k, mode, _sub_key(sub)))
                        if ref is None or o.shape != (L, len(ref)):
                            continue
                        d = np.abs(o[k] - ref)
                        stats["multi_cmp"] += 1
                        if np.array_equal(o[k], ref):
                            stats["bitexact_multi"] += 1
                        if (d <= tol).all():
                            stats["err_multi"] = max(stats["err_multi"], float((d / tol).max()))
                            continue
                        i = int(np.argmax(d / tol))
                        # class of the deviation: is it "previous frame's value times 4piR^2/n added"?
                        expl = "other"
                        am = alone.get((a + k, "atom", _sub_key(sub)))
                        if k >= 1 and am is not None and multi_atom is not None:
                            carry = np.where(sel, am + multi_atom[k - 1] * cst, -1.0)
                            if mode == "atom":
                                model = carry
                            else:
                                model = np.array([carry[sel & (resof == r)].sum() if (sel & (resof == r)).any() else -1.0
                                                  for r in range(nres)])
                            if (np.abs(o[k] - model) <= 4 * tol + 4 * sr.EPS32 * np.abs(model)).all():
                                expl = "alone+prev*4piR2/n"
                        sig = "sasa|multiframe|frame%s|%s" % ("0" if k == 0 else ">=1", expl)
                        rec(sig, "window frames [%d,%d) mode=%s subset=%s: frame %d entry %d = %.9g, the frame alone gives %.9g"
                            % (a, a + L, mode, sub, a + k, i, o[k][i], ref[i]), dict(window=[a, a + L], mode=mode, subset=sub))
    if st.get("design"):
        # frames whose ladder was designed for this probe and put the pair inside the shell, with points actually buried
        stats["shell_cases"] = int(sum(1 for k, (p_, f_) in enumerate(st["design"])
                                       if abs(p_ - probe) < 1e-12 and 0 < f_ < 1 and (acc[k] + amb[k] < n).any()))
    stats["nontrivial"] = int(((acc > 0) & (acc + amb < n)).any(axis=1).sum())
    if stats["partial_atoms"] and st["kind"] != "isolated":
        f = int(np.argmax(((acc > 0) & (acc + amb < n)).any(axis=1)))
        stats["sample"] = dict(structure=st["name"], frame=f, n_sphere_points=n, probe=probe, change_radii=cr,
                               xyz=np.round(st["frames"][f].astype(np.float64), 4).tolist(), oracle_counts=acc[f].tolist(),
                               within_margin=amb[f].tolist())
    if only_sig is not None:
        recs = [r for r in recs if r[0] == only_sig]
    return recs, stats


def _TABLE_DOC(sym, cr):
    if cr and sym in cr:
        return cr[sym]
    return _TABLE[sym]


def _work(item):
    si, n, probe, ci = item
    return check_config(_STRUCTS[si], n, probe, CHANGE_RADII[ci])


# --------------------------------------------------------------------------------------------------

_SEAM_ERR = []


def _seam_points(ctx, n):
    """Sphere points as generated by the kernel, through the harness TU.  The seam depends on the names/signatures of
    static functions of sasa.cpp; if a refactoring breaks it the check must not fail: the comparison is skipped, said so
    in the evidence, and everything else (which only uses the public API) still runs."""
    import ctypes
    from vlib import build
    if _SEAM_ERR:
        return None
    try:
        so = build.build_kernlib("sasaseam", ctx.repo, "rel")
    except Exception as e:  # noqa: BLE001
        _SEAM_ERR.append(str(e)[-300:])
        print("WARNING kernel seam sasaseam does not build against this tree; point-set comparison skipped")
        ctx.assume("kernel seam vlib/kern/sasaseam.cpp did not compile against the tree (internal signatures changed): "
                   "the kernel's sphere-point set was not compared directly; all other comparisons use the public API")
        return None
    try:
        lib = ctypes.CDLL(so)
        out = np.zeros((n, 3), np.float32)
        lib.seam_sphere_points(out.ctypes.data_as(ctypes.c_void_p), ctypes.c_int(n))
    except Exception as e:  # noqa: BLE001
        _SEAM_ERR.append(str(e)[-300:])
        print("WARNING kernel seam sasaseam could not be loaded/called; point-set comparison skipped")
        ctx.assume("kernel seam vlib/kern/sasaseam.cpp could not be loaded: the kernel's sphere-point set was not compared directly")
        return None
    return out


def run(ctx):
    _ATOMIC_RADII = _live_table(ctx)
    global _STRUCTS
    _TABLE.clear()
    _TABLE.update(_ATOMIC_RADII)
    # 0. radii table anchors and extra cheap relations
    n_eval = 0
    for sym, r in sr.BONDI.items():
        n_eval += 1
        if abs(_ATOMIC_RADII.get(sym, -1) - r) > 1e-12:
            ctx.violation("sasa|radii-table|" + sym, "table has %r, Bondi/Mantina value is %r" % (_ATOMIC_RADII.get(sym), r),
                          dict(kind="radii", sym=sym))
    # 1. point set: kernel seam vs the independent derivation; unit norm, equal-area zones, golden-angle steps
    pt_err = 0.0
    disc = {}
    for n in N_POINTS:
        mine = sr.sasa_sphere_points(n)
        kern = _seam_points(ctx, n)
        if kern is None:
            continue
        kern = kern.astype(np.float64)
        e = float(np.abs(mine - kern).max()) / sr.EPS32
        pt_err = max(pt_err, e / 4.0)
        n_eval += 1
        if e > 4:
            ctx.violation("sasa|points|spiral-mismatch", "n=%d: kernel point set differs from the documented golden-section "
                          "spiral by %.3g eps32" % (n, e), dict(kind="points", n=n))
        ideal = sr.sasa_ideal_points(n)
        # float32 azimuth i*inc rounds by <= eps32/2 * i*inc; everything else by a few eps32
        bound = sr.EPS32 * (n * 2.4 + 8)
        if float(np.abs(kern - ideal).max()) > bound:
            ctx.violation("sasa|points|not-golden-spiral", "n=%d: kernel points deviate from the exact spiral by %.3g (> %.3g)"
                          % (n, float(np.abs(kern - ideal).max()), bound), dict(kind="points", n=n))
        disc[n] = sr.sasa_cap_discrepancy(mine) * np.sqrt(n)
        if disc[n] > 1.0 + 1e-9:
            raise AssertionError("check error: measured cap discrepancy %.4f/sqrt(n) exceeds the stated bound for n=%d" % (disc[n], n))
    # 2. the product
    _STRUCTS, missing = build_structures(ctx)
    ctx.assume("elements of the radii table unknown to mdtraj.element are skipped: %s" % ",".join(missing))
    maxc = float(max(np.abs(s["frames"]).max() for s in _STRUCTS))
    assert maxc < 4.0, maxc
    items = [(si, n, p, ci) for si in range(len(_STRUCTS)) for n in N_POINTS for p in PROBES for ci in range(len(CHANGE_RADII))]
    # heavy items first for load balance
    items.sort(key=lambda it: -(len(_STRUCTS[it[0]]["atoms"]) * it[1] + 40 * len(_STRUCTS[it[0]]["subsets"]) * _STRUCTS[it[0]]["frames"].shape[0]))
    res = ctx.pmap(_work, items, chunksize=4)
    tot = dict(shell_cases=0, suppressed_duplicates=0, calls=0, nontrivial=0, excl_points=0, excl_atoms=0, partial_atoms=0, multi_cmp=0, bitexact_multi=0)
    mx = dict(err_area=0.0, err_res=0.0, err_multi=0.0, err_analytic=0.0)
    samples = []
    an_by_n = {}
    for it, (recs, st) in zip(items, res):
        an_by_n[it[1]] = max(an_by_n.get(it[1], 0.0), st["err_analytic_n"])
        ctx.report(recs)
        for k in tot:
            tot[k] += st[k]
        for k in mx:
            mx[k] = max(mx[k], st[k])
        if st["sample"] is not None and len(samples) < 3 and (not samples or samples[-1]["structure"] != st["sample"]["structure"]):
            samples.append(st["sample"])
    kinds = {}
    for s in _STRUCTS:
        kinds[s["kind"]] = kinds.get(s["kind"], 0) + 1
    cov = {
        "evaluations": tot["calls"] + n_eval,
        "distinct_nontrivial": tot["nontrivial"],
        "rule": "one evaluation = one md.shrake_rupley call (structure x n_sphere_points x probe x change_radii x mode x "
                "atom_indices x frame window) judged against the float64 oracle; non-trivial = distinct (structure frame, "
                "n, probe, change_radii) in which at least one atom is partially buried (0 < accessible points < n), counted "
                "from the oracle's counts",
        "samples": samples,
        "exhaustive": True,
        "structures": len(_STRUCTS), "structures_by_kind": kinds, "configs": len(items),
        "axes": {"n_sphere_points": N_POINTS, "probe_radius": PROBES, "change_radii": [str(c) for c in CHANGE_RADII],
                 "mode": MODES, "separations_nm": SEPARATIONS, "windows": "all contiguous windows of 1..3 frames",
                 "subsets": "all subsets (+None) for <=5 atoms, menu of %d for larger" % len(_STRUCTS[-1]["subsets"])},
        "excluded_points_within_margin": tot["excl_points"], "atoms_with_excluded_points": tot["excl_atoms"],
        "partially_buried_atom_frames": tot["partial_atoms"],
        "late_big_atom_shell_cases_with_buried_points": tot["shell_cases"],
        "multiframe_comparisons": tot["multi_cmp"], "multiframe_bit_identical": tot["bitexact_multi"],
        "max_err_over_tol": max([mx["err_area"], mx["err_res"], mx["err_multi"], pt_err] +
                                [v for k, v in an_by_n.items() if k > 1]),
        "max_err_over_tol_note": "excludes the two-sphere analytic bound at n_sphere_points=1, where the bound 1/sqrt(1) is "
                                 "the trivial |indicator - fraction| <= 1 and ratios approach 1 by construction",
        "violation_records_beyond_2_per_signature_and_config": tot["suppressed_duplicates"],
        "max_err_over_tol_area": mx["err_area"], "max_err_over_tol_residue_sum": mx["err_res"],
        "max_err_over_tol_multiframe": mx["err_multi"], "max_err_over_bound_analytic": mx["err_analytic"],
        "pointset_max_err_over_4eps32": pt_err,
        "two_sphere_err_over_bound_by_n": {str(k): round(float(v), 4) for k, v in sorted(an_by_n.items())},
        "measured_cap_discrepancy_times_sqrt_n": {str(k): round(v, 4) for k, v in disc.items()},
        "tolerance_model": "|dA| <= %d*eps32*4piR^2 per atom; residue: (%d+atoms)*eps32*sum 4piR^2; analytic two-sphere: "
                           "4piR^2/sqrt(n) + float term; margin 1e-5 nm" % (C_TOL, C_TOL),
        "max_abs_coordinate_nm": maxc,
    }
    return "exploration", cov


def replay(ctx, rep):
    _ATOMIC_RADII = _live_table(ctx)
    _TABLE.clear()
    _TABLE.update(_ATOMIC_RADII)
    if rep.get("kind") == "radii":
        return abs(_ATOMIC_RADII.get(rep["sym"], -1) - sr.BONDI[rep["sym"]]) <= 1e-12
    if rep.get("kind") == "points":
        n = rep["n"]
        if _seam_points(ctx, n) is None:
            return True
        a = float(np.abs(sr.sasa_sphere_points(n) - _seam_points(ctx, n)).max()) / sr.EPS32
        b = float(np.abs(sr.sasa_sphere_points(n) - _seam_points(ctx, n)).max()) / sr.EPS32
        assert a == b
        print("point set deviation (eps32):", a)
        return a <= 4
    s = rep["struct"]
    st = dict(name=s["name"], kind=s["kind"], atoms=[tuple(a) for a in s["atoms"]], resnames=s["resnames"],
              frames=np.array(s["frames"], np.float32), subsets=[rep.get("subset")])
    # the failing call plus what it is compared with (the None selection is always evaluated)
    st["subsets"] = [None] + ([rep["subset"]] if rep.get("subset") is not None else [])
    out = []
    for _ in range(2):
        recs, _st = check_config(st, rep["n"], rep["probe"], rep["change_radii"], only_sig=rep["sig"])
        out.append(sorted(r[1] for r in recs))
    assert out[0] == out[1], "replay is not deterministic"
    for d in out[0][:3]:
        print("replay:", d[:300])
    return len(out[0]) == 0
