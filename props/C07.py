"""C07 — angles and dihedrals equal their geometric definitions, periodic or not.

Part 1 (geometry): every ordered triplet / quartet of distinct points of a jittered lattice, for every cell of
the menu (+ per-frame-varying stacks, + no cell), three placements of the points relative to the cell
(whole cluster straddling the cell faces at the origin; every atom wrapped into the primary cell; atoms
scattered over +-2 cells), two jitter scales (generic, near-collinear/near-planar), opt x periodic.
Part 2 (named torsions): hand-built peptide topologies (all 20 residue types; every chain-split position, every
single missing backbone/side-chain atom, hydrogens, reversed atom order, waters) x phi/psi/omega/chi1-5.
Oracle: float64 definitions on minimum-image bond vectors (C05 oracle); quartets looked up by atom name.
"""
import collections
import itertools

import numpy as np

from vlib import grids
from vlib.refmodels import geom_common as gc

MANIFEST = {
    "category": "exploration",
    "engine": "gridx",
    "technique": "all ordered triplets/quartets of a designed point lattice over a cell menu, judged by float64 "
                 "definitions on brute-force minimum-image bond vectors; name-based lookup for the named torsions",
    "text": "Full product: all ordered triplets and quartets of distinct points of a jittered 2x2x3 lattice (quick: 1320 / "
            "11880) or 3x3x3 lattice (thorough: 17550 / 421200, one vectorised call) with spacing 0.2 x the smallest cell "
            "width x cell menu (reduced + unreduced forms, (2,2,2|90,90,45/135), per-frame-varying stacks of 3 cells and 18-frame "
            "stacks whose consecutive frames share all cell parameters but one or two, no cell) x placement {whole cluster "
            "straddling the faces at the origin, every atom wrapped into the cell, atoms scattered over +-2 cells} x jitter "
            "scale {0.25 generic, 0.03 near-collinear/near-planar} x periodic x opt (reference path on all tuples of a "
            "2x2x2 (quick) / 2x2x3 (thorough) sub-lattice). Oracle float64: angle = acos of the normalised bond vectors at the "
            "middle atom, dihedral = atan2(|b2| b1.(b2xb3), (b1xb2).(b2xb3)), bond vectors = brute-force minimum images when "
            "periodic with a cell. Judged: value (float32 error model with conditioning factors 1/sin), range [0,pi] / "
            "[-pi,pi], reversal invariance, mirror negation (no cell / periodic=False / orthorhombic), opt == reference. "
            "Named torsions: 20-residue peptides (all residue types, two orders) x {intact, split into two chains at every "
            "position, every residue missing each of N/CA/C/CB/CG, water inserted at every position, hydrogens, reversed "
            "atom order} + 1- and 2-residue peptides: compute_phi/psi/omega/chi1..5 must return exactly the quartets found "
            "by atom name from the documented definitions, in residue order, with values identical to compute_dihedrals on "
            "them and equal to the oracle. Short-image clusters in the strongly skewed cells (g45, g135, tric_45_60_75, tric_135_100_110, "
            "reduced and unreduced): six atoms per frame placed so that plain bond vectors shorter than half the shortest cell "
            "EDGE are not the minimum images (s*v for every lattice vector v shorter than the edges), all ordered triplets / "
            "quartets. Residue-name vocabularies with identical atoms (PDB, Amber HID/HIE/HIP/CYX/ASH/GLH/LYN/termini, CHARMM "
            "HSD/HSE/HSP, GROMACS HISE/LYSH/CYS2, unknown names for all or for each single residue, each also split into two "
            "chains): quartets expected from atom names only. Index-list length classes {1..9, 255..257, 300, 511..513, 767, 768, 1000, 1024, "
            "1025}: a sub-list must give exactly the rows of the full call (3-frame stacks: all three kernels). Histories on "
            "ONE Topology object: call all named functions, edit in place keeping chain/residue/atom counts (16 edits: rename "
            "atom / residue, delete+add, insert+delete), call all, edit, call all, for every ordered pair of edits on two "
            "peptides; judged against the name-based lookup on the topology as it is then and against the same topology rebuilt "
            "from scratch. Right level: straight-line float kernels plus a small pattern matcher; a complete "
            "tuple enumeration over a designed cell/placement menu with an independent definition decides the property on "
            "this bounded family.",
    "note": "Bounded family (12 / 27 points, cells of the menu). Excluded and counted: tuples with a bond whose minimum image "
            "is outside C05's domain (skewed cells: d* >= half the smallest width of the cell as given) or not unique within "
            "the error model, and ill-conditioned tuples (sine of a bond angle < 1e-2). Neighbouring residues are those "
            "adjacent in the chain's residue order, whatever their residue numbers (gaps, repeats, restarts); residues "
            "whose atom names match two patterns are not built (docstrings silent). Side-chain definitions are the "
            "IUPAC table per residue type; mdtraj matches by atom names regardless of residue type.",
    "ref": "DESIGN.md §3 C07, §2.4",
}

STACKS = {
    "stack_mixed": ["ortho234", "tric_75_100_115+unreduced", "hex60"],
    "stack_ortho": ["cubic3", "ortho234", "ortho116"],
}
SPACING = 0.2             # lattice spacing in units of the smallest width of the cell as given
JITS = (0.25, 0.03)       # jitter amplitude in units of the spacing
GAP_C = 8                 # a bond is judged only if the second-best image is longer by > GAP_C * tol_disp (= 64 eps32 S)
MAXV = 2


_menu = gc.extended_menu
STACKS.update(gc.SHARED_STACKS)       # 18-frame stacks: consecutive frames share all cell parameters but one or two
BLOCK_SIZES = [1, 2, 3, 4, 5, 7, 8, 9, 255, 256, 257, 300, 511, 512, 513, 767, 768, 1000, 1024, 1025]


class Acc:
    def __init__(self, spec):
        self.spec = spec
        self.viol = collections.OrderedDict()
        self.ratio = collections.defaultdict(float)
        self.n = collections.Counter()

    def add(self, sig, detail):
        lst = self.viol.setdefault(sig, [])
        self.n["violations"] += 1
        if len(lst) < MAXV:
            lst.append((sig, detail, {"job": self.spec, "sig": sig}))

    def cmp(self, check, sig, err, tol, mask, describe):
        err = np.asarray(err, np.float64)
        tol = np.broadcast_to(np.asarray(tol, np.float64), err.shape)
        sel = np.nonzero(mask)
        e, t = err[sel], tol[sel]
        if e.size == 0:
            return
        ratio = np.where(np.isfinite(e), e / t, np.inf)
        self.n["evaluations"] += int(e.size)
        self.n["cmp_" + check] += int(e.size)
        self.ratio[check] = max(self.ratio[check], float(ratio.max()))
        bad = np.nonzero(ratio > 1)[0]
        if len(bad):
            self.n["bad_" + check] += len(bad)
            b = bad[0]
            where = tuple(int(a[b]) for a in sel)
            self.add(sig, "%s: err %.3e > tol %.3e (x%.1f); %d of %d judged fail; %s" % (
                check, e[b], t[b], ratio[b], len(bad), e.size, describe(where)))


def _lattice(dims, jit, seed):
    pts = np.array(list(itertools.product(*[range(d) for d in dims])), dtype=np.float64)
    centre = (np.array(dims) - 1) / 2.0
    J = grids.jitter(len(pts), 3, scale=2 * jit, seed=seed)          # in [-jit, jit)
    return pts, (pts - centre) + J


def _codes(T, n):
    c = np.zeros(len(T), dtype=np.int64)
    for k in range(T.shape[1]):
        c = c * n + T[:, k]
    return c


SHORT_IMAGE_CELLS = ["g45", "g45+unreduced", "g135", "g135+unreduced", "tric_45_60_75", "tric_45_60_75+unreduced",
                     "tric_135_100_110", "tric_135_100_110+unreduced"]
SHORT_IMAGE_MAX_FRAMES = 16


def _setup_short_image(spec):
    """Clusters of SHORT bonds in strongly skewed cells: for every lattice vector v = n.V (n in {-2..2}^3) shorter than the
    shortest cell edge and every s in {0.52, 0.54, .. 0.96} with s|v| < 0.49 * shortest edge, one frame with six atoms
    A, B = A + s v, C = A + w1, D = B + w2, E = A + w3, G = B + w4 (w_k generic, a quarter of the smallest width at most
    per component): the plain vectors A->B, C->D, ... are shorter than half the shortest EDGE but are not the minimum
    images (s v - v is shorter), all other bonds are short.  All ordered triplets / quartets of the six atoms."""
    menu = _menu()
    c = menu[spec["cells"][0]]
    one = dict(lengths=np.array([c["lengths"]]), angles=np.array([c["angles"]])) if c["reduced"] else \
        dict(vectors=np.array([c["vectors"]], dtype=np.float32))
    V = gc.make_traj(np.zeros((1, 1, 3), np.float32), **one).unitcell_vectors[0].astype(np.float64)
    edge = np.linalg.norm(V, axis=1).min()
    w = grids.cell_widths(V).min()
    nn = np.array(list(itertools.product(range(-2, 3), repeat=3)), dtype=np.float64)
    lv = nn @ V
    ln = np.linalg.norm(lv, axis=1)
    short = lv[(ln > 1e-9) & (ln < 0.999 * edge)]
    frames = [(v, s) for v in short for s in np.arange(0.52, 0.97, 0.02) if s * np.linalg.norm(v) < 0.49 * edge]
    if len(frames) > SHORT_IMAGE_MAX_FRAMES:
        frames = frames[:: int(np.ceil(len(frames) / SHORT_IMAGE_MAX_FRAMES))]
    F = len(frames)
    xyz = np.zeros((F, 6, 3))
    for f, (v, s) in enumerate(frames):
        j = grids.jitter(6, 3, scale=1.0, seed=spec["seed"] * 31 + f)
        A = np.array([0.11, 0.23, 0.37]) @ V
        B = A + s * v + 0.04 * w * j[0]
        xyz[f] = [A, B, A + 0.5 * w * j[1], B + 0.5 * w * j[2], A + 0.5 * w * j[3], B + 0.5 * w * j[4]]
    kw = {k: np.repeat(val, F, axis=0) for k, val in one.items()}
    Vst = None
    if F:
        Vst = gc.make_traj(np.zeros((F, 1, 3), np.float32), **kw).unitcell_vectors.astype(np.float64)
    return [c] * F, xyz.astype(np.float32), kw, "short-image", Vst, None


def _setup(spec):
    if spec["place"] == "short-image":
        return _setup_short_image(spec)
    menu = _menu()
    dims = tuple(spec["dims"])
    lat, P = _lattice(dims, spec["jit"], spec["seed"])
    n = len(P)
    names = spec["cells"] or ["cubic3"]
    cells = [menu[c] for c in names]
    F = len(cells)
    if spec["cells"] is None:
        kw, kind = {}, "nocell"
    elif F == 1 and cells[0]["reduced"]:
        kw = dict(lengths=np.array([cells[0]["lengths"]]), angles=np.array([cells[0]["angles"]]))
        kind = "ortho" if cells[0]["ortho"] else "skew-reduced"
    else:
        kw = dict(vectors=np.array([c["vectors"] for c in cells], dtype=np.float32))
        kind = "skew-unreduced" if F == 1 else spec["name"].split("/")[0].replace("_", "-")
    # the cell as mdtraj stores it
    dummy = gc.make_traj(np.zeros((F, 1, 3), np.float32), **kw)
    Vst = None if dummy.unitcell_vectors is None else dummy.unitcell_vectors.astype(np.float64)
    xyz = np.empty((F, n, 3))
    for f in range(F):
        V = Vst[f] if Vst is not None else cells[f]["vectors"]
        sp = SPACING * grids.cell_widths(V).min()
        x = P * sp
        if spec["place"] == "wrapped":
            fr = x @ np.linalg.inv(V)
            x = x - np.floor(fr) @ V
        elif spec["place"] == "scattered":
            i = np.arange(n)
            sh = np.stack([(i * 7) % 5 - 2, (i * 3 + 1) % 5 - 2, (i * 11 + 3) % 5 - 2], axis=1).astype(np.float64)
            x = x + sh @ V
        xyz[f] = x
    return cells, xyz.astype(np.float32), kw, kind, Vst, lat


def _sub_indices(dims, sub):
    return [i for i, p in enumerate(itertools.product(*[range(d) for d in dims])) if all(p[k] < sub[k] for k in range(3))]


def _job(spec):
    import mdtraj as md
    cells, xyz32, kw, kind, Vst, lat = _setup(spec)
    F, n = xyz32.shape[:2]
    acc = Acc(spec)
    if F == 0:           # short-image job of a cell without a lattice vector shorter than its edges
        return {"name": spec["name"], "kind": kind, "n": {}, "ratio": {}, "viol": [], "samples": [], "nT": 0, "nQ": 0,
                "nTs": 0, "nQs": 0}
    x64 = xyz32.astype(np.float64)
    have_cell = Vst is not None
    ortho = [bool(c["ortho"]) for c in cells]
    T = gc.all_ordered(n, 3)
    Q = gc.all_ordered(n, 4)
    cT, cQ = _codes(T, n), _codes(Q, n)
    assert np.all(np.diff(cT) > 0) and np.all(np.diff(cQ) > 0)
    revT = np.searchsorted(cT, _codes(T[:, ::-1], n))
    revQ = np.searchsorted(cQ, _codes(Q[:, ::-1], n))
    sub = np.array(_sub_indices(spec["dims"], spec["sub"]), dtype=np.int32)
    Ts = sub[gc.all_ordered(len(sub), 3)]
    Qs = sub[gc.all_ordered(len(sub), 4)]
    iTs = np.searchsorted(cT, _codes(Ts, n))
    iQs = np.searchsorted(cQ, _codes(Qs, n))
    mirror = np.array([-1, 1, 1], dtype=np.float32)

    def descT(where):
        f, q = where
        return "job=%s place=%s jit=%s frame=%d triplet=%s xyz=%s cell=%s" % (
            spec["name"], spec["place"], spec["jit"], f, T[q].tolist(), xyz32[f, T[q]].tolist(),
            None if Vst is None else Vst[f].tolist())

    def descQ(where):
        f, q = where
        return "job=%s place=%s jit=%s frame=%d quartet=%s xyz=%s cell=%s" % (
            spec["name"], spec["place"], spec["jit"], f, Q[q].tolist(), xyz32[f, Q[q]].tolist(),
            None if Vst is None else Vst[f].tolist())

    samples = []
    res = {}
    for periodic in (True, False):
        per = periodic and have_cell
        # ---- oracle: bond vectors between all ordered point pairs ----------------------------------
        plain = x64[:, None, :, :] - x64[:, :, None, :]               # plain[f,i,j] = x_j - x_i
        if per:
            B = np.empty_like(plain)
            okb = np.zeros((F, n, n), bool)
            shift = np.zeros((F, n, n), bool)
            eb = np.empty((F, n, n))
            for f in range(F):
                mi = gc.min_image(plain[f], Vst[f], second=True)
                B[f] = mi["vec"]
                eb[f] = gc.tol_disp(plain[f], Vst[f][None])
                hw = 0.5 * grids.cell_widths(Vst[f]).min()
                unique = (mi["d2"] - mi["d"]) > GAP_C * eb[f]
                dom = np.ones((n, n), bool) if ortho[f] else gc.in_domain(mi["d"], hw, eb[f])[0]
                okb[f] = unique & dom
                off = ~np.eye(n, dtype=bool)
                acc.n["bonds"] += int(off.sum())
                acc.n["bonds_outside_domain"] += int((~dom & off).sum())
                acc.n["bonds_image_not_unique"] += int((dom & ~unique & off).sum())
                acc.n["bonds_needing_image_shift"] += int((np.any(mi["n"] != 0, axis=-1) & off).sum())
                shift[f] = np.any(mi["n"] != 0, axis=-1)
        else:
            B = plain
            okb = np.ones((F, n, n), bool)
            eb = gc.tol_disp(plain)
        fi = np.arange(F)[:, None]
        # angles (i,j,k): u = r_i - r_j, v = r_k - r_j
        u, v = B[fi, T[:, 1], T[:, 0]], B[fi, T[:, 1], T[:, 2]]
        eu, ev = eb[fi, T[:, 1], T[:, 0]], eb[fi, T[:, 1], T[:, 2]]
        Aor = gc.angle_def(u, v)
        sT = gc.sin_between(u, v)
        okT_b = okb[fi, T[:, 1], T[:, 0]] & okb[fi, T[:, 1], T[:, 2]]
        okT = okT_b & (sT >= gc.SIN_MIN)
        tolT = gc.tol_angle(u, v, eu, ev)
        # dihedrals (i,j,k,l)
        b1, b2, b3 = B[fi, Q[:, 0], Q[:, 1]], B[fi, Q[:, 1], Q[:, 2]], B[fi, Q[:, 2], Q[:, 3]]
        e1, e2, e3 = eb[fi, Q[:, 0], Q[:, 1]], eb[fi, Q[:, 1], Q[:, 2]], eb[fi, Q[:, 2], Q[:, 3]]
        Dor = gc.dihedral_def(b1, b2, b3)
        s12, s23 = gc.sin_between(b1, b2), gc.sin_between(b2, b3)
        okQ_b = okb[fi, Q[:, 0], Q[:, 1]] & okb[fi, Q[:, 1], Q[:, 2]] & okb[fi, Q[:, 2], Q[:, 3]]
        okQ = okQ_b & (s12 >= gc.SIN_MIN) & (s23 >= gc.SIN_MIN)
        tolQ = gc.tol_dihedral(b1, b2, b3, e1, e2, e3)
        ptag = "periodic" if periodic else "nonperiodic"
        if per and kind == "short-image":
            # the designed class: every plain bond vector shorter than half the shortest cell edge, yet one is not the minimum image
            he = 0.5 * np.linalg.norm(Vst, axis=2).min(axis=1)[:, None]
            pl = np.linalg.norm(plain, axis=-1)
            shq = [pl[fi, Q[:, m], Q[:, m + 1]] < he for m in range(3)]
            anysh = shift[fi, Q[:, 0], Q[:, 1]] | shift[fi, Q[:, 1], Q[:, 2]] | shift[fi, Q[:, 2], Q[:, 3]]
            acc.n["quartets_all_plain_bonds_below_half_edge_but_one_not_minimum_image"] += int((okQ & shq[0] & shq[1] & shq[2] & anysh).sum())
            sht = [pl[fi, T[:, 1], T[:, 0]] < he, pl[fi, T[:, 1], T[:, 2]] < he]
            anyt = shift[fi, T[:, 1], T[:, 0]] | shift[fi, T[:, 1], T[:, 2]]
            acc.n["triplets_all_plain_bonds_below_half_edge_but_one_not_minimum_image"] += int((okT & sht[0] & sht[1] & anyt).sum())
        acc.n["triplets"] += int(okT.size)
        acc.n["quartets"] += int(okQ.size)
        acc.n["triplets_excluded_bond_domain"] += int((~okT_b).sum())
        acc.n["quartets_excluded_bond_domain"] += int((~okQ_b).sum())
        acc.n["triplets_excluded_conditioning"] += int((okT_b & ~okT).sum())
        acc.n["quartets_excluded_conditioning"] += int((okQ_b & ~okQ).sum())
        if per or not periodic:           # without a cell, periodic=True is the same case as periodic=False
            acc.n["distinct_nontrivial"] += int(okT.sum()) + int(okQ.sum())
        for opt in (True, False):
            tag = "%s|%s|%s" % ("opt" if opt else "ref", kind, ptag)
            tl, ql = (T, Q) if opt else (Ts, Qs)
            it, iq = (slice(None), slice(None)) if opt else (iTs, iQs)
            t = gc.make_traj(xyz32, **kw)
            A = np.asarray(md.compute_angles(t, tl, periodic=periodic, opt=opt))
            t = gc.make_traj(xyz32, **kw)
            D = np.asarray(md.compute_dihedrals(t, ql, periodic=periodic, opt=opt))
            res[(periodic, opt)] = (A, D)
            acc.n["evaluations"] += 2
            if A.shape != (F, len(tl)) or D.shape != (F, len(ql)):
                acc.add("angles|%s|shape" % tag, "shapes %s %s" % (A.shape, D.shape))
                continue
            # index-list length classes (SIMD remainders, block sizes): a sub-list gives the same rows as the full list
            for m in BLOCK_SIZES:
                if not opt and m > 9:
                    continue
                for nm, fn, lst, fullv in (("angles", md.compute_angles, tl, A), ("dihedrals", md.compute_dihedrals, ql, D)):
                    if m > len(lst):
                        continue
                    s0 = (len(lst) - m) // 3
                    got = np.asarray(fn(gc.make_traj(xyz32, **kw), lst[s0:s0 + m], periodic=periodic, opt=opt))
                    acc.n["evaluations"] += int(got.size)
                    acc.n["index_sublist_calls"] += 1
                    if got.shape != (F, m) or not np.array_equal(got, fullv[:, s0:s0 + m]):
                        acc.add("%s|%s|sublist-differs-from-full-list" % (nm, tag), "tuples[%d:%d] (%d tuples, %d frames) give other "
                                "values than the same rows of the full %d-tuple call; job=%s place=%s"
                                % (s0, s0 + m, m, F, len(lst), spec["name"], spec["place"]))
            A = A.astype(np.float64)
            D = D.astype(np.float64)
            # range (all tuples, also the excluded ones)
            acc.n["evaluations"] += int(A.size + D.size)
            if not (np.all(np.isfinite(A)) and A.min() >= 0 and A.max() <= gc.PI32):
                acc.add("angles|%s|range" % tag, "angle outside [0, pi] or not finite: min %r max %r" % (np.nanmin(A), np.nanmax(A)))
            if not (np.all(np.isfinite(D)) and np.abs(D).max() <= gc.PI32):
                acc.add("dihedrals|%s|range" % tag, "dihedral outside [-pi, pi] or not finite: max |.| %r" % np.nanmax(np.abs(D)))
            # values
            mT = okT if opt else okT[:, iTs]
            mQ = okQ if opt else okQ[:, iQs]
            dT = (lambda w: descT((w[0], w[1] if opt else iTs[w[1]])))
            dQ = (lambda w: descQ((w[0], w[1] if opt else iQs[w[1]])))
            acc.cmp("angle-value", "angles|%s|value" % tag, np.abs(A - Aor[:, it]), tolT[:, it], mT, dT)
            acc.cmp("dihedral-value", "dihedrals|%s|value" % tag, gc.angdiff(D, Dor[:, iq]), tolQ[:, iq], mQ, dQ)
            if opt:
                # reversal invariance
                acc.cmp("angle-reversal", "angles|%s|reversal" % tag, np.abs(A - A[:, revT]), 2 * tolT, okT, descT)
                acc.cmp("dihedral-reversal", "dihedrals|%s|reversal" % tag, gc.angdiff(D, D[:, revQ]), 2 * tolQ, okQ, descQ)
            # mirror x -> -x: valid without periodic images and in orthorhombic cells
            if (not per) or all(ortho):
                if opt or not per:
                    tm = gc.make_traj(xyz32 * mirror, **kw)
                    Am = np.asarray(md.compute_angles(tm, tl, periodic=periodic, opt=opt)).astype(np.float64)
                    tm = gc.make_traj(xyz32 * mirror, **kw)
                    Dm = np.asarray(md.compute_dihedrals(tm, ql, periodic=periodic, opt=opt)).astype(np.float64)
                    acc.cmp("angle-mirror", "angles|%s|mirror" % tag, np.abs(A - Am), 2 * tolT[:, it], mT, dT)
                    acc.cmp("dihedral-mirror", "dihedrals|%s|mirror" % tag, gc.angdiff(Dm, -D), 2 * tolQ[:, iq], mQ, dQ)
        # opt == reference path on the sub-lattice tuples
        (Ao, Do), (An, Dn) = res[(periodic, True)], res[(periodic, False)]
        if Ao.shape == (F, len(T)) and An.shape == (F, len(Ts)) and Do.shape == (F, len(Q)) and Dn.shape == (F, len(Qs)):
            tag = "%s|%s" % (kind, ptag)
            acc.cmp("angle-opt=ref", "angles|%s|opt-vs-ref" % tag, np.abs(Ao[:, iTs].astype(float) - An), 2 * tolT[:, iTs],
                    okT[:, iTs], lambda w: descT((w[0], iTs[w[1]])))
            acc.cmp("dihedral-opt=ref", "dihedrals|%s|opt-vs-ref" % tag, gc.angdiff(Do[:, iQs], Dn), 2 * tolQ[:, iQs],
                    okQ[:, iQs], lambda w: descQ((w[0], iQs[w[1]])))
        if periodic:
            q = int(np.argmax(okQ[0])) if okQ[0].any() else 0
            samples.append({"job": spec["name"], "place": spec["place"], "jit": spec["jit"], "quartet": Q[q].tolist(),
                            "xyz": xyz32[0, Q[q]].tolist(), "cell_vectors": None if Vst is None else Vst[0].tolist(),
                            "oracle_dihedral": float(Dor[0, q]), "compute_dihedrals": float(res[(True, True)][1][0, q])
                            if res[(True, True)][1].shape == (F, len(Q)) else None, "tol": float(tolQ[0, q]),
                            "judged": bool(okQ[0, q])})
    # empty index lists
    t = gc.make_traj(xyz32, **kw)
    for nm, fn, k in (("angles", md.compute_angles, 3), ("dihedrals", md.compute_dihedrals, 4)):
        for opt in (True, False):
            got = np.asarray(fn(t, np.zeros((0, k), dtype=np.int32), opt=opt)).shape
            acc.n["evaluations"] += 1
            if got != (F, 0):
                acc.add("%s|empty-list|shape" % nm, "empty index list: shape %s, expected %s" % (got, (F, 0)))
    viol = [v for lst in acc.viol.values() for v in lst]
    return {"name": spec["name"], "kind": kind, "n": dict(acc.n), "ratio": dict(acc.ratio), "viol": viol,
            "samples": samples[:1], "nT": len(T), "nQ": len(Q), "nTs": len(Ts), "nQs": len(Qs)}


# ---------------------------------------------------------------------------------------------------
# named torsions
# ---------------------------------------------------------------------------------------------------
FUNCS = ["phi", "psi", "omega", "chi1", "chi2", "chi3", "chi4", "chi5"]
SEQ_A = ["ALA", "ARG", "ASN", "ASP", "CYS", "GLN", "GLU", "GLY", "HIS", "ILE", "LEU", "LYS", "MET", "PHE", "PRO", "SER",
         "THR", "TRP", "TYR", "VAL"]
DROP_ATOMS = ["N", "CA", "C", "CB", "CG"]
NCELLS = [None, "cubic3", "tric_75_100_115"]


def _voc(mapping, termini=False):
    def f(k, L, r):
        n = mapping.get(r, r)
        if termini and k == 0:
            n = "N" + n
        if termini and k == L - 1:
            n = "C" + n
        return r if n == r else "%s:%s" % (r, n)
    return f


VOCABULARIES = {
    "pdb": _voc({}),
    "amber/HID": _voc({"HIS": "HID", "CYS": "CYX", "ASP": "ASH", "GLU": "GLH", "LYS": "LYN"}),
    "amber/HIE": _voc({"HIS": "HIE", "CYS": "CYM"}),
    "amber/HIP": _voc({"HIS": "HIP", "LYS": "LYP"}),
    "amber/termini": _voc({"HIS": "HIE"}, termini=True),
    "charmm/HSD": _voc({"HIS": "HSD"}),
    "charmm/HSE": _voc({"HIS": "HSE"}),
    "charmm/HSP": _voc({"HIS": "HSP"}),
    "gromacs": _voc({"HIS": "HISE", "LYS": "LYSH", "CYS": "CYS2", "ASP": "ASPH", "GLU": "GLUH"}),
    "unknown/all": lambda k, L, r: "%s:Z%s%s" % (r, "ABCDEFGHIJKLMNOPQRSTUVWXYZ"[k // 26], "ABCDEFGHIJKLMNOPQRSTUVWXYZ"[k % 26]),
    "unknown/lower": lambda k, L, r: "%s:%s" % (r, r.lower()),
}


RESSEQ_SCHEMES = {
    "from-1": lambda k, L: k + 1,
    "offset-437": lambda k, L: 437 + k,
    "gap": lambda k, L: k + 1 if k < L // 3 else k + 5,                       # ... 6, 11, 12 ...
    "two-gaps": lambda k, L: k + 1 + (3 if k >= 4 else 0) + (10 if k >= 12 else 0),
    "insertion-codes": lambda k, L: k + 1 if k < 5 else (6 if k < 8 else k - 1),   # three consecutive residues numbered 6
    "repeat-at-start": lambda k, L: 1 if k < 3 else k - 1,
    "restart-inside": lambda k, L: k + 1 if k < L // 2 else k - L // 2 + 1,      # 1..10, 1..10 in one chain
    "all-equal-0": lambda k, L: 0,
    "all-equal-1": lambda k, L: 1,
    "negative": lambda k, L: k - 7,                                            # -7 .. 12, crosses 0
    "descending": lambda k, L: 100 - k,
    "shifted-by-one-duplicate": lambda k, L: k + 1 if k < 9 else k,             # ... 9, 9, 10 ...: next residue's number = own
}


def _variants(seqname, seq):
    """All topology variants of one sequence: (family, label, chains, drop, reverse_atoms, hydrogens)."""
    out = [("intact", "intact", [seq], (), False, False),
           ("reversed-atom-order", "reversed-atom-order", [seq], (), True, False),
           ("hydrogens", "hydrogens", [seq], (), False, True)]
    L = len(seq)
    for k in range(1, L):
        out.append(("two-chains", "split@%d" % k, [seq[:k], seq[k:]], (), False, False))
    for k in range(L):
        for a in DROP_ATOMS:
            if a in gc.BACKBONE or a in gc.SIDECHAIN[seq[k]]:
                out.append(("missing-" + a, "res%d(%s)-missing-%s" % (k, seq[k], a), [seq], ((k, a),), False, False))
    for k in range(L + 1):
        out.append(("water-inserted", "water@%d" % k, [seq[:k] + ["HOH"] + seq[k:]], (), False, False))
    if L >= 10:
        # residue-name vocabularies with identical atoms: the documented definitions name atoms, not residue names
        for vname, voc in VOCABULARIES.items():
            named = [voc(k, L, r) for k, r in enumerate(seq)]
            out.append(("vocab-" + vname.split("/")[0], "vocab-" + vname, [named], (), False, False))
            out.append(("vocab-" + vname.split("/")[0], "vocab-%s+split@%d" % (vname, L // 2), [named[:L // 2], named[L // 2:]],
                        (), False, False))
        # residue-number (resSeq) schemes: neighbours are defined by residue ORDER within the chain, never by number
        for sname, fn in RESSEQ_SCHEMES.items():
            numbered = ["%s@%d" % (r, fn(k, L)) for k, r in enumerate(seq)]
            out.append(("resseq-" + sname, "resseq-" + sname, [numbered], (), False, False))
            out.append(("resseq-" + sname, "resseq-%s+split@%d" % (sname, L // 2 + 1), [numbered[:L // 2 + 1], numbered[L // 2 + 1:]],
                        (), False, False))
        for k in range(L):
            named = [("%s:ZZZ" % r) if i == k else r for i, r in enumerate(seq)]
            out.append(("vocab-one-unknown", "res%d(%s)-named-ZZZ" % (k, seq[k]), [named], (), False, False))
    if L >= 4:
        out.append(("three-chains-missing-N", "split@2,split@%d,res3-missing-N" % (L - 1),
                    [seq[:2], seq[2:L - 1], seq[L - 1:]], ((3, "N"),), False, False))
    return [(seqname,) + v for v in out]


def _named_job(var):
    import mdtraj as md
    seqname, family, label, chains, drop, rev, hyd, seed = var
    top, layout = gc.build_peptide(chains, drop=set(drop), reverse_atoms=rev, hydrogens=hyd)
    exp = gc.expected_torsions(layout)
    na = top.n_atoms
    acc = Acc({"named": list(var)})
    menu = _menu()
    base = grids.jitter(2 * na, 3, scale=0.75, seed=seed).reshape(2, na, 3)
    fns = {k: getattr(md, "compute_" + k) for k in FUNCS}
    ntors = 0
    for cn in NCELLS:
        kw = {}
        x = base.copy()
        if cn is not None:
            c = menu[cn]
            kw = dict(lengths=np.array([c["lengths"]] * 2), angles=np.array([c["angles"]] * 2))
            i = np.arange(na)
            sh = np.stack([(i * 7) % 3 - 1, (i * 5 + 1) % 3 - 1, (i * 11 + 2) % 3 - 1], axis=1).astype(np.float64)
            x = x + sh @ c["vectors"]
        xyz32 = x.astype(np.float32)
        t = gc.make_traj(xyz32, top=top, **kw)
        Vst = None if cn is None else t.unitcell_vectors.astype(np.float64)
        x64 = xyz32.astype(np.float64)
        for periodic in (True, False):
            per = periodic and cn is not None
            for opt in (True, False):
                for k in FUNCS:
                    sig = "named|%s|%s|" % (k, family)
                    ctxs = "%s/%s cell=%s periodic=%s opt=%s" % (seqname, label, cn, periodic, opt)
                    idx, val = fns[k](t, periodic=periodic, opt=opt)
                    idx = np.asarray(idx)
                    val = np.asarray(val)
                    e = exp[k]
                    acc.n["evaluations"] += 1
                    acc.n["named_calls"] += 1
                    if idx.shape != e.shape or not np.array_equal(idx, e):
                        acc.add(sig + "indices", "%s: compute_%s returned quartets %s, by atom name (documented definition, residue "
                                "order) %s" % (ctxs, k, idx.tolist(), e.tolist()))
                        continue
                    if val.shape != (2, len(e)):
                        acc.add(sig + "shape", "%s: values shape %s, expected %s" % (ctxs, val.shape, (2, len(e))))
                        continue
                    if len(e) == 0:
                        continue
                    ntors += len(e)
                    ref = np.asarray(md.compute_dihedrals(t, e, periodic=periodic, opt=opt))
                    acc.n["evaluations"] += int(val.size)
                    if not np.array_equal(val, ref):
                        acc.add(sig + "values-vs-compute_dihedrals", "%s: differs from compute_dihedrals on the same quartets" % ctxs)
                    # oracle
                    pl = [x64[:, e[:, m + 1]] - x64[:, e[:, m]] for m in range(3)]
                    if per:
                        mi = [[gc.min_image(p[f], Vst[f], second=True) for f in range(2)] for p in pl]
                        b = [np.array([mi[m][f]["vec"] for f in range(2)]) for m in range(3)]
                        eb = [np.array([gc.tol_disp(pl[m][f], Vst[f][None]) for f in range(2)]) for m in range(3)]
                        hw = 0.5 * grids.cell_widths(Vst[0]).min()
                        ok = np.ones(val.shape, bool)
                        for m in range(3):
                            for f in range(2):
                                ok[f] &= (mi[m][f]["d2"] - mi[m][f]["d"] > GAP_C * eb[m][f]) & \
                                         (gc.in_domain(mi[m][f]["d"], hw, eb[m][f])[0] | menu[cn]["ortho"])
                    else:
                        b = pl
                        eb = [gc.tol_disp(p) for p in pl]
                        ok = np.ones(val.shape, bool)
                    ok &= (gc.sin_between(b[0], b[1]) >= gc.SIN_MIN) & (gc.sin_between(b[1], b[2]) >= gc.SIN_MIN)
                    acc.n["named_values_excluded"] += int((~ok).sum())
                    acc.cmp("named-value", sig + "value", gc.angdiff(val, gc.dihedral_def(*b)), gc.tol_dihedral(*b, *eb), ok,
                            lambda w: "%s torsion row %d frame %d atoms %s" % (ctxs, w[1], w[0], e[w[1]].tolist()))
    counts = {k: int(len(exp[k])) for k in FUNCS}
    viol = [v for lst in acc.viol.values() for v in lst]
    return {"family": family, "label": "%s/%s" % (seqname, label), "n": dict(acc.n), "ratio": dict(acc.ratio), "viol": viol,
            "counts": counts, "key": (tuple(tuple(c) for c in chains), tuple(drop), rev, hyd),
            "sample": {"peptide": "%s/%s" % (seqname, label), "chains": chains, "dropped": list(drop),
                       "expected_quartets": {k: exp[k].tolist()[:3] for k in FUNCS}}}


def _named_variants(ctx):
    seqs = [("all20", SEQ_A)]
    if not ctx.quick:
        seqs.append(("all20-reversed", SEQ_A[::-1]))
        seqs.append(("all20-rotated7", SEQ_A[7:] + SEQ_A[:7]))
    seqs += [("gly1", ["GLY"]), ("ala-gly", ["ALA", "GLY"]), ("arg-pro-lys", ["ARG", "PRO", "LYS"])]
    out = []
    for sn, s in seqs:
        out += _variants(sn, s)
    return [v + (ctx.seed,) for v in out], [s for s, _ in seqs]


# ---------------------------------------------------------------------------------------------------
# named torsions: histories on ONE Topology object  (call -> in-place edit -> call -> edit -> call)
# ---------------------------------------------------------------------------------------------------
HIST_PEPTIDES = {
    "pep10": [["ILE", "LEU", "MET", "ARG", "ASP", "PHE", "GLY", "LYS", "THR", "GLU"]],
    "pep3+4": [["ALA", "ILE", "ASN"], ["GLN", "MET", "TYR", "PRO"]],
}


def _find(top, resname, atomname=None):
    for r in top.residues:
        if r.name == resname:
            if atomname is None:
                return r
            for a in r.atoms:
                if a.name == atomname:
                    return a
    return None


def _rename_atom(resname, old, new):
    def f(top):
        a = _find(top, resname, old)
        if a is None or _find(top, resname, new) is not None:
            return False
        a.name = new
        return True
    return f


def _rename_residue(old, new):
    def f(top):
        r = _find(top, old)
        if r is None:
            return False
        r.name = new
        return True
    return f


def _delete_add(resname, atomname):
    """delete the atom and add an atom of the same name to the same residue: counts kept, the atom gets the last index
    and every later atom moves down by one"""
    def f(top):
        a = _find(top, resname, atomname)
        if a is None:
            return False
        res, el = a.residue, a.element
        top.delete_atom_by_index(a.index)
        top.add_atom(atomname, el, res)
        return True
    return f


def _insert_delete(top):
    """insert a dummy atom as atom 0 of the first residue and delete the last atom: counts kept, every index shifts by one"""
    import mdtraj as md
    last = top.atom(top.n_atoms - 1)
    if last.name in ("N", "CA", "C", "CB", "CG"):
        return False
    top.delete_atom_by_index(last.index)
    top.insert_atom("XX", md.element.hydrogen, top.residue(0), index=0, rindex=0)
    return True


# (label, kind, function); every edit keeps (n_chains, n_residues, n_atoms); renames avoid names that would turn a residue
# into a non-standard one matching another documented pattern (docstrings silent there)
EDITS = [
    ("ILE:CD1->CD", "rename-atom", _rename_atom("ILE", "CD1", "CD")),
    ("ILE:CD->CD1", "rename-atom", _rename_atom("ILE", "CD", "CD1")),
    ("MET:SD->S", "rename-atom", _rename_atom("MET", "SD", "S")),
    ("MET:S->SD", "rename-atom", _rename_atom("MET", "S", "SD")),
    ("MET:N->NX", "rename-atom", _rename_atom("MET", "N", "NX")),
    ("MET:NX->N", "rename-atom", _rename_atom("MET", "NX", "N")),
    ("ILE:C->CX", "rename-atom", _rename_atom("ILE", "C", "CX")),
    ("ILE:CX->C", "rename-atom", _rename_atom("ILE", "CX", "C")),
    ("ASP->ASN", "rename-residue", _rename_residue("ASP", "ASN")),
    ("GLN->GLU", "rename-residue", _rename_residue("GLN", "GLU")),
    ("PHE->TYR", "rename-residue", _rename_residue("PHE", "TYR")),
    ("TYR->PHE", "rename-residue", _rename_residue("TYR", "PHE")),
    ("ILE:CB-delete+add", "delete+add", _delete_add("ILE", "CB")),
    ("MET:N-delete+add", "delete+add", _delete_add("MET", "N")),
    ("ILE:CA-delete+add", "delete+add", _delete_add("ILE", "CA")),
    ("insert-first+delete-last", "insert+delete", _insert_delete),
]


def _layout_from_topology(top):
    """[(resname, {atom name: index})] per chain, read off the containers of the topology as it is now."""
    return [[(r.name, {a.name: a.index for a in r.atoms}) for r in ch.residues] for ch in top.chains]


def _rebuild(top):
    """The same topology built from scratch (same chains, residues, atom names and atom indices)."""
    import mdtraj as md
    new = md.Topology()
    rmap = {}
    for ch in top.chains:
        c = new.add_chain()
        for r in ch.residues:
            rmap[r.index] = new.add_residue(r.name, c, resSeq=r.resSeq)
    for a in sorted(top.atoms, key=lambda a: a.index):        # index order, so that every atom keeps its index
        new.add_atom(a.name, a.element, rmap[a.residue.index])
    assert all(x.index == y.index and x.name == y.name for x, y in
               zip(sorted(top.atoms, key=lambda a: a.index), sorted(new.atoms, key=lambda a: a.index)))
    return new


def _history_job(spec):
    """All histories  call-all, e1, call-all, e2, call-all  for one first edit e1 (e2 over all edits) on one peptide."""
    import mdtraj as md
    pep, i1, seed = spec["hist"]
    acc = Acc(spec)
    fns = {k: getattr(md, "compute_" + k) for k in FUNCS}
    keys = set()

    def call_all(traj, top, hist):
        exp = gc.expected_torsions(_layout_from_topology(top))
        fresh = md.Trajectory(traj.xyz, _rebuild(top))
        for k in FUNCS:
            kind = hist[-1][1] if hist else "no-edit"
            sig = "named-history|%s|after-%s|" % (k, kind)
            where = "%s history: call-all%s" % (pep, "".join(", %s, call-all" % h[0] for h in hist))
            idx, val = fns[k](traj)
            idx, val = np.asarray(idx), np.asarray(val)
            acc.n["evaluations"] += 2
            acc.n["history_calls"] += 1
            e = exp[k]
            if idx.shape != e.shape or not np.array_equal(idx, e):
                acc.add(sig + "indices", "%s: compute_%s on the edited Topology object returned %s, by atom name on the topology as "
                        "it is now: %s" % (where, k, idx.tolist(), e.tolist()))
                continue
            idx2, val2 = fns[k](fresh)
            if np.asarray(idx2).shape != idx.shape or not np.array_equal(idx2, idx) or not np.array_equal(val2, val):
                acc.add(sig + "differs-from-rebuilt-topology", "%s: compute_%s differs between the edited object and the same "
                        "topology rebuilt from scratch" % (where, k))
            if len(e) and not np.array_equal(val, md.compute_dihedrals(traj, e)):
                acc.add(sig + "values-vs-compute_dihedrals", "%s: compute_%s values differ from compute_dihedrals on the quartets"
                        % (where, k))

    for i2 in range(len(EDITS)):
        top, _lay = gc.build_peptide(HIST_PEPTIDES[pep])
        xyz = grids.jitter(2 * top.n_atoms, 3, scale=0.75, seed=seed).reshape(2, top.n_atoms, 3).astype(np.float32)
        traj = md.Trajectory(xyz, top)
        assert traj.topology is top
        counts = (top.n_chains, top.n_residues, top.n_atoms)
        hist = []
        call_all(traj, top, hist)
        for i in (i1, i2):
            lab, kind, fn = EDITS[i]
            if not fn(top):
                break
            assert (top.n_chains, top.n_residues, top.n_atoms) == counts
            hist.append((lab, kind))
            call_all(traj, top, hist)
            keys.add((pep,) + tuple(h[0] for h in hist))
    viol = [v for lst in acc.viol.values() for v in lst]
    return {"family": "history", "n": dict(acc.n), "ratio": dict(acc.ratio), "viol": viol, "histories": sorted(keys)}


def _jobs(ctx):
    quick = ctx.quick
    names = [c["name"] for c in grids.cell_menu(quick=quick)] + ["g45", "g135"]
    dims, sub = ((2, 2, 3), (2, 2, 2)) if quick else ((3, 3, 3), (2, 2, 3))
    jobs = []
    for jit in JITS:
        for place in ("whole", "wrapped", "scattered"):
            common = dict(place=place, jit=jit, dims=dims, sub=sub, seed=ctx.seed)
            for nm in names:
                jobs.append(dict(name=nm, cells=[nm], **common))
            for sn, lst in STACKS.items():
                if len(lst) > 3:      # long stacks: 12 points, reference path on a 4-point sub-lattice (cost ~ frames x tuples)
                    jobs.append(dict(name=sn, cells=list(lst), place=place, jit=jit, dims=(2, 2, 3), sub=(2, 1, 2), seed=ctx.seed))
                else:
                    jobs.append(dict(name=sn, cells=list(lst), **common))
        jobs.append(dict(name="nocell", cells=None, place="whole", jit=jit, dims=dims, sub=sub, seed=ctx.seed))
    for nm in SHORT_IMAGE_CELLS:
        jobs.append(dict(name="short-image/" + nm, cells=[nm], place="short-image", jit=JITS[0], dims=(1, 2, 3), sub=(1, 2, 3),
                         seed=ctx.seed))
    return jobs, names


def _dispatch(item):
    return {"geom": _job, "named": _named_job, "hist": _history_job}[item[0]](item[1])


def run(ctx):
    import mdtraj  # noqa: F401
    jobs, names = _jobs(ctx)
    nvars, seqnames = _named_variants(ctx)
    menu = _menu()
    cost = lambda j: 0 if (j["cells"] is None or j["place"] == "short-image") else sum(0 if menu[c]["ortho"] else 1 for c in j["cells"])
    hjobs = [{"hist": [pep, i1, ctx.seed]} for pep in HIST_PEPTIDES for i1 in range(len(EDITS))]
    items = [("geom", j) for j in sorted(jobs, key=lambda j: -cost(j))] + [("named", v) for v in nvars] + [("hist", h) for h in hjobs]
    res = ctx.pmap(_dispatch, items, chunksize=1)
    geo = res[:len(jobs)]
    nam = res[len(jobs):len(jobs) + len(nvars)]
    his = res[len(jobs) + len(nvars):]
    histories = sorted({tuple(h) for r in his for h in r["histories"]})
    tot = collections.Counter()
    ratio = collections.defaultdict(float)
    for r in res:
        ctx.report(r["viol"])
        tot.update(r["n"])
        for k, v in r["ratio"].items():
            ratio[k] = max(ratio[k], v)
    topo_keys = {r["key"] for r in nam}
    families = collections.Counter(r["family"] for r in nam)
    tors = collections.Counter()
    for r in nam:
        tors.update(r["counts"])
    samples = [r["samples"][0] for r in geo[:: max(1, len(geo) // 4)] if r["samples"]][:4] + [nam[len(nam) // 3]["sample"]]
    cov = {
        "evaluations": int(tot["evaluations"]),
        "distinct_nontrivial": int(tot["distinct_nontrivial"]) + len(topo_keys) + len(histories),
        "rule": "geometry: one case = (cell as stored, placement, jitter scale, frame, periodic flag, ordered index tuple); "
                "tuples are distinct by construction (all permutations of distinct points; jobs differ in cell, placement or "
                "jitter); counted as non-trivial when judged, i.e. every bond has a unique minimum image inside C05's domain "
                "and the tuple is well-conditioned (sines >= 1e-2). named torsions: one case = distinct topology "
                "(chains, dropped atoms, atom order, hydrogens), counted once. evaluations = reported values compared",
        "samples": samples,
        "exhaustive": True,
        "jobs": len(jobs),
        "axes": {"cells": names, "stacks": STACKS, "placements": ["whole", "wrapped", "scattered"], "jitter_scales": list(JITS),
                 "lattice": list(jobs[0]["dims"]), "reference_path_sublattice": list(jobs[0]["sub"]),
                 "triplets_per_frame": geo[0]["nT"], "quartets_per_frame": geo[0]["nQ"],
                 "reference_path_triplets": geo[0]["nTs"], "reference_path_quartets": geo[0]["nQs"],
                 "opt": [True, False], "periodic": [True, False]},
        "triplets": int(tot["triplets"]), "quartets": int(tot["quartets"]),
        "excluded_within_margin": {
            "triplets_with_a_bond_outside_minimum_image_domain_or_not_unique": int(tot["triplets_excluded_bond_domain"]),
            "quartets_with_a_bond_outside_minimum_image_domain_or_not_unique": int(tot["quartets_excluded_bond_domain"]),
            "triplets_ill_conditioned_sin_lt_1e-2": int(tot["triplets_excluded_conditioning"]),
            "quartets_ill_conditioned_sin_lt_1e-2": int(tot["quartets_excluded_conditioning"]),
            "named_torsion_values": int(tot["named_values_excluded"])},
        "bonds": {"total": int(tot["bonds"]), "outside_domain": int(tot["bonds_outside_domain"]),
                  "image_not_unique": int(tot["bonds_image_not_unique"]),
                  "needing_a_nonzero_image_shift": int(tot["bonds_needing_image_shift"])},
        "named_torsions": {"sequences": seqnames, "topologies": len(nam), "distinct_topologies": len(topo_keys),
                           "families": dict(families), "calls": int(tot["named_calls"]),
                           "expected_torsions_per_function_summed_over_topologies": dict(tors),
                           "cells": [str(c) for c in NCELLS]},
        "named_torsion_histories": {
            "rule": "on ONE Topology object (and one Trajectory holding it): call all 8 named-torsion functions, edit in place "
                    "(counts of chains/residues/atoms unchanged), call all, edit, call all; every ordered pair of edits; "
                    "judged against the name-based lookup on the topology as it is at that moment, against the same topology "
                    "rebuilt from scratch, and against compute_dihedrals",
            "peptides": HIST_PEPTIDES, "edits": [(e[0], e[1]) for e in EDITS],
            "distinct_histories_with_at_least_one_edit": len(histories),
            "with_two_edits": sum(1 for h in histories if len(h) == 3), "calls": int(tot["history_calls"]),
            "sample": list(histories[len(histories) // 2]) if histories else None},
        "short_image_design": {
            "cells": SHORT_IMAGE_CELLS,
            "judged_quartets_all_plain_bonds_below_half_the_shortest_edge_but_one_not_the_minimum_image":
                int(tot["quartets_all_plain_bonds_below_half_edge_but_one_not_minimum_image"]),
            "judged_triplets_same_class": int(tot["triplets_all_plain_bonds_below_half_edge_but_one_not_minimum_image"])},
        "index_sublist_calls_compared_with_full_list": int(tot["index_sublist_calls"]),
        "index_list_length_classes": BLOCK_SIZES,
        "comparisons_per_check": {k[4:]: int(v) for k, v in tot.items() if k.startswith("cmp_")},
        "failing_comparisons_per_check": {k[4:]: int(v) for k, v in tot.items() if k.startswith("bad_")},
        "max_err_over_tol_per_check": {k: float(v) for k, v in ratio.items()},
        "max_err_over_tol": float(max(ratio.values())) if ratio else 0.0,
        "tolerance": "bond vector error e = %d*eps32*(2|r|+|a|+|b|+|c|) (plain: %d*eps32*|r|); angle: e_u/|u| + e_v/|v| + "
                     "%d*eps32/sin(theta) + 2*pi*eps32; dihedral: (e1/|b1|+e2/|b2|)/sin12 + (e3/|b3|+e2/|b2|)/sin23 + "
                     "%d*eps32*(1/sin12+1/sin23) + 2*pi*eps32; metamorphic pairs: twice that"
                     % (gc.C_DISP, gc.C_DISP, gc.C_EVAL, gc.C_EVAL),
    }
    return "exploration", cov


def replay(ctx, rep):
    import mdtraj  # noqa: F401
    if "hist" in rep["job"]:
        fn, arg = _history_job, rep["job"]
    elif "named" in rep["job"]:
        fn = _named_job
        arg = list(rep["job"]["named"])
        arg[4] = tuple((int(a), str(b)) for a, b in arg[4])
        arg = tuple(arg)
    else:
        fn, arg = _job, rep["job"]
    a = fn(arg)
    b = fn(arg)
    sa = sorted({v[0] for v in a["viol"]})
    sb = sorted({v[0] for v in b["viol"]})
    print("replay 1:", [v[1] for v in a["viol"] if v[0] == rep["sig"]][:1] or sa)
    print("replay 2:", [v[1] for v in b["viol"] if v[0] == rep["sig"]][:1] or sb)
    assert sa == sb and a["n"] == b["n"], "replay is not deterministic"
    return rep["sig"] not in sa
