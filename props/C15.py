"""C15 — compute_dssp follows the DSSP rules on the backbone H-bond pattern.

Layer 1 (rule engine, kernel seam): vlib/kern/dsspseam.cpp #includes the tree's dssp.cpp and runs
calculate_beta_sheets + calculate_alpha_helices (+ bends) on ARBITRARY H-bond patterns; the complete
pattern spaces A, B, C below are enumerated and every member is compared, exactly, with the independent
reference vlib/refmodels/dssp_ref.py (written from Kabsch & Sander 1983).

  A  bond sets      n in {5,6,7,8} (and the degenerate 2,3,4): every set of <= 3 (thorough 4) admissible bonds (donor d, acceptor a,
                    a != d, a != d-1 — exactly what kabsch_sander can emit), <= 2 acceptors per donor
  B  bridge motifs  n = 10: every set of <= 2 (3) of the paper's four two-bond bridge motifs at every (i,j),
                    plus <= 1 turn bond (i+k -> i, k = 3,4,5)
  D  helix space    n = 10: every set of <= 4 (6) turn bonds (i+k -> i, k = 3,4,5): H/G/I priority, pi over alpha
  E  sheet x helix  n = 10: <= 2 bridge motifs together with 1..2 pairs of consecutive n-turn bonds (minimal
                    3-, 4-, 5-helices): H > B,E > G > I on residues that are bridge partners
  C  ladder pairs   n = 12 (thorough: also triples on n = 10): every set of <= 2 ladder templates (parallel /
                    antiparallel, both H-bond registers, 1..3 consecutive bridges at every position)
  A, D: x chain break in {none, before residue 1..n-1} x one incomplete residue in {none, each residue not
  touched by a bond};  B, C: x ({chain break before 1..n-1} + {one incomplete residue} + {neither});
  each x both slot orders of two-acceptor donors x CA trace in {straight, 90-degree corner at
  k = 2..n-3, coil (all bent)}.

Layer 2 (end to end): protein files of tests/data and deterministic variants (scaled / stretched /
jittered frames, removed backbone atoms, inserted ion / water / cap residues, extra chain boundaries):
reference applied to md.kabsch_sander(traj) + CA coordinates == md.compute_dssp(traj, simplified=False);
simplified image; 'NA' exactly on incomplete residues; shape; per-frame independence; pattern used by dssp()
== pattern reported by md.kabsch_sander.

Layer 3 (histories, one process): on 1vii, 1bpi, 2EQQ, for residues r in {helix interior, strand, termini, turn, ..} and
one backbone atom (O->OX, N->NX, CA->CX, C->CX, C-terminal O->OT1): [analyse; rename the atom IN PLACE; analyse; analyse a
copy of the topology; rename back; analyse; analyse a copy] and the repair direction [first analysis with the atom already
misnamed; rename to the backbone name in place; analyse; analyse a copy]; every analysis is the full layer-2 assertion set
(simplified False and True, kabsch_sander), the reference reading the atom names of the topology at that moment.
"""
import ctypes
import hashlib
import itertools
import math
import os

import numpy as np

MANIFEST = {
    "category": "exploration",
    "engine": "gridx+seam",
    "technique": "exhaustive enumeration of bounded H-bond pattern spaces through a kernel seam of dssp.cpp against a "
                 "from-the-paper DSSP rule engine, plus end-to-end comparison on structures",
    "text": "Rule engine of dssp.cpp (beta sheets/ladders/bulges, helices/turns, bends) called through a ctypes seam "
            "(vlib/kern/dsspseam.cpp, compiled from the tree under test) on every member of five finite pattern spaces: "
            "(A) all sets of <=3 (thorough <=4) admissible backbone H-bonds on n=5..8 residues, (B) all sets of <=2 (<=3) "
            "bridge motifs + <=1 turn bond on n=10, (C) all sets of <=2 ladder templates on n=12 (thorough also <=3 on n=10), "
            "(D) all sets of <=4 (<=6) turn bonds on n=10, (E) <=2 bridge motifs x 1..2 minimal-helix turn pairs on n=10; "
            "each x chain-break position x one incomplete residue x slot order x CA trace (straight, corner at k, coil). "
            "Oracle: independent set-based DSSP reference written from Kabsch & Sander 1983 (vlib/refmodels/dssp_ref.py), "
            "compared exactly per residue. End to end: 11 files of tests/data, one constructed structure, and deterministic variants (perturbed frames, removed "
            "backbone atoms, inserted non-protein residues, extra chain boundaries): reference(md.kabsch_sander pattern, CA) == "
            "compute_dssp(simplified=False), simplified = 3-letter image, 'NA' exactly on incomplete residues, shape, "
            "per-frame independence. Histories in one process on 3 files: analyse / rename one backbone atom of residue r in place / "
            "analyse / analyse a copy / rename back / analyse / copy, plus the repair direction, each judged against the topology as it "
            "is at that moment (no state may survive between calls). Right level: the property is a statement about a discrete rule system on H-bond "
            "patterns; the pattern space, not the space of 3-D structures, can be enumerated completely.",
    "note": "Conventions taken from the DSSP program where the paper is silent (counted per run): minimal G/I helices are "
            "all-or-nothing, pi overrides alpha (property text), E over B, parallel before antiparallel, chain break = chain "
            "id change only. NOT judged (both readings accepted, counted): whether two ladders sharing an end residue on the "
            "second strand are bulge-linked (A-share; mdtraj is inconsistent with DSSP-2.2 here, see triage/C15.md), whether a "
            "turn / bridge stretch / bend window may span an incomplete residue (lenient = mdtraj, strict = DSSP chain break), "
            "and patterns whose bulge linking depends on the linking order (A-linkorder, dropped). Bends within 1e-5 rad of 70 "
            "degrees are excluded and counted. Variants that would make kabsch_sander read a missing C/O of the previous "
            "residue (property C14) are not generated. Trusted: numpy, scipy.sparse, ctypes, the reference model.",
    "ref": "DESIGN.md §3 C15, §2.7",
}

from vlib import build
from vlib.refmodels import dssp_ref as R

MARGIN_RAD = 1e-5
MARGIN_DEG = math.degrees(MARGIN_RAD)
WILD = ord("*")

_L = None          # ctypes lib or False (nothing builds); attributes .has_rules / .has_api
_LERR = None       # why the rule-engine seam is unavailable (None if it is available)


def _lib(repo):
    """Kernel seam, optional.  dsspseam.cpp calls static functions of dssp.cpp by name; if an internal refactoring
    of the tree changes them the seam no longer compiles — that is not a property violation, so the rule-engine
    layer is skipped (with a WARNING and an assumption) instead of failing the check.  The two sub-checks of the
    end-to-end layer that use the extern C entry points fall back to dsspseam_api.cpp, and are skipped too if
    even that does not build."""
    global _L, _LERR
    if _L is not None:
        return _L or None
    vp, ci = ctypes.c_void_p, ctypes.c_int
    L = None
    for name, rules in (("dsspseam", True), ("dsspseam_api", False)):
        try:
            L = ctypes.CDLL(build.build_kernlib(name, repo, "rel"))
            if rules:
                L.dsspseam_rules.argtypes = [vp, vp, vp, vp, vp, ci, ci, vp]
                L.dsspseam_rules_batch.argtypes = [ci, ci, vp, ci, vp, vp, vp, vp]
            L.dsspseam_hbonds.argtypes = [vp, vp, vp, vp, ci, ci, vp, vp]
            L.dsspseam_dssp.argtypes = [vp, vp, vp, vp, vp, ci, ci, ci, vp]
            L.has_rules = rules
            break
        except (RuntimeError, OSError, AttributeError) as e:
            L = None
            if rules:
                msg = [ln for ln in str(e).splitlines() if "error" in ln]
                _LERR = (msg[0] if msg else str(e).splitlines()[0])[:300]
    _L = L if L is not None else False
    return L


def _p(a):
    return a.ctypes.data_as(ctypes.c_void_p)


# ================================================================================================
# pattern spaces
# ================================================================================================
def pairs(n):
    """(donor, acceptor) pairs kabsch_sander can emit: acceptor != donor, acceptor != donor-1."""
    return [(d, a) for d in range(n) for a in range(n) if a != d and a != d - 1]


def mask_of(n, bonds):
    m = 0
    for d, a in bonds:
        m |= 1 << (d * n + a)
    return m


def bonds_of(n, mask):
    out = []
    k = 0
    while mask:
        if mask & 1:
            out.append((k // n, k % n))
        mask >>= 1
        k += 1
    return out


def _hb(co, nh):
    """paper's Hbond(co, nh) as a (donor, acceptor) pair"""
    return (nh, co)


def motif(kind, i, j):
    if kind == "P1":
        return [_hb(i - 1, j), _hb(j, i + 1)]
    if kind == "P2":
        return [_hb(j - 1, i), _hb(i, j + 1)]
    if kind == "A1":
        return [_hb(i, j), _hb(j, i)]
    if kind == "A2":
        return [_hb(i - 1, j + 1), _hb(j - 1, i + 1)]
    raise ValueError(kind)


def space_A(n, K):
    ps = pairs(n)
    out = []
    for k in range(K + 1):
        for c in itertools.combinations(ps, k):
            out.append(mask_of(n, c))
    return out


def space_B(n, M):
    mot = []
    for i in range(1, n - 1):
        for j in range(i + 3, n - 1):
            for kind in ("P1", "P2", "A1", "A2"):
                mot.append(mask_of(n, motif(kind, i, j)))
    turns = [0] + [mask_of(n, [(i + k, i)]) for k in (3, 4, 5) for i in range(0, n - k)]
    seen = set()
    for m in range(M + 1):
        for c in itertools.combinations(mot, m):
            u = 0
            for x in c:
                u |= x
            for t in turns:
                seen.add(u | t)
    return sorted(seen), len(mot), len(turns) - 1


def space_D(n, K):
    """Helix space: every set of <= K turn bonds (i+k -> i, k = 3,4,5)."""
    tb = [(i + k, i) for k in (3, 4, 5) for i in range(0, n - k)]
    out = []
    for m in range(K + 1):
        for c in itertools.combinations(tb, m):
            out.append(mask_of(n, c))
    return out, len(tb)


def space_E(n, quick):
    """Sheet x helix overlap: bridge motifs together with PAIRS of consecutive n-turn bonds (minimal n-helices,
    n = 3, 4, 5): quick (<= 1 motif x <= 2 pairs) + (2 motifs x 1 pair); thorough <= 2 motifs x <= 2 pairs
    (at least one pair each)."""
    mot = []
    for i in range(1, n - 1):
        for j in range(i + 3, n - 1):
            for kind in ("P1", "P2", "A1", "A2"):
                mot.append(mask_of(n, motif(kind, i, j)))
    tp = [mask_of(n, [(i - 1 + k, i - 1), (i + k, i)]) for k in (3, 4, 5) for i in range(1, n - k)]
    msets = {0: [0], 1: mot, 2: [a | b for a, b in itertools.combinations(mot, 2)]}
    psets = {1: tp, 2: [a | b for a, b in itertools.combinations(tp, 2)]}
    combos = [(0, 1), (0, 2), (1, 1), (1, 2), (2, 1)] + ([] if quick else [(2, 2)])
    seen = set()
    for nm, np_ in combos:
        for a in msets[nm]:
            for b in psets[np_]:
                seen.add(a | b)
    return sorted(seen), len(mot), len(tp)


def ladder_templates(n):
    """Natural H-bond patterns of ladders: type x register x start (i,j) x 1..3 consecutive bridges."""
    out = set()
    for i in range(1, n - 1):
        for j in range(i + 3, n - 1):
            for L in (1, 2, 3):
                # parallel (i+k, j+k)
                if j + L - 1 <= n - 2 and i + L - 1 < j - 1:
                    for reg in (0, 1):
                        b = []
                        for k in range(L):
                            b += motif("P1" if (k + reg) % 2 == 0 else "P2", i + k, j + k)
                        out.add(mask_of(n, b))
                # antiparallel (i+k, j-k)
                if (j - (L - 1)) - (i + (L - 1)) >= 3:
                    for reg in (0, 1):
                        b = []
                        for k in range(L):
                            b += motif("A1" if (k + reg) % 2 == 0 else "A2", i + k, j - k)
                        out.add(mask_of(n, b))
    return sorted(out)


def space_C(n, M):
    tpl = ladder_templates(n)
    seen = set()
    for m in range(M + 1):
        for c in itertools.combinations(tpl, m):
            u = 0
            for x in c:
                u |= x
            seen.add(u)
    return sorted(seen), len(tpl)


def traces(n, seed):
    """CA traces: names, float32 (T,n,3), float64 kappas (T,n) in degrees (nan where undefined)."""
    d = 0.38
    names, pts = [], []
    names.append("straight")
    pts.append([(d * i, 0.0, 0.0) for i in range(n)])
    for k in range(2, n - 2):
        names.append("corner@%d" % k)
        pts.append([(d * i, 0.0, 0.0) if i <= k else (d * k, d * (i - k), 0.0) for i in range(n)])
    names.append("coil")
    ph = math.radians(50.0)
    pts.append([(0.3 * math.cos(i * ph), 0.3 * math.sin(i * ph), 0.05 * i) for i in range(n)])
    # seed: a rigid rotation + translation (deterministic jitter phase); angles are invariant
    a, b = 0.37 * seed + 0.11, 0.23 * seed
    rz = np.array([[math.cos(a), -math.sin(a), 0], [math.sin(a), math.cos(a), 0], [0, 0, 1]])
    rx = np.array([[1, 0, 0], [0, math.cos(b), -math.sin(b)], [0, math.sin(b), math.cos(b)]])
    xyz = (np.array(pts, dtype=np.float64) @ (rz @ rx).T + np.array([0.1 * seed, -0.05 * seed, 0.02])).astype(np.float32)
    kap = np.full((len(names), n), np.nan)
    for t in range(len(names)):
        ca = xyz[t].astype(np.float64)
        for i in range(2, n - 2):
            kap[t, i] = R.kappa_deg(ca, i)
    fin = kap[np.isfinite(kap)]
    assert fin.size == 0 or np.min(np.abs(fin - 70.0)) > 5.0, "trace design: kappa must stay far from the threshold"
    return names, np.ascontiguousarray(xyz), kap


# ================================================================================================
# layer 1 worker
# ================================================================================================
def _letters(s):
    return "".join(sorted(set(s))).replace(" ", "-")


def _slots(n, bonds, desc):
    hb = [-1] * (2 * n)
    by = {}
    for d, a in bonds:
        by.setdefault(d, []).append(a)
    for d, acc in by.items():
        acc.sort(reverse=desc)
        hb[2 * d] = acc[0]
        if len(acc) > 1:
            hb[2 * d + 1] = acc[1]
    return hb


def _expected(b, bends_t):
    return [R.overlay_bend_indices(b, idx) for idx in bends_t]


def _rules_chunk(item):
    space, n, masks, seed, repo = item
    full_product = space in ("A", "D")   # A, D: break x incomplete; B, C, E: break + incomplete (one of the two at a time)
    L = _lib(repo)
    names, xyz, kap = traces(n, seed)
    T = len(names)
    kap_l = [list(k) for k in kap]
    bendcache = {}

    def bends_for(b, cb, m, mode):
        key = (cb, m, mode)
        v = bendcache.get(key)
        if v is None:
            v = [[i for i, x in enumerate(R.bend_flags(b, k)[0]) if x] for k in kap_l]
            bendcache[key] = v
        return v

    chains = {None: [0] * n}
    for cb in range(1, n):
        chains[cb] = [0] * cb + [1] * (n - cb)

    rows_h, rows_c, rows_s = [], [], []
    exp_rows = []          # primary expected strings (T per row), joined
    meta = []              # row -> (mask, cb, m, desc)
    st = {"cases": 0, "nontrivial": 0, "inadmissible": 0, "dropped_linkorder": 0, "dropped_share": 0, "flag_hist": {}}
    outs = set()
    for mask in masks:
        bonds = bonds_of(n, mask)
        cnt = {}
        for d, a in bonds:
            cnt[d] = cnt.get(d, 0) + 1
        if any(v > 2 for v in cnt.values()):
            st["inadmissible"] += 1
            continue
        two = any(v == 2 for v in cnt.values())
        touched = set(x for bd in bonds for x in bd)
        free = [r for r in range(n) if r not in touched]
        hb_a = _slots(n, bonds, False)
        hb_d = _slots(n, bonds, True) if two else None
        for cb in [None] + list(range(1, n)):
            chain = chains[cb]
            for m in [None] + (free if (full_product or cb is None) else []):
                miss = frozenset() if m is None else frozenset((m,))
                b = R.base(n, bonds, chain, miss, R.LENIENT, True)
                st["cases"] += 1
                if "A-linkorder" in b.flags:
                    st["dropped_linkorder"] += 1
                    continue
                for f in b.flags:
                    st["flag_hist"][f] = st["flag_hist"].get(f, 0) + 1
                e = _expected(b, bends_for(b, cb, m, R.LENIENT))
                if any(c != " " for c in b.codes):
                    st["nontrivial"] += 1
                outs.add(e[-1])
                skip = [0] * n
                ej = "".join(e)
                if m is not None:
                    skip[m] = 1
                for desc, hb in ((0, hb_a), (1, hb_d)):
                    if hb is None:
                        continue
                    rows_h.append(hb)
                    rows_c.append(chain)
                    rows_s.append(skip)
                    exp_rows.append(ej)
                    meta.append((mask, cb, m, desc))
    P = len(meta)
    records, nviol, alt_used = [], 0, {"A-share": 0, "missing-inside": 0}
    if P:
        H = np.array(rows_h, dtype=np.int32)
        C = np.array(rows_c, dtype=np.int32)
        S = np.array(rows_s, dtype=np.int32)
        out = np.zeros((P, T, n), dtype=np.uint8)
        L.dsspseam_rules_batch(P, n, _p(H), T, _p(xyz), _p(C), _p(S), _p(out))
        sm = S.astype(bool)[:, None, :]
        out = np.where(sm, WILD, out).astype(np.uint8)
        exp = np.frombuffer("".join(exp_rows).encode("ascii"), dtype=np.uint8).reshape(P, T, n)
        exp = np.where(sm, WILD, exp)
        bad = np.nonzero((out != exp).any(axis=(1, 2)))[0]
        for r in bad:
            got = out[r]
            ok = False
            mask, cb, m, desc = meta[r]
            bonds = bonds_of(n, mask)
            miss = frozenset() if m is None else frozenset((m,))
            # alternative admissible readings (computed only for rows that differ from the primary reading)
            def matches(b2, mode):
                e2 = np.frombuffer("".join(_expected(b2, bends_for(b2, cb, m, mode))).encode("ascii"),
                                   dtype=np.uint8).reshape(T, n)
                return np.array_equal(got, np.where(sm[r], WILD, e2))

            kind = _alt_reading(n, bonds, chains[cb], miss, matches)
            if kind == "undecidable":
                st["dropped_share"] = st.get("dropped_share", 0) + 1
                ok = True
            elif kind:
                alt_used[kind] += 1
                ok = True
            if ok:
                continue
            nviol += 1
            t = int(np.nonzero((out[r] != exp[r]).any(axis=1))[0][0])
            g = bytes(out[r, t]).decode()
            e = bytes(exp[r, t]).decode()
            pos = [i for i in range(n) if g[i] != e[i]]
            b = R.base(n, bonds, chains[cb], miss)
            sig = "rules|exp=%s|got=%s|%s" % (_letters(e[i] for i in pos), _letters(g[i] for i in pos), _cls(b, n, bonds))
            if len(records) < 40:
                rep = {"kind": "rules", "n": n, "hbonds": rows_h[r], "chain": rows_c[r], "skip": rows_s[r],
                       "ca": xyz[t].tolist(), "trace": names[t], "space": space}
                records.append((sig, "space %s n=%d bonds(donor,acceptor)=%s break_before=%s incomplete=%s trace=%s: "
                                     "seam %r, reference %r" % (space, n, bonds, cb, m, names[t], g, e), rep))
    st.update({"rows": P, "evaluations": P * T, "violations": nviol, "alt_used": alt_used,
               "sample": None if not meta else {"space": space, "n": n, "bonds_donor_acceptor": bonds_of(n, meta[P // 2][0]),
                                                "break_before": meta[P // 2][1], "incomplete": meta[P // 2][2],
                                                "expected_per_trace": dict(zip(names, [exp_rows[P // 2][k * n:(k + 1) * n]
                                                                                       for k in range(T)]))}})
    return ("rules", space, n, st, outs, records)


def _alt_reading(n, bonds, chain, miss, matches):
    """Does the observed output equal the reference under one of the admissible alternative readings?
    Readings: every subset of the A-share junctions links (<= 4 junctions, else undecidable) x
    {lenient, strict (only with an incomplete residue)}.  Returns the kind of reading or None."""
    modes = [R.LENIENT] + ([R.STRICT] if miss else [])
    for mode in modes:
        keys = set()
        for sh in (True, False):
            b2 = R.base(n, bonds, chain, miss, mode, sh)
            keys |= b2.share_keys
            if (mode != R.LENIENT or sh is not True) and (sh is True or b2.share_keys) and matches(b2, mode):
                return "A-share" if mode == R.LENIENT else "missing-inside"
        if len(keys) > 4:
            return "undecidable"
        keys = sorted(keys)
        for k in range(1, len(keys)):
            for sub in itertools.combinations(keys, k):
                b2 = R.base(n, bonds, chain, miss, mode, frozenset(sub))
                if matches(b2, mode):
                    return "A-share" if mode == R.LENIENT else "missing-inside"
    return None


def _cls(b, n, bonds):
    """Class of a pattern for signatures: the most specific rule area involved."""
    if overlap_second_strand(b):
        return "ladders-overlap-on-second-strand"
    if "bulge" in b.flags or "A-share" in b.flags:
        return "bulge"
    if b.ladders:
        return "sheet"
    if any(b.turns[k] for k in (3, 4, 5)):
        return "turns"
    return "plain"


def overlap_second_strand(b):
    """True if two same-type ladders follow each other on the first strand (gap <= 4) while their ranges on
    the second strand overlap by more than the shared end residue — never a bulge link by paper or DSSP."""
    ls = [list(x) for x in b.ladders] + [list(x) for x in b.ladders_unlinked if x not in b.ladders]
    for X in ls:
        for Y in ls:
            if X is Y or X[0] != Y[0] or Y[1] <= X[2] or Y[1] - X[2] - 1 > 4:
                continue
            gj = (Y[3] - X[4] - 1) if X[0] == "P" else (X[3] - Y[4] - 1)
            if gj < -1:
                return True
    return False


# ================================================================================================
# layer 2: end to end
# ================================================================================================
FILES = ["1bpi.pdb", "1vii.pdb", "2EQQ.pdb", "4ZUO.pdb", "1am7_protein.pdb", "native.pdb", "bpti.pdb", "4OH9.pdb",
         "aaqaa-wat.pdb", "1vii_sustiva_water.pdb", "2koc.pdb"]
BB = ("N", "CA", "C", "O")
# A constructed (non-physical) 10-residue backbone, atoms N, CA, C, O per residue (nm), whose Kabsch-Sander pattern is
# exactly the parallel ladder (1,6),(2,7),(3,8) plus the parallel bridge (4,7): bonds (donor, acceptor) =
# (2,6) (4,8) (5,7) (6,0) (7,3) (8,2), every energy > 0.2 kcal/mol away from the -0.5 threshold.  Found by numerical
# optimisation (triage/C15.md); realises the "ladders overlap on the second strand" pattern class end to end.
SYNTH = {"synthetic:ladder3+bridge": [
    [0.527, 0.717, 0.49], [0.497, 0.566, 0.462], [0.436, 0.436, 0.397], [0.482, 0.341, 0.464], [0.702, 0.253, 0.65],
    [0.676, 0.257, 0.504], [0.639, 0.27, 0.356], [0.672, 0.304, 0.236], [0.64, 0.557, 0.671], [0.782, 0.632, 0.72],
    [0.938, 0.604, 0.715], [1.06, 0.546, 0.696], [0.537, 0.489, 0.31], [0.466, 0.465, 0.443], [0.564, 0.397, 0.544],
    [0.646, 0.474, 0.511], [0.258, 0.511, 0.888], [0.352, 0.633, 0.862], [0.507, 0.681, 0.857], [0.6, 0.73, 0.885],
    [0.492, 0.781, 0.782], [0.372, 0.703, 0.768], [0.326, 0.606, 0.88], [0.313, 0.504, 0.842], [0.489, 0.594, 0.414],
    [0.559, 0.522, 0.524], [0.463, 0.4, 0.566], [0.475, 0.345, 0.662], [0.655, 0.444, 0.662], [0.653, 0.591, 0.742],
    [0.714, 0.748, 0.842], [0.807, 0.781, 0.893], [0.758, 0.649, 0.815], [0.611, 0.591, 0.864], [0.483, 0.504, 0.873],
    [0.556, 0.398, 0.851], [0.67, 0.738, 0.389], [0.586, 0.754, 0.259], [0.489, 0.781, 0.154], [0.394, 0.763, 0.064]]}


def _synth_traj(name):
    import mdtraj as md
    x = np.array(SYNTH[name], dtype=np.float32)
    top = md.Topology()
    ch = top.add_chain()
    for _i in range(len(x) // 4):
        r = top.add_residue("GLY", ch)
        for nm, el in (("N", "N"), ("CA", "C"), ("C", "C"), ("O", "O")):
            top.add_atom(nm, md.element.get_by_symbol(el), r)
    return md.Trajectory(x.reshape(1, -1, 3), top)


def _first(res, name):
    for a in res.atoms:
        if a.name == name:
            return a.index
    return -1


def _arrays(top):
    res = list(top.residues)
    nco = np.array([[_first(r, "N"), _first(r, "C"), _first(r, "O")] for r in res], dtype=np.int32).reshape(len(res), 3)
    ca = np.array([_first(r, "CA") for r in res], dtype=np.int32)
    pro = np.array([r.name == "PRO" for r in res], dtype=np.int32)
    chain = np.array([r.chain.index for r in res], dtype=np.int32)
    complete = (nco >= 0).all(axis=1) & (ca >= 0)
    return nco, ca, pro, chain, complete


def _rebuild(traj, drop_atoms=(), insert=None, split_before=()):
    """New trajectory: atoms in drop_atoms removed; insert = (residue index k, resname, [(atomname, element)], offset)
    puts a new residue in front of residue k (same chain); split_before = residue indices that start a new chain."""
    import mdtraj as md
    from mdtraj.core import element as el
    old = traj.topology
    top = md.Topology()
    cols = []
    newxyz = []
    drop = set(int(x) for x in drop_atoms)
    for ch in old.chains:
        c = top.add_chain()
        for r in ch.residues:
            if r.index in split_before and r.index != ch.residue(0).index:
                c = top.add_chain()
            if insert is not None and insert[0] == r.index:
                _k, rn, atoms, off = insert
                nr = top.add_residue(rn, c, 9000)
                anchor = next(iter(r.atoms)).index
                for q, (an, sym) in enumerate(atoms):
                    top.add_atom(an, el.get_by_symbol(sym), nr)
                    newxyz.append((anchor, np.array(off) + 0.05 * q))
                    cols.append(None)
            atoms = [a for a in r.atoms if a.index not in drop]
            if not atoms:
                continue
            nr = top.add_residue(r.name, c, r.resSeq)
            for a in atoms:
                top.add_atom(a.name, a.element, nr)
                cols.append(a.index)
    xyz = np.empty((traj.n_frames, len(cols), 3), dtype=np.float32)
    q = 0
    for k, cidx in enumerate(cols):
        if cidx is None:
            anchor, off = newxyz[q]
            q += 1
            xyz[:, k, :] = traj.xyz[:, anchor, :] + off.astype(np.float32)
        else:
            xyz[:, k, :] = traj.xyz[:, cidx, :]
    return md.Trajectory(xyz, top)


def _jitter(xyz, amp, phase):
    idx = np.arange(xyz.shape[0], dtype=np.float64)[:, None]
    ax = np.arange(3, dtype=np.float64)[None, :]
    return xyz + amp * np.sin(12.9898 * idx + 78.233 * ax + 1.0 + phase) * np.cos(3.7 * idx * (ax + 1) + phase)


def _perturbed(frame0, seed):
    """Deterministic perturbed / unfolded / coil-like variants of one frame, float32 (F, n_atoms, 3)."""
    x = frame0.astype(np.float64)
    c = x.mean(axis=0)
    ph = 0.618 * seed
    out = [x,
           c + (x - c) * 0.97, c + (x - c) * 1.03, c + (x - c) * 1.10,
           c + (x - c) * np.array([1.5, 1.0, 1.0]),
           c + (x - c) * np.array([1.0, 0.8, 1.25]),
           _jitter(x, 0.02, ph), _jitter(x, 0.05, ph + 1.0), _jitter(x, 0.12, ph + 2.0)]
    return np.array(out).astype(np.float32)


def _bonds_from_ks(mat):
    coo = mat.tocoo()
    return sorted(set((int(d), int(a)) for a, d in zip(coo.row, coo.col)))


def _check_traj(L, label, vkind, tr, st, records, frames_independent=True, layer="e2e"):
    """All end-to-end assertions on one trajectory."""
    import mdtraj as md

    def viol(sig, detail):
        st["violations"] += 1
        if len(records) < 30:
            records.append((sig, "%s: %s" % (label, detail), {"kind": layer, "label": label}))

    top = tr.topology
    nco, ca, pro, chain, complete = _arrays(top)
    n = len(ca)
    F = tr.n_frames
    full = md.compute_dssp(tr, simplified=False)
    simp = md.compute_dssp(tr, simplified=True)
    ks = md.kabsch_sander(tr)
    st["trajectories"] += 1
    if full.shape != (F, n) or simp.shape != (F, n):
        viol(layer + "|shape", "shape %s / %s, expected %s" % (full.shape, simp.shape, (F, n)))
        return
    # 'NA' exactly on incomplete residues
    na = (full == "NA")
    if not np.array_equal(na, np.broadcast_to(~complete, (F, n))) or not np.array_equal(simp == "NA", na):
        viol(layer + "|NA-mask", "'NA' positions differ from the residues lacking N/CA/C/O: frame/res %s"
             % (np.argwhere(na != ~complete[None, :])[:5].tolist()))
    # simplified image
    img = np.array([["NA" if c == "NA" else R.SIMPLIFIED.get(str(c), "?") for c in row] for row in full],
                   dtype="U2").reshape(F, n)
    if not np.array_equal(img, simp):
        w = np.argwhere(img != simp)[:5]
        viol(layer + "|simplified-image", "simplified != image of full at %s: full %s simp %s" % (
            w.tolist(), [full[tuple(x)] for x in w], [simp[tuple(x)] for x in w]))
    alphabet = set(np.unique(full).tolist())
    if not alphabet <= set("HBEGITS ") | {"NA"}:
        viol(layer + "|alphabet", "codes %s" % sorted(alphabet))
    missing = frozenset(int(i) for i in np.nonzero(~complete)[0])
    xyz = np.ascontiguousarray(tr.xyz, dtype=np.float32)
    cl = chain.tolist()
    caz = np.where(ca >= 0, ca, 0)
    for f in range(F):
        bonds = _bonds_from_ks(ks[f])
        st["frames"] += 1
        st["residues"] += n
        st["hbonds"] += len(bonds)
        if any(d in missing or a in missing for d, a in bonds):
            viol(layer + "|incomplete-residue-in-hbond", "kabsch_sander reports a bond of an incomplete residue")
        # the pattern dssp() uses == the pattern kabsch_sander reports
        hbo = np.full((n, 2), -1, dtype=np.int32)
        heo = np.empty((n, 2), dtype=np.float32)
        if L is not None:
            L.dsspseam_hbonds(_p(xyz[f]), _p(nco), _p(ca), _p(pro), xyz.shape[1], n, _p(hbo), _p(heo))
        inner = sorted((int(d), int(a)) for d in range(n) for a in hbo[d] if a >= 0)
        if L is not None and inner != bonds:
            viol(layer + "|pattern-inside-dssp-differs-from-kabsch_sander",
                 "bonds only in dssp(): %s, only in kabsch_sander: %s" % (sorted(set(inner) - set(bonds))[:5],
                                                                          sorted(set(bonds) - set(inner))[:5]))
        cax = xyz[f][caz].astype(np.float64)
        kaps = [float("nan")] * n
        for i in range(2, n - 2):
            if complete[i] and complete[i - 2] and complete[i + 2]:
                k = R.kappa_deg(cax, i)
                kaps[i] = k
                if k == k:
                    st["min_kappa_dist_deg"] = min(st["min_kappa_dist_deg"], abs(k - 70.0))
        b0 = R.base(n, bonds, cl, missing, R.LENIENT, True)
        bend, near = R.bend_flags(b0, kaps, margin_deg=MARGIN_DEG)
        exp = R.overlay_bends(b0, bend)
        flags = b0.flags
        for fl in flags:
            st["flag_hist"][fl] = st["flag_hist"].get(fl, 0) + 1
        if "A-linkorder" in flags:
            st["dropped_linkorder"] += 1
            continue
        got = full[f]
        cmp_idx = [i for i in range(n) if complete[i] and i not in near]
        st["excluded_near_threshold"] += len(near)
        bad = [i for i in cmp_idx if got[i] != exp[i]]
        if bad:
            def matches(b2, mode):
                e2 = R.overlay_bends(b2, R.bend_flags(b2, kaps)[0])
                return all(got[i] == e2[i] for i in cmp_idx)

            kind = _alt_reading(n, bonds, cl, missing, matches)
            if kind == "undecidable":
                st["dropped_share"] = st.get("dropped_share", 0) + 1
            elif kind:
                st["alt_used"][kind] = st["alt_used"].get(kind, 0) + 1
            else:
                sig = layer + "|full-vs-reference|exp=%s|got=%s|%s" % (_letters(exp[i] for i in bad),
                                                                    _letters(got[i] for i in bad), _cls(b0, n, bonds))
                lo, hi = max(0, bad[0] - 6), min(n, bad[0] + 7)
                viol(sig, "frame %d residues %s: compute_dssp %r, reference %r (window %d..%d)" % (
                    f, bad[:8], "".join(c if c != "NA" else "*" for c in got[lo:hi]), exp[lo:hi], lo, hi - 1))
        st["compared_residues"] += len(cmp_idx)
        st["nontrivial_frames"] += int(any(c not in " S" for c in exp))
        st["outputs"].add(hashlib.md5(exp.encode()).hexdigest())
        for c in set(exp[i] for i in cmp_idx):
            st["letters"][c] = st["letters"].get(c, 0) + sum(1 for i in cmp_idx if exp[i] == c)
    # per-frame independence
    if frames_independent and F > 1:
        for f in sorted(set([0, F // 2, F - 1])):
            one = md.compute_dssp(tr[f], simplified=False)
            if not np.array_equal(one[0], full[f]):
                viol(layer + "|frame-independence", "compute_dssp(traj)[%d] != compute_dssp(traj[%d])" % (f, f))
    # dssp() on independently prepared arrays == compute_dssp
    if L is None:
        return
    sec = np.zeros(F * n, dtype=np.uint8)
    L.dsspseam_dssp(_p(xyz), _p(nco), _p(ca), _p(pro), _p(chain), F, xyz.shape[1], n, _p(sec))
    raw = sec.reshape(F, n)
    want = np.where(complete[None, :], raw, WILD)
    have = np.array([[ord(c) if c != "NA" else WILD for c in row] for row in full], dtype=np.uint8).reshape(F, n)
    if not np.array_equal(want, have):
        viol(layer + "|wrapper-vs-dssp()", "compute_dssp differs from dssp() called on independently prepared arrays")


def _e2e_file(item):
    fname, quick, seed, repo = item
    import mdtraj as md
    import warnings
    warnings.simplefilter("ignore")
    L = _lib(repo)
    st = {"file": fname, "violations": 0, "trajectories": 0, "frames": 0, "residues": 0, "hbonds": 0,
          "compared_residues": 0, "excluded_near_threshold": 0, "min_kappa_dist_deg": 1e9, "flag_hist": {},
          "alt_used": {}, "dropped_linkorder": 0, "nontrivial_frames": 0, "outputs": set(), "letters": {}, "variants": []}
    records = []
    t = _synth_traj(fname) if fname in SYNTH else md.load(os.path.join(repo, "tests/data", fname))
    nF = 3 if quick else min(t.n_frames, 20)
    t = t[:nF]
    big = t.n_residues > 400

    def run(vname, vkind, tr):
        st["variants"].append(vname)
        _check_traj(L, "%s/%s" % (fname, vname), vkind, tr, st, records)

    run("orig", "orig", t)
    pert = md.Trajectory(_perturbed(t.xyz[0], seed), t.topology)
    run("perturbed", "perturbed", pert)
    nco, ca, pro, chain, complete = _arrays(t.topology)
    prot = [int(i) for i in np.nonzero(complete)[0]]
    if len(prot) >= 5:
        base_codes = md.compute_dssp(t[0], simplified=False)[0]
        res = list(t.topology.residues)

        def mid_of(letter):
            idx = [i for i in prot if base_codes[i] == letter]
            return idx[len(idx) // 2] if idx else None

        targets = []
        for letter in ("H", "E", "T", "G", "B"):
            k = mid_of(letter)
            if k is not None and k not in targets:
                targets.append(k)
        for k in (prot[0], prot[1], prot[len(prot) // 2], prot[-2], prot[-1]):
            if k not in targets:
                targets.append(k)
        if quick or big:
            targets = targets[:4]
        elif len(prot) <= 60:
            targets = list(prot)      # thorough: every position of the small helix-rich / sheet-rich structures
        two = md.Trajectory(np.concatenate([t.xyz[:1], pert.xyz[6:7]]), t.topology)
        for k in targets:
            # incomplete residues: drop CA / drop N / drop C and O together (see MANIFEST note on C14)
            run("noCA@%d" % k, "noCA", _rebuild(two, drop_atoms=[ca[k]]))
            run("noN@%d" % k, "noN", _rebuild(two, drop_atoms=[nco[k, 0]]))
            nxt_ok = (k + 1 >= len(res)) or (not complete[k + 1]) or res[k + 1].name == "PRO"
            run("noCO@%d" % k, "noCO", _rebuild(two, drop_atoms=[nco[k, 1], nco[k, 2]]))
            if nxt_ok:
                run("noO@%d" % k, "noO", _rebuild(two, drop_atoms=[nco[k, 2]]))
            # non-protein residues interleaved: ion anywhere; cap (C, O, CH3) anywhere
            run("ion<%d" % k, "ion", _rebuild(two, insert=(k, "NA", [("NA", "Na")], (0.3, 0.2, 0.1))))
            run("cap<%d" % k, "cap", _rebuild(two, insert=(k, "ACE", [("CH3", "C"), ("C", "C"), ("O", "O")], (0.25, -0.2, 0.15))))
            # extra chain boundary
            run("split<%d" % k, "split", _rebuild(two, split_before=(k,)))
            run("split<%d" % (k + 1), "split", _rebuild(two, split_before=(k + 1,)))
        # water in front of a proline (the proline's amide H is never used)
        pros = [i for i in prot if res[i].name == "PRO" and i > 0]
        for k in pros[:2]:
            run("water<PRO%d" % k, "water", _rebuild(two, insert=(k, "HOH", [("O", "O"), ("H1", "H"), ("H2", "H")], (0.3, 0.3, 0.3))))
        # the last complete residue loses its O (nobody's amide H depends on it if it ends the topology)
        k = prot[-1]
        if k + 1 >= len(res) or not complete[k + 1]:
            run("noO@last", "noO", _rebuild(two, drop_atoms=[nco[k, 2]]))
    if st["min_kappa_dist_deg"] > 1e8:
        st["min_kappa_dist_deg"] = None
    # informational (not judged): the reference applied to mdtraj's H-bond pattern vs the strings of the external
    # mkdssp 2.2.1 program stored in tests/data/dssp (its H-bonds and chain breaks are its own)
    st["mkdssp_frames"] = st["mkdssp_residues"] = st["mkdssp_differ"] = 0
    for f in range(t.n_frames):
        ref = os.path.join(repo, "tests/data/dssp", "%s_%d.dssp" % (fname, f))
        if not os.path.exists(ref):
            continue
        with open(ref) as fh:
            lines = fh.read().splitlines()
        k0 = [i for i, ln in enumerate(lines) if ln.startswith("  #  RESIDUE AA STRUCTURE")]
        if not k0:
            continue
        mk = "".join(ln[16] for ln in lines[k0[0] + 1:] if len(ln) > 16 and ln[13] != "!").replace("P", " ")
        idx = [i for i in range(len(complete)) if complete[i]]
        if len(mk) != len(idx):
            continue
        bonds = _bonds_from_ks(md.kabsch_sander(t[f])[0])
        cax = t.xyz[f][np.where(ca >= 0, ca, 0)].astype(np.float64)
        exp, _fl, _nr = R.assign(len(ca), bonds, chain.tolist(), frozenset(int(i) for i in np.nonzero(~complete)[0]), cax)
        st["mkdssp_frames"] += 1
        st["mkdssp_residues"] += len(idx)
        st["mkdssp_differ"] += sum(1 for q, i in enumerate(idx) if exp[i] != mk[q])
    return ("e2e", fname, None, st, None, records)


# ================================================================================================
# layer 3: histories of in-place topology edits in one process
# ================================================================================================
HIST_FILES = ["1vii.pdb", "1bpi.pdb", "2EQQ.pdb"]
RENAMES = [("O", "OX"), ("N", "NX"), ("CA", "CX"), ("C", "CX"), ("O", "OT1")]


def _history_file(item):
    """Histories [analyse; rename ONE backbone atom of residue r in place; analyse; analyse a copy of the topology;
    rename back; analyse; analyse a copy] and the repair direction [first analysis with the atom already misnamed;
    rename it to the backbone name in place; analyse; analyse a copy].  Every analysis is the full end-to-end
    assertion set of _check_traj (compute_dssp simplified False/True, kabsch_sander), whose reference reads the atom
    names of the topology at that moment (_arrays) and shares nothing with mdtraj."""
    fname, quick, seed, repo = item
    import mdtraj as md
    import warnings
    warnings.simplefilter("ignore")
    L = _lib(repo)
    st = {"file": "history:" + fname, "violations": 0, "trajectories": 0, "frames": 0, "residues": 0, "hbonds": 0,
          "compared_residues": 0, "excluded_near_threshold": 0, "min_kappa_dist_deg": 1e9, "flag_hist": {},
          "alt_used": {}, "dropped_linkorder": 0, "nontrivial_frames": 0, "outputs": set(), "letters": {}, "variants": [],
          "mkdssp_frames": 0, "mkdssp_residues": 0, "mkdssp_differ": 0, "histories": 0, "history_steps": 0,
          "na_transitions": 0}
    records = []
    t0 = md.load(os.path.join(repo, "tests/data", fname))[:1]
    pert = _perturbed(t0.xyz[0], seed)
    xyz = np.concatenate([t0.xyz[:1], pert[6:7]])
    nco, ca, pro, chain, complete = _arrays(t0.topology)
    prot = [int(i) for i in np.nonzero(complete)[0]]
    codes = md.compute_dssp(t0, simplified=False)[0]

    def mid_of(letter):
        idx = [i for i in prot if codes[i] == letter]
        return idx[len(idx) // 2] if idx else None

    targets = []
    for k in [mid_of("H"), mid_of("E"), prot[0], prot[-1], mid_of("T"), mid_of("G"), prot[1], prot[-2], mid_of("B")]:
        if k is not None and k not in targets:
            targets.append(k)
    if quick:
        targets = targets[:4]

    def fresh():
        return md.Trajectory(xyz.copy(), t0.topology.copy())

    def atom_of(tr, r, name):
        for a in tr.topology.residue(r).atoms:
            if a.name == name:
                return a
        return None

    def step(tag, tr, r, expect_complete):
        st["history_steps"] += 1
        st["variants"].append(tag)
        before = st["violations"]
        _check_traj(L, "history:%s/%s" % (fname, tag), "history", tr, st, records, frames_independent=False, layer="hist")
        # the residue's own completeness, read from the names right now, must be what the history says
        now = all(atom_of(tr, r, nm) is not None for nm in BB)
        assert now == expect_complete, "history harness error"
        return st["violations"] - before

    for r in targets:
        for old, new in RENAMES:
            if new == "OT1" and r != prot[-1]:
                continue
            # A: analyse, break in place, analyse, copy, repair in place, analyse, copy
            tr = fresh()
            a = atom_of(tr, r, old)
            if a is None:
                continue
            st["histories"] += 2
            tag = "r%d:%s->%s" % (r, old, new)
            step(tag + "/0-orig", tr, r, True)
            a.name = new
            step(tag + "/1-renamed-in-place", tr, r, False)
            step(tag + "/2-copy-of-renamed", md.Trajectory(xyz.copy(), tr.topology.copy()), r, False)
            a.name = old
            step(tag + "/3-restored-in-place", tr, r, True)
            step(tag + "/4-copy-of-restored", md.Trajectory(xyz.copy(), tr.topology.copy()), r, True)
            st["na_transitions"] += 2
            # B: repair direction: the FIRST analysis sees the misnamed atom
            tr = fresh()
            a = atom_of(tr, r, old)
            a.name = new
            step(tag + "/B0-misnamed-first", tr, r, False)
            a.name = old
            step(tag + "/B1-repaired-in-place", tr, r, True)
            step(tag + "/B2-copy-of-repaired", md.Trajectory(xyz.copy(), tr.topology.copy()), r, True)
            st["na_transitions"] += 1
    if st["min_kappa_dist_deg"] > 1e8:
        st["min_kappa_dist_deg"] = None
    return ("e2e", "history:" + fname, None, st, None, records)


def _work(item):
    if item[0] == "e2e":
        return _e2e_file(item[1:])
    if item[0] == "hist":
        return _history_file(item[1:])
    return _rules_chunk(item[1:])


# ================================================================================================
def _chunks(xs, size):
    return [xs[i:i + size] for i in range(0, len(xs), size)]


def run(ctx):
    quick = ctx.quick
    L = _lib(ctx.repo)
    rules_ok = L is not None and L.has_rules
    items = []
    for f in FILES + sorted(SYNTH):
        if f in SYNTH or os.path.exists(os.path.join(ctx.repo, "tests/data", f)):
            items.append(("e2e", f, quick, ctx.seed, ctx.repo))
    for f in HIST_FILES:
        if os.path.exists(os.path.join(ctx.repo, "tests/data", f)):
            items.append(("hist", f, quick, ctx.seed, ctx.repo))
    n_e2e_items = len(items)
    spaces = {}
    K = 3 if quick else 4
    for n in (8, 7, 6, 5, 4, 3, 2):
        ms = space_A(n, K)
        spaces["A:n=%d,<=%d bonds" % (n, K)] = len(ms)
        for c in _chunks(ms, 1500 if n >= 7 else 3000):
            items.append(("rules", "A", n, c, ctx.seed, ctx.repo))
    MB = 2 if quick else 3
    ms, nmot, nturn = space_B(10, MB)
    spaces["B:n=10,<=%d of %d motifs,<=1 of %d turn bonds" % (MB, nmot, nturn)] = len(ms)
    for c in _chunks(ms, 1000):
        items.append(("rules", "B", 10, c, ctx.seed, ctx.repo))
    KD = 4 if quick else 6
    ms, ntb = space_D(10, KD)
    spaces["D:n=10,<=%d of %d turn bonds" % (KD, ntb)] = len(ms)
    for c in _chunks(ms, 500):
        items.append(("rules", "D", 10, c, ctx.seed, ctx.repo))
    ms, nmot, ntp = space_E(10, quick)
    spaces["E:n=10,<=2 of %d motifs x 1..2 of %d minimal-helix turn pairs" % (nmot, ntp)] = len(ms)
    for c in _chunks(ms, 800):
        items.append(("rules", "E", 10, c, ctx.seed, ctx.repo))
    ms, ntpl = space_C(12, 2)
    spaces["C:n=12,<=2 of %d ladder templates" % ntpl] = len(ms)
    for c in _chunks(ms, 600):
        items.append(("rules", "C", 12, c, ctx.seed, ctx.repo))
    if not quick:
        ms, ntpl = space_C(10, 3)
        spaces["C:n=10,<=3 of %d ladder templates" % ntpl] = len(ms)
        for c in _chunks(ms, 1000):
            items.append(("rules", "C3", 10, c, ctx.seed, ctx.repo))
    if not rules_ok:
        print("WARNING kernel seam dsspseam does not build against this tree; rule-engine pattern spaces skipped", flush=True)
        ctx.assume("kernel seam vlib/kern/dsspseam.cpp does not build against this tree (%s): the rule-engine pattern spaces "
                   "A-E were NOT enumerated, only the end-to-end layer (public API) ran" % _LERR)
        if L is None:
            ctx.assume("dsspseam_api.cpp does not build either: the sub-checks 'pattern inside dssp() == kabsch_sander' and "
                       "'compute_dssp == dssp() on independently prepared arrays' were skipped")
        items = items[:n_e2e_items]
        spaces = {k: 0 for k in spaces}
    res = ctx.pmap(_work, items)

    tot = {"cases": 0, "rows": 0, "evaluations": 0, "nontrivial": 0, "inadmissible": 0, "dropped_linkorder": 0,
           "violations": 0, "dropped_share": 0}
    flag_hist, alt_used = {}, {}
    per_space = {}
    outs = set()
    samples = []
    e2e = []
    for kind, space, n, st, o, records in res:
        ctx.report(records)
        if kind == "rules":
            for k in tot:
                tot[k] += st[k]
            ps = per_space.setdefault("%s:n=%d" % (space, n), {"patterns_x_break_x_incomplete": 0, "evaluations": 0})
            ps["patterns_x_break_x_incomplete"] += st["cases"]
            ps["evaluations"] += st["evaluations"]
            for k, v in st["flag_hist"].items():
                flag_hist[k] = flag_hist.get(k, 0) + v
            for k, v in st["alt_used"].items():
                alt_used[k] = alt_used.get(k, 0) + v
            outs |= set((n, s) for s in o)
            if st["sample"] and len(samples) < 64:
                samples.append(st["sample"])
            # violations beyond the recorded ones still count
            extra = st["violations"] - len(records)
            for _ in range(max(0, extra)):
                ctx.violation(records[-1][0], "(further case of the same chunk) " + records[-1][1], records[-1][2])
        else:
            e2e.append(st)
    e_frames = sum(s["frames"] for s in e2e)
    e_out = set()
    for s in e2e:
        e_out |= s["outputs"]
    e_flags, e_alt, letters = {}, {}, {}
    for s in e2e:
        for k, v in s["flag_hist"].items():
            e_flags[k] = e_flags.get(k, 0) + v
        for k, v in s["alt_used"].items():
            e_alt[k] = e_alt.get(k, 0) + v
        for k, v in s["letters"].items():
            letters[k] = letters.get(k, 0) + v
    kd = [s["min_kappa_dist_deg"] for s in e2e if s["min_kappa_dist_deg"] is not None]
    # keep a few informative samples: smallest, a sheet one, the last
    samples = [samples[0], samples[len(samples) // 2], samples[-1]] if len(samples) >= 3 else samples
    ctx.assume("chain break = change of topology chain index (mdtraj has no distance-based chain breaks)")
    ctx.assume("DSSP program conventions adopted where the paper is silent: minimal G/I helix all-or-nothing, pi over alpha, "
               "E over B, parallel before antiparallel")
    ctx.assume("not judged (both readings accepted): bulge link across a shared end residue; patterns spanning an incomplete "
               "residue; link-order dependent bulge linking (dropped)")
    cov = {
        "evaluations": tot["evaluations"] + e_frames,
        "distinct_nontrivial": tot["nontrivial"] + sum(s["nontrivial_frames"] for s in e2e),
        "rule": "layer 1: every member of the pattern spaces A, B, C, D, E (distinct bond sets by construction/dedup) x chain "
                "break position x one incomplete residue among the residues without bonds x slot order x CA trace, seam output "
                "compared exactly with the reference; a case (bond set, break, incomplete residue) is non-trivial if the "
                "reference assigns at least one of H,B,E,G,I,T. layer 2: every frame of every file variant; non-trivial if the "
                "reference has a letter other than ' ' and 'S'",
        "samples": samples + [{"e2e_file": s["file"], "variants": s["variants"][:12]} for s in e2e[:2]],
        "exhaustive": bool(rules_ok),
        "rule_engine_seam_available": bool(rules_ok), "c_api_seam_available": L is not None,
        "spaces_distinct_bond_sets": spaces,
        "per_space": per_space,
        "rule_cases": tot["cases"], "rule_rows_incl_slot_orders": tot["rows"], "rule_evaluations": tot["evaluations"],
        "rule_nontrivial_cases": tot["nontrivial"], "distinct_reference_outputs": len(outs),
        "bond_sets_inadmissible_gt2_acceptors": tot["inadmissible"],
        "convention_flag_histogram": flag_hist,
        "accepted_through_alternative_reading": alt_used,
        "dropped_link_order_dependent": tot["dropped_linkorder"], "dropped_more_than_4_share_junctions": tot["dropped_share"],
        "axes": {"n": [2, 3, 4, 5, 6, 7, 8, 10, 12], "max_bonds": K, "break_before": "none,1..n-1",
                 "incomplete": "none, each residue without bonds", "slot_order": ["ascending", "descending"],
                 "traces": ["straight", "corner@k k=2..n-3", "coil"], "seed_phase": ctx.seed},
        "e2e": {"files": [s["file"] for s in e2e], "trajectories": sum(s["trajectories"] for s in e2e), "frames": e_frames,
                "residues": sum(s["residues"] for s in e2e), "compared_residues": sum(s["compared_residues"] for s in e2e),
                "hbonds": sum(s["hbonds"] for s in e2e), "letters_compared": letters,
                "excluded_near_bend_threshold": sum(s["excluded_near_threshold"] for s in e2e),
                "bend_margin_deg": MARGIN_DEG, "min_abs_kappa_minus_70_deg": min(kd) if kd else None,
                "distinct_frame_outputs": len(e_out), "convention_flag_histogram": e_flags,
                "accepted_through_alternative_reading": e_alt,
                "dropped_link_order_dependent": sum(s["dropped_linkorder"] for s in e2e),
                "informational_reference_vs_stored_mkdssp221": {
                    "frames": sum(s["mkdssp_frames"] for s in e2e), "residues": sum(s["mkdssp_residues"] for s in e2e),
                    "residues_differing": sum(s["mkdssp_differ"] for s in e2e)}},
        "history": {"files": [s["file"] for s in e2e if "histories" in s],
                    "histories": sum(s.get("histories", 0) for s in e2e),
                    "analyses": sum(s.get("history_steps", 0) for s in e2e),
                    "completeness_transitions_in_place": sum(s.get("na_transitions", 0) for s in e2e),
                    "renames": ["%s->%s" % r for r in RENAMES]},
        "max_err_over_tol": 0.0,
    }
    return "exploration", cov


def replay(ctx, rep):
    L = _lib(ctx.repo)
    if rep["kind"] == "rules" and (L is None or not L.has_rules):
        print("WARNING kernel seam dsspseam does not build against this tree; rule-engine replay not executed")
        return True
    if rep["kind"] == "rules":
        n = rep["n"]
        obs = []
        for _ in range(2):
            H = np.array(rep["hbonds"], dtype=np.int32)
            C = np.array(rep["chain"], dtype=np.int32)
            S = np.array(rep["skip"], dtype=np.int32)
            X = np.ascontiguousarray(np.array(rep["ca"], dtype=np.float32))
            cai = np.arange(n, dtype=np.int32)
            out = np.zeros(n, dtype=np.uint8)
            L.dsspseam_rules(_p(H), _p(X), _p(cai), _p(C), _p(S), n, n, _p(out))
            obs.append(bytes(out).decode())
        assert obs[0] == obs[1], "replay is not deterministic"
        bonds = [(d, a) for d in range(n) for a in rep["hbonds"][2 * d:2 * d + 2] if a >= 0]
        miss = frozenset(i for i in range(n) if rep["skip"][i])
        ca = np.array(rep["ca"], dtype=np.float32).astype(np.float64)
        ok = False
        exps = []
        for mode in (R.LENIENT, R.STRICT):
            for share in (True, False):
                e, fl, _ = R.assign(n, bonds, rep["chain"], miss, ca, mode, 0.0, share)
                exps.append(e)
                if all(obs[0][i] == e[i] for i in range(n) if i not in miss) and (
                        (mode == R.LENIENT or miss) and (share or "A-share" in fl)):
                    ok = True
        print("seam      %r\nreference %r" % (obs[0], exps[0]))
        return ok
    # end to end / history: re-run the file the label names
    fname = rep["label"].split("/")[0]
    fn = _e2e_file
    if fname.startswith("history:"):
        fname, fn = fname[len("history:"):], _history_file
    a = fn((fname, ctx.quick, ctx.seed, ctx.repo))
    b = fn((fname, ctx.quick, ctx.seed, ctx.repo))
    la = sorted(r[1] for r in a[5])
    lb = sorted(r[1] for r in b[5])
    assert la == lb, "replay is not deterministic"
    hit = [r for r in a[5] if r[2]["label"] == rep["label"]]
    for r in hit[:3]:
        print(r[0], r[1][:300])
    return not hit
