"""C06 — md.rmsd is the optimal-superposition RMSD and Trajectory.superpose attains it.

Complete enumeration of a designed finite product
    conformation family x n_atoms x selection kind            (one worker job each)
    x rotation x translation                                  (frames of one target trajectory)
    x reference frame x parallel x precentered                (one md.rmsd / superpose call each)
against a float64 Kabsch/SVD oracle (vlib/refmodels/rmsd_kabsch.py, proper rotations only).

Error model (all tolerances are derived, none is tuned) — u = eps32/2, k = ceil(N/4) (SSE lane length):
  md.rmsd      |rmsd^2 - msd*| <= c(N) eps32 (Ga+Gb)/N + (da+db)^2 + 4 eps32 msd*,     c(N) = 9 + k
      c(N) is the sum of the first-order float32 terms of a QCP evaluation whose only float32 objects are the
      centred coordinates, Ga, Gb, the 3x3 matrix M and the final subtraction:
        * Ga, Gb: centred coordinate rounded (2u on its square) + square rounded (u) + cast (u)   -> 2 eps32 (Ga+Gb)
        * M_ij: each product u (+2u from the rounded coordinates), k+2 float32 additions per entry
              |dM_ij| <= (k+5) u sum|a||b|  =>  ||dM||_F <= (k+5) u sqrt(Ga Gb);  |d lambda| <= sqrt3 ||dM||_F
              =>  2|d lambda| <= (sqrt3/2)(k+5) eps32 (Ga+Gb)  <  (k+5) eps32 (Ga+Gb)
        * lambda cast to float32 (0.5), Ga+Gb added in float32 (0.5), slack (1)                     -> 2 eps32 (Ga+Gb)
      da, db: the centroid is cast to float32 before it is subtracted, |d| <= sqrt3/2 ulp32(max|x|); a common
      shift of a structure raises the minimum by at most (|da|+|db|)^2.  4 eps32 msd*: division, sqrtf, squaring.
  superpose    sqrt(msd_unfitted) in [rmsd* - e, sqrt(msd* + 2(k+5) eps32 (Ga+Gb)/N) + e],  e = eps32 (16 rmax + Ymax)
      (a backward-stable top eigenvector of K+dK loses at most 4||dK|| of q'Kq; e: float32 rotation matrix
      (<= 12 eps32 in norm), 3 products + 2 sums per coordinate, one rounding at the output magnitude Ymax)
               |d_after - d_before| <= 2e for every interatomic distance.
The case classes below name, from oracle quantities only, where the implementation is known to leave this
model (see triage/C06.md); a violation's class is part of its signature.
"""
import os
import warnings

# libgomp reads its wait policy once, when it is loaded (with mdtraj's extensions, i.e. after this module is
# imported by the runner).  16 workers x a 3-thread team oversubscribe the machine; spinning waiters then cost
# a factor ~15 in wall time, sleeping ones nothing.  Results do not depend on it.
os.environ.setdefault("OMP_WAIT_POLICY", "passive")

import numpy as np  # noqa: E402

MANIFEST = {
    "category": "exploration",
    "engine": "gridx",
    "technique": "complete enumeration of a designed finite product of conformation pairs, rigid motions, selections "
                 "and call options against a float64 Kabsch/SVD oracle with a derived float32 error bound",
    "text": "Families {generic cloud, bonded-density cluster, near-identical pair (1e-4 nm), near-planar, exact mirror "
            "image, helix-like curve, offsets 100 and 500 nm} x n_atoms in {3,4,5,7,64,65} (thorough: 3..13,16,17,63,64,"
            "65,1001: every remainder mod 4) x 12 (30) rotations incl. identity, the axis and diagonal half-turns (the whole "
            "cube group) x translations {0,0.37,10,300} nm x reference frame {0,2,3} ({0,1,2,3}; frame 3 is the target base "
            "itself, so every target frame is a rigidly moved copy of it and an EXACT one under the cube rotations: exactly "
            "degenerate optima, quaternions (0,1,0,0), (0,0,1,0), (0,0,0,1) and the diagonal half-turns, RMSD* = 0) x "
            "(atom_indices, ref_atom_indices) in {None, equal subsets, same set in "
            "different order, different sets and atom counts, all atoms listed explicitly, permutations of all atoms} x parallel x precentered; every md.rmsd value is compared "
            "with the float64 minimum over proper rotations (|rmsd^2-msd*| <= (9+ceil(N/4)) eps32 (Ga+Gb)/N + centring "
            "term), plus the stated relations (zero on itself, symmetry, rigid motion of target and of reference, parallel "
            "flag); Trajectory.superpose: reference untouched, every interatomic distance kept, proper motion, un-fitted "
            "RMSD of the alignment atoms equals the minimum; md.lprmsd with fixed labels, md.rmsf and "
            "geometry.alignment against their docstring definitions. superpose with a reference that shares memory with the target (t.superpose(t, k) for 2 (3) "
            "frames k, and a copy=False slice of t) is judged against a snapshot of the reference taken before the call "
            "(frame k must stay where it was). C2 dimers (exact on a 2^-14 nm grid): subunit B = half-turn "
            "image of subunit A about x, y, z through 2 centres x 4 translations x 2 index layouts x all n; rmsd(B onto A) "
            "and superpose(atom_indices=B, ref_atom_indices=A) must bring B onto A (and A onto B) rigidly. Right level: optimality over a continuous set can "
            "only be sampled, so the sample is a designed product with one member per shortcut in the code (SIMD "
            "remainders, handedness, 180-degree rotations, scale, cancellation regime).",
    "note": "Trusted: numpy float64 SVD. Optimality is checked on this finite family only. OpenMP team of 3 threads "
            "inside the workers for parallel=True (schedules are C08's topic). Stale _rmsd_traces after slicing is C03's "
            "topic: every call gets freshly built trajectories. lprmsd is judged only with labels fixed (singleton "
            "permute group) or where a float64 assignment oracle says the identity mapping is optimal by a margin; its "
            "superpose=True mode and alignment.rmsd_qcp (scipy Newton with an absolute tolerance) are not judged. "
            "md.rmsf(reference=None) is judged as documented: frames centred in place when atom_indices is None, raw "
            "coordinates (manual pre-alignment) when atom_indices is given.",
    "ref": "DESIGN.md §3 C06, §2.4",
}

EPS = float(np.finfo(np.float32).eps)
U = EPS / 2
OMP_THREADS = 3
_TOPS = {}
_CLASS_ORDER = ["absthr", "rot180", "smallgap", "regular"]


# ------------------------------------------------------------------------------------------------ helpers
def _mk(xyz):
    """Fresh trajectory (own coordinate copy, no cached traces)."""
    import mdtraj as md
    n = xyz.shape[1]
    if n not in _TOPS:
        top = md.Topology()
        ch = top.add_chain()
        for _ in range(n):
            r = top.add_residue("ALA", ch)
            top.add_atom("CA", md.element.carbon, r)
        _TOPS[n] = top
    return md.Trajectory(np.array(xyz, dtype=np.float32, order="C", copy=True), _TOPS[n])


_GOMP = []


def _threads(n):
    """Size of the OpenMP team for the following calls (workers only; the parent never opens a team before fork).
    parallel=True calls run with OMP_THREADS threads, everything else with one, so that 16 workers do not
    oversubscribe the machine with spinning idle teams."""
    import ctypes
    if not _GOMP:
        try:
            _GOMP.append(ctypes.CDLL("libgomp.so.1"))
        except OSError:
            _GOMP.append(None)
    if _GOMP[0] is None:
        return 1
    _GOMP[0].omp_set_num_threads(int(n))
    return int(_GOMP[0].omp_get_max_threads())


def _par(par, fn, *a, **k):
    """Call fn(*a, parallel=par, **k) with a real multi-thread team when par is True."""
    if par:
        _threads(OMP_THREADS)
    try:
        return fn(*a, parallel=par, **k)
    finally:
        if par:
            _threads(1)


def _ulp_half(x):
    return 0.5 * float(np.spacing(np.float32(x)))


def _cN(n):
    return 9 + -(-n // 4)


def _classes(o):
    """Per-frame case class from oracle quantities only (strings)."""
    R = o["R"]
    q0 = np.sqrt(np.clip(1.0 + np.trace(R, axis1=1, axis2=2), 0.0, None)) / 2.0     # cos(theta/2)
    s, d = o["sv"], o["sgn"]
    lam = np.stack([s[:, 0] + s[:, 1] + d * s[:, 2], s[:, 0] - s[:, 1] - d * s[:, 2],
                    -s[:, 0] + s[:, 1] - d * s[:, 2], -s[:, 0] - s[:, 1] + d * s[:, 2]], axis=1)
    lam = -np.sort(-lam, axis=1)
    g = lam[:, :1] - lam[:, 1:]
    qsqr = (q0 * g.prod(axis=1)) ** 2            # squared norm of the first column of adj(K - lambda_max I)
    G = o["Ga"] + o["Gb"]
    gapr = np.where(G > 0, g[:, 0] / np.where(G > 0, G, 1.0), 0.0)
    cls = np.where(qsqr < 1e-10, "absthr", np.where(q0 < 1e-2, "rot180", np.where(gapr < 0.1, "smallgap", "regular")))
    vcls = np.where(gapr < 0.1, "smallgap", "regular")          # class for value-only results (no rotation used)
    return cls, vcls, gapr, q0


def _tol_msd(o, n, mag_a, mag_b):
    d = np.sqrt(3.0) * (_ulp_half(mag_a) + _ulp_half(mag_b))
    return _cN(n) * EPS * (o["Ga"] + o["Gb"]) / n + d * d + 4 * EPS * o["msd"]


class _Acc:
    """Collects evaluations, margins and at most one violation record per signature for one job."""

    def __init__(self, job):
        self.job = job
        self.evals = 0
        self.viol = {}
        self.margin = {}        # check -> max err/tol over regular-class cases
        self.margin_all = {}
        self.counts = {}

    def add(self, check, cls, ratio, detail_fn):
        """cls: array of class strings (or one string); ratio: array err/tol (>1 => violation)."""
        ratio = np.atleast_1d(np.asarray(ratio, dtype=np.float64))
        cls = np.broadcast_to(np.asarray(cls), ratio.shape)
        self.evals += ratio.size
        self.counts[check] = self.counts.get(check, 0) + ratio.size
        bad = ~(ratio <= 1.0)                                   # NaN counts as a violation
        reg = ~bad                                              # margin: largest accepted err/tol (violations are reported)
        if reg.any():
            self.margin[check] = max(self.margin.get(check, 0.0), float(np.max(np.where(reg, ratio, 0.0))))
        self.margin_all[check] = max(self.margin_all.get(check, 0.0), float(np.nanmax(ratio)) if ratio.size else 0.0)
        if bad.any():
            for c in np.unique(cls[bad]):
                idx = np.where(bad & (cls == c))[0]
                w = idx[np.argmax(np.nan_to_num(ratio[idx], nan=np.inf))]
                sig = "%s|%s|sel=%s" % (check, c, self.job[2])
                rec = self.viol.get(sig)
                n_prev = rec[1] if rec else 0
                det = detail_fn(int(w))
                if rec is None or ratio[w] > rec[2] or not np.isfinite(ratio[w]):
                    self.viol[sig] = [det, n_prev + len(idx), float(ratio[w])]
                else:
                    rec[1] = n_prev + len(idx)

    def flag(self, check, cls, ok, detail):
        self.evals += 1
        self.counts[check] = self.counts.get(check, 0) + 1
        if not ok:
            sig = "%s|%s|sel=%s" % (check, cls, self.job[2])
            rec = self.viol.get(sig)
            self.viol[sig] = [detail, (rec[1] if rec else 0) + 1, float("inf")]

    def records(self, quick, seed):
        out = []
        for sig, (det, cnt, ratio) in sorted(self.viol.items()):
            fam, n, sel = self.job
            detail = "%s n=%d sel=%s: %d failing case(s); worst err/tol=%.3g; %s" % (fam, n, sel, cnt, ratio, det)
            out.append((sig, detail, {"fam": fam, "n": n, "sel": sel, "quick": bool(quick), "seed": int(seed), "sig": sig,
                                      "failing_cases": int(cnt)}))
        return out


# ------------------------------------------------------------------------------------------------ one job
def _job(args):
    fam, n, sel, quick, seed, scratch = args
    # the kernel reports a degenerate adjugate column on stderr; keep the run quiet and count the lines
    errpath = os.path.join(scratch, "stderr-%d.txt" % os.getpid())
    saved = os.dup(2)
    fd = os.open(errpath, os.O_WRONLY | os.O_CREAT | os.O_TRUNC)
    os.dup2(fd, 2)
    os.close(fd)
    try:
        res = _job_dimer(n, sel, quick, seed) if fam == "c2dimer" else _job_inner(fam, n, sel, quick, seed)
    finally:
        os.dup2(saved, 2)
        os.close(saved)
    try:
        with open(errpath) as fh:
            res["stderr_unconverged"] = sum(1 for ln in fh if "UNCONVERGED" in ln)
        os.unlink(errpath)
    except OSError:
        res["stderr_unconverged"] = 0
    return res


def _job_inner(fam, n, sel, quick, seed):
    import mdtraj as md
    from vlib import grids
    from vlib.refmodels import rmsd_confs as C
    from vlib.refmodels import rmsd_kabsch as K

    threads = _threads(OMP_THREADS)
    _threads(1)
    acc = _Acc((fam, n, sel))
    rots = grids.rotations(quick, seed)
    ref_frames = [0, 2, 3] if quick else [0, 1, 2, 3]     # 3 = the target base itself: targets are exact rigid copies
    refs, b, info = C.base_pair(fam, n, seed)
    off = info["offset"]
    fr, labels = C.target_frames(b, rots, C.TRANSLATIONS, off)          # (F, n, 3) float32
    F = fr.shape[0]
    ref32 = (refs + off).astype(np.float32)                              # (3, n, 3)
    S = C.selection(sel, n, seed)
    ai, rai, ts, rs = S["ai"], S["rai"], S["tgt_slot"], S["ref_slot"]
    T = C.embed(fr, ts, S["n_target"], seed, 31, C._edge(n) * 1.5)
    Rf = C.embed(ref32, rs, S["n_ref"], seed, 47, C._edge(n) * 1.5)
    assert np.array_equal(T[:, ts], fr) and np.array_equal(Rf[:, rs], ref32)
    magT, magR = float(np.abs(T).max()), float(np.abs(Rf).max())
    lab = lambda i: "frame %d (rot %d, transl %g)" % (i, labels[i][0], labels[i][1])
    nontrivial = set()
    bit_identical = [0, 0]
    shares_memory = [0, 0]

    def kw():
        return dict(atom_indices=None if ai is None else ai.copy(), ref_atom_indices=None if rai is None else rai.copy())

    # ---------------------------------------------------------------- A: md.rmsd against the oracle
    got_ab, ora = {}, {}
    for f in ref_frames:
        for pre in (False, True):
            res = {}
            for par in (False, True):
                t, r = _mk(T), _mk(Rf)
                if pre:
                    t.center_coordinates()
                    r.center_coordinates()
                a_in = np.array(t.xyz[:, ts], dtype=np.float64)
                b_in = np.array(r.xyz[f, rs], dtype=np.float64)
                with warnings.catch_warnings():
                    warnings.simplefilter("ignore")
                    g = np.array(_par(par, md.rmsd, t, r, f, precentered=pre, **kw()), dtype=np.float64)
                if par is False:
                    o = K.kabsch(a_in, b_in)
                    o["tol"] = _tol_msd(o, n, magT, magR)
                    o["cls"], o["vcls"], o["gapr"], o["q0"] = _classes(o)
                    ora[(f, pre)] = o
                o = ora[(f, pre)]
                res[par] = g
                err = np.abs(g * g - o["msd"])
                acc.add("md.rmsd|vs-oracle", o["vcls"], err / o["tol"],
                        lambda i, g=g, o=o, f=f, pre=pre, par=par: "ref frame %d parallel=%s precentered=%s %s: md.rmsd=%.9g "
                        "float64 minimum=%.9g tol(rmsd^2)=%.3g (Ga+Gb)/N=%.4g gap/(Ga+Gb)=%.3g" % (
                            f, par, pre, lab(i), g[i], np.sqrt(o["msd"][i]), o["tol"][i],
                            (o["Ga"][i] + o["Gb"][i]) / n, o["gapr"][i]))
            o = ora[(f, pre)]
            d = np.abs(res[True] ** 2 - res[False] ** 2)
            same = res[True] == res[False]
            bit_identical[0] += int(same.sum())
            bit_identical[1] += same.size
            acc.add("md.rmsd|parallel-flag", o["vcls"], d / o["tol"],
                    lambda i, res=res, f=f, pre=pre: "ref frame %d precentered=%s %s: parallel=True %.9g vs False %.9g" % (
                        f, pre, lab(i), res[True][i], res[False][i]))
            if not pre:
                got_ab[f] = res[False]
        o = ora[(f, False)]
        for i in np.where(o["msd"] > 1e-12)[0]:
            nontrivial.add((fam, n, sel, f, fr[i].tobytes()))          # distinct by content, not by label
        # D1: rigid motion of the target: every frame is the same conformation moved rigidly
        j0 = 0
        g = got_ab[f]
        # the float32 frames are rigid images only up to input rounding: the oracle's own difference is allowed
        excess = np.clip(np.abs(g * g - g[j0] ** 2) - np.abs(o["msd"] - o["msd"][j0]), 0.0, None)
        acc.add("md.rmsd|rigid-motion-target", o["vcls"], excess / (o["tol"] + o["tol"][j0]),
                lambda i, g=g, f=f: "ref frame %d: %s gives %.9g, unmoved frame 0 gives %.9g" % (f, lab(i), g[i], g[0]))
        # D2: rigid motion of the reference
        Rm = grids.generic_rotations(2, seed + 3)[1]
        cen = Rf[f].astype(np.float64).mean(axis=0)
        moved = ((Rf.astype(np.float64) - cen) @ Rm.T + cen + np.array([0.37, 10.0, -0.37])).astype(np.float32)
        g2 = np.array(md.rmsd(_mk(T), _mk(moved), f, parallel=False, **kw()), dtype=np.float64)
        o2 = K.kabsch(fr, moved[f, rs])
        o2["tol"] = _tol_msd(o2, n, magT, float(np.abs(moved).max()))
        _c, vc2, gr2, _q = _classes(o2)
        acc.add("md.rmsd|vs-oracle", vc2, np.abs(g2 * g2 - o2["msd"]) / o2["tol"],
                lambda i, g2=g2, o2=o2, f=f: "moved reference frame %d %s: md.rmsd=%.9g float64 minimum=%.9g" % (
                    f, lab(i), g2[i], np.sqrt(o2["msd"][i])))
        excess = np.clip(np.abs(g2 * g2 - g * g) - np.abs(o["msd"] - o2["msd"]), 0.0, None)
        acc.add("md.rmsd|rigid-motion-reference", np.where((vc2 == "smallgap") | (o["vcls"] == "smallgap"), "smallgap", "regular"),
                excess / (o["tol"] + o2["tol"]),
                lambda i, g2=g2, g=g, f=f: "ref frame %d %s: moved reference %.9g vs original %.9g" % (f, lab(i), g2[i], g[i]))

    # ---------------------------------------------------------------- B: zero against itself
    for k, same_obj in ((0, True), (F - 1, False)) if quick else ((0, True), (F // 2, True), (F - 1, False)):
        t = _mk(T)
        r = t if same_obj else _mk(T)
        g = np.array(_par(same_obj, md.rmsd, t, r, k, atom_indices=None if ai is None else ai.copy()), dtype=np.float64)
        o = K.kabsch(fr, fr[k])
        o["tol"] = _tol_msd(o, n, magT, magT)
        _c, vc, gr, _q = _classes(o)
        acc.add("md.rmsd|self", vc[k], g[k] ** 2 / o["tol"][k],
                lambda i, g=g, k=k, same_obj=same_obj, o=o: "rmsd of frame %d against itself (%s) = %.9g, tol(rmsd^2)=%.3g" % (
                    k, "same object" if same_obj else "copy", g[k], o["tol"][k]))
        acc.add("md.rmsd|vs-oracle", vc, np.abs(g * g - o["msd"]) / o["tol"],
                lambda i, g=g, o=o, k=k: "target against its own frame %d, %s: md.rmsd=%.9g float64 minimum=%.9g" % (
                    k, lab(i), g[i], np.sqrt(o["msd"][i])))

    # ---------------------------------------------------------------- C: symmetry
    for i in sorted({0, F // 3, F - 1}):
        gba = np.array(md.rmsd(_mk(Rf), _mk(T), i, atom_indices=None if rai is None else rai.copy(),
                               ref_atom_indices=None if ai is None else ai.copy(), parallel=False), dtype=np.float64)
        for f in ref_frames:
            o = ora[(f, False)]
            acc.add("md.rmsd|symmetry", o["vcls"][i], abs(gba[f] ** 2 - got_ab[f][i] ** 2) / (2 * o["tol"][i]),
                    lambda _i, f=f, i=i, gba=gba: "rmsd(target %s, ref frame %d)=%.9g but rmsd(ref, target)=%.9g" % (
                        lab(i), f, got_ab[f][i], gba[f]))
            acc.add("md.rmsd|vs-oracle", o["vcls"][i], abs(gba[f] ** 2 - o["msd"][i]) / o["tol"][i],
                    lambda _i, f=f, i=i, gba=gba, o=o: "roles swapped, ref frame %d as target vs %s: md.rmsd=%.9g float64 "
                    "minimum=%.9g" % (f, lab(i), gba[f], np.sqrt(o["msd"][i])))

    # ---------------------------------------------------------------- E: superpose
    k4 = -(-n // 4)
    pairs_all = S["n_target"] <= 80
    if pairs_all:
        pi, pj = np.triu_indices(S["n_target"], 1)
    else:
        offs = [1, 2, 3, 5, 8, 13, 21, 34, 55, 89, 144, 233, 377]
        pi = np.concatenate([np.arange(S["n_target"])] * len(offs))
        pj = np.concatenate([(np.arange(S["n_target"]) + d) % S["n_target"] for d in offs])
    T64 = T.astype(np.float64)
    d_before = np.sqrt(((T64[:, pi] - T64[:, pj]) ** 2).sum(-1))
    cenT = T64[:, ts].mean(axis=1, keepdims=True)
    rmax = np.sqrt(((T64 - cenT) ** 2).sum(-1)).max(axis=1)           # per frame, all atoms, about the fit centroid
    for f in ref_frames:
        o = ora[(f, False)]
        for par in (False, True):
            t, r = _mk(T), _mk(Rf)
            before = r.xyz.copy()
            ret = _par(par, t.superpose, r, f, **kw())
            acc.flag("superpose|reference-modified", "any", np.array_equal(r.xyz, before) and ret is t,
                     "ref frame %d parallel=%s: reference coordinates changed by superpose (or self not returned)" % (f, par))
            X = t.xyz.astype(np.float64)
            Y = max(float(np.abs(t.xyz).max()), magR)
            e = EPS * (16 * rmax + Y)
            d_after = np.sqrt(((X[:, pi] - X[:, pj]) ** 2).sum(-1))
            dd = np.abs(d_after - d_before).max(axis=1)
            acc.add("superpose|distances", "regular", dd / (2 * e),
                    lambda i, f=f, par=par, dd=dd, e=e: "ref frame %d parallel=%s %s: an interatomic distance changed by %.3g nm "
                    "(tol %.3g)" % (f, par, lab(i), dd[i], 2 * e[i]))
            fit = K.kabsch(T64, X)                                      # proper rigid motion of ALL atoms?
            acc.add("superpose|proper-motion", "regular", np.sqrt(fit["msd"]) / (2 * e),
                    lambda i, f=f, par=par, fit=fit: "ref frame %d parallel=%s %s: best proper rigid fit of new onto old "
                    "coordinates leaves rmsd %.3g" % (f, par, lab(i), np.sqrt(fit["msd"][i])))
            pm = np.sqrt(K.plain_msd(X[:, ts], Rf[f, rs].astype(np.float64)))
            rstar = np.sqrt(o["msd"])
            hi = np.sqrt(o["msd"] + 2 * (k4 + 5) * EPS * (o["Ga"] + o["Gb"]) / n) + e
            lo = rstar - e
            ratio = np.maximum((pm - rstar) / (hi - rstar), (rstar - pm) / (rstar - lo))
            acc.add("superpose|unfitted-rmsd", o["cls"], ratio,
                    lambda i, f=f, par=par, pm=pm, rstar=rstar, hi=hi, o=o: "ref frame %d parallel=%s %s: un-fitted rmsd of the "
                    "alignment atoms after superpose=%.9g, float64 minimum=%.9g (accepted up to %.9g); cos(theta/2)=%.3g "
                    "Ga+Gb=%.4g gap/(Ga+Gb)=%.3g" % (f, par, lab(i), pm[i], rstar[i], hi[i], o["q0"][i],
                                                     o["Ga"][i] + o["Gb"][i], o["gapr"][i]))

    # ---------------------------------------------------------------- E2: reference sharing memory with the target
    # t.superpose(t, frame=k) and a copy=False slice of t as reference: judged against a snapshot of the reference
    # conformation taken BEFORE the call (frame k itself must end up where it was)
    same_n = S["n_ref"] == S["n_target"]
    variants = [("same-atoms", ts, ts, dict(atom_indices=None if ai is None else ai.copy()))]
    if same_n and rai is not None:
        variants.append(("ref_atom_indices", ts, rs, kw()))
    ks = [0, F // 2 + 1] if quick else [0, F // 3, F - 1]
    for vname, tsx, rsx, kws in variants:
        for kk, k in enumerate(ks):
            o = K.kabsch(T64[:, tsx], T64[k, rsx])
            o["cls"], _v, o["gapr"], o["q0"] = _classes(o)
            rstar = np.sqrt(o["msd"])
            for how in ("self", "view"):
                par = bool((kk + (how == "view")) % 2)
                t = _mk(T)
                if how == "self":
                    r, fidx = t, k
                else:
                    r, fidx = t.slice(slice(k, None), copy=False), 0
                    shares_memory[1] += 1
                    shares_memory[0] += int(np.shares_memory(r.xyz, t.xyz))
                snap = np.array(r.xyz[fidx], dtype=np.float64, copy=True)
                _par(par, t.superpose, r, fidx, **{kk_: (None if v is None else v.copy()) for kk_, v in kws.items()})
                X = t.xyz.astype(np.float64)
                e = EPS * (16 * rmax + max(float(np.abs(t.xyz).max()), magT))
                hi = np.sqrt(o["msd"] + 2 * (k4 + 5) * EPS * (o["Ga"] + o["Gb"]) / n) + e
                pm = np.sqrt(K.plain_msd(X[:, tsx], snap[rsx]))
                acc.add("superpose|%s-reference|unfitted-rmsd" % how, o["cls"], np.maximum((pm - rstar) / (hi - rstar), (rstar - pm) / e),
                        lambda i, pm=pm, rstar=rstar, hi=hi, k=k, how=how, vname=vname, par=par: "%s reference (%s), frame %d, parallel=%s, "
                        "%s: un-fitted rmsd to the reference conformation as it was before the call = %.9g, float64 minimum = "
                        "%.9g (accepted up to %.9g)" % ("t itself as" if how == "self" else "copy=False slice of t as", vname, k, par,
                                                        lab(i), pm[i], rstar[i], hi[i]))
                if vname == "same-atoms":
                    acc.add("superpose|%s-reference|frame-k-stays" % how, o["cls"][k], np.sqrt(K.plain_msd(X[k], T64[k])) / (hi[k] - rstar[k]),
                            lambda _i, k=k, how=how, par=par, X=X: "%s reference, parallel=%s: reference frame %d itself moved by %.9g nm (rms)" % (
                                how, par, k, np.sqrt(K.plain_msd(X[k], T64[k]))))
                dd = np.abs(np.sqrt(((X[:, pi] - X[:, pj]) ** 2).sum(-1)) - d_before).max(axis=1)
                acc.add("superpose|%s-reference|distances" % how, "regular", dd / (2 * e),
                        lambda i, dd=dd, e=e, k=k, how=how: "%s reference frame %d %s: an interatomic distance changed by %.3g nm (tol %.3g)" % (
                            how, k, lab(i), dd[i], 2 * e[i]))

    # ---------------------------------------------------------------- F: lprmsd with labels fixed
    excluded_lp = 0
    if sel in ("none", "equal"):
        f = 2
        o = ora[(f, False)]
        first = 0 if ai is None else int(ai[0])
        g = np.array(md.lprmsd(_mk(T), _mk(Rf), f, atom_indices=None if ai is None else ai.copy(),
                               permute_groups=[[first]], parallel=False), dtype=np.float64)
        acc.add("md.lprmsd|fixed-labels", o["vcls"], np.abs(g * g - o["msd"]) / o["tol"],
                lambda i, g=g, o=o, f=f: "ref frame %d %s permute_groups=[[%d]]: lprmsd=%.9g float64 minimum=%.9g" % (
                    f, lab(i), first, g[i], np.sqrt(o["msd"][i])))
        if n <= 17:
            # default group (all atoms permutable, no pre-alignment): judged on frames where the float64 assignment
            # oracle on the centred, un-rotated coordinates has the identity as its unique optimum by a margin
            from scipy.optimize import linear_sum_assignment
            a0 = Rf[f, rs].astype(np.float64)
            a0 = a0 - a0.mean(0)
            keep = []
            for i in range(F):
                bi = fr[i].astype(np.float64)
                bi = bi - bi.mean(0)
                cost = ((a0[:, None, :] - bi[None, :, :]) ** 2).sum(-1)
                rr, cc = linear_sum_assignment(cost)
                ident = cost.trace()
                if np.array_equal(cc, np.arange(n)):
                    # margin: second best differs by at least a transposition
                    best_alt = np.inf
                    for p in range(n):
                        for q in range(p + 1, n):
                            alt = ident - cost[p, p] - cost[q, q] + cost[p, q] + cost[q, p]
                            best_alt = min(best_alt, alt)
                    if best_alt - ident > 1e-5 * max(ident, 1e-6) + 1e-9:
                        keep.append(i)
                        continue
                excluded_lp += 1
            if keep:
                sub = np.array(keep)
                g = np.array(md.lprmsd(_mk(T[sub]), _mk(Rf), f, atom_indices=None if ai is None else ai.copy(),
                                       parallel=False), dtype=np.float64)
                acc.add("md.lprmsd|default-group-identity-optimal", o["vcls"][sub], np.abs(g * g - o["msd"][sub]) / o["tol"][sub],
                        lambda i, g=g, o=o, f=f, sub=sub: "ref frame %d %s: lprmsd=%.9g float64 minimum (identity mapping)=%.9g" % (
                            f, lab(int(sub[i])), g[i], np.sqrt(o["msd"][sub[i]])))

    # ---------------------------------------------------------------- G: rmsf against its definition
    if sel in ("none", "equal"):
        f = ref_frames[0]
        o = ora[(f, False)]
        order = {c: k for k, c in enumerate(_CLASS_ORDER)}
        subsets = [("all", np.arange(F))]
        reg = np.where(o["cls"] == "regular")[0]
        if 2 <= len(reg) < F:
            subsets.append(("regular-frames", reg))
        for name, sub in subsets:
            Fs = len(sub)
            worst = min(o["cls"][sub], key=lambda c: order[c])
            fit_t = fr[sub].astype(np.float64)
            expd = K.rmsf_definition(fit_t, ref32[f].astype(np.float64))
            rm = float(rmax[sub].max())
            gap = np.maximum(o["gapr"][sub], 1e-300)
            e_rot = float((2 * np.sqrt(3.0) * (k4 + 5) * U * rm / gap).max())
            e_x = EPS * 16 * rm + np.sqrt(3.0) * _ulp_half(magT)
            tol = np.sqrt(3.0) * (Fs + 2) * U * rm + e_rot + e_x + (Fs + 6) * U * expd
            for par in (False, True):
                g = np.array(_par(par, md.rmsf, _mk(T[sub]), _mk(Rf), f, **kw()), dtype=np.float64)
                check = "md.rmsf|reference+atom_indices" if ai is not None else "md.rmsf|reference"
                acc.add(check + "|" + name, worst, np.abs(g - expd) / tol,
                        lambda j, g=g, expd=expd, tol=tol, par=par, Fs=Fs: "ref frame %d parallel=%s %d frames: rmsf of fit atom %d "
                        "= %.9g, definition (optimal superposition, then fluctuation about the mean) = %.9g, tol %.3g" % (
                            f, par, Fs, j, g[j], expd[j], tol[j]))
        # reference=None, atom_indices=None: documented to centre the frames in place, no rotation
        Xc = T64 - T64.mean(axis=1, keepdims=True)
        expd = K.rmsf_definition(Xc, None)
        rma = float(np.sqrt((Xc ** 2).sum(-1)).max())
        tol = np.sqrt(3.0) * (F + 2) * U * rma + np.sqrt(3.0) * _ulp_half(magT) + U * rma + (F + 6) * U * expd
        for par in (False, True):
            g = np.array(_par(par, md.rmsf, _mk(T), None), dtype=np.float64)
            acc.add("md.rmsf|no-reference-centred", "regular", np.abs(g - expd) / tol,
                    lambda j, g=g, expd=expd, par=par: "parallel=%s: rmsf of atom %d = %.9g, fluctuation of the centred frames "
                    "about their mean = %.9g" % (par, j, g[j], expd[j]))
        # reference=None with atom_indices: the documented 'aligned manually first' usage -> raw coordinates
        idx = ai.copy() if ai is not None else np.arange(0, n, 2)
        expd = K.rmsf_definition(T64[:, idx], None)
        tol = np.sqrt(3.0) * (F + 2) * U * magT + (F + 6) * U * expd
        for par in (False, True):
            g = np.array(_par(par, md.rmsf, _mk(T), None, atom_indices=idx.copy()), dtype=np.float64)
            acc.add("md.rmsf|no-reference-prealigned", "regular", np.abs(g - expd) / tol,
                    lambda j, g=g, expd=expd, par=par: "parallel=%s: rmsf of selected atom %d = %.9g, fluctuation of the raw "
                    "coordinates about their mean = %.9g" % (par, j, g[j], expd[j]))

    # ---------------------------------------------------------------- H: geometry.alignment (float64 Kabsch)
    if sel == "none" and n <= 65:
        from mdtraj.geometry import alignment
        f = ref_frames[0]
        o = ora[(f, False)]
        tgt = ref32[f].astype(np.float64)
        for i in sorted({0, F // 3, F - 1}):
            mob = fr[i].astype(np.float64)
            S64 = 64 * float(np.finfo(np.float64).eps) * (o["Ga"][i] + o["Gb"][i]) / n + 1e-30
            mag = max(magT, magR)
            e64 = 64 * float(np.finfo(np.float64).eps) * mag
            rk = float(alignment.rmsd_kabsch(mob, tgt))
            hi = np.sqrt(o["msd"][i] + S64) + e64
            acc.add("alignment.rmsd_kabsch", "regular", abs(rk - np.sqrt(o["msd"][i])) / (hi - np.sqrt(o["msd"][i])),
                    lambda _i, rk=rk, i=i: "%s: rmsd_kabsch=%.12g float64 minimum=%.12g" % (lab(i), rk, np.sqrt(o["msd"][i])))
            mp = alignment.transform(mob, tgt)
            pm = float(np.sqrt(K.plain_msd(mp, tgt)))
            acc.add("alignment.transform", "regular", abs(pm - np.sqrt(o["msd"][i])) / (hi - np.sqrt(o["msd"][i])),
                    lambda _i, pm=pm, i=i: "%s: rmsd after transform=%.12g float64 minimum=%.12g" % (lab(i), pm, np.sqrt(o["msd"][i])))
            fit = K.kabsch(mob, mp)
            acc.add("alignment.transform|proper-motion", "regular", float(np.sqrt(fit["msd"][0])) / (4 * e64 + 1e-12 * float(rmax[i])),
                    lambda _i, fit=fit, i=i: "%s: transform is not a proper rigid motion (residual %.3g)" % (lab(i), np.sqrt(fit["msd"][0])))

    o = ora[(ref_frames[0], False)]
    w = int(np.argmax(o["msd"]))
    sample = {"family": fam, "n_atoms": n, "selection": sel, "ref_frame": ref_frames[0], "rotation_index": labels[w][0],
              "translation_nm": labels[w][1], "n_target_atoms": S["n_target"], "n_ref_atoms": S["n_ref"],
              "atom_indices": None if ai is None else ai[:6].tolist(), "ref_atom_indices": None if rai is None else rai[:6].tolist(),
              "md.rmsd": float(got_ab[ref_frames[0]][w]), "oracle_rmsd": float(np.sqrt(o["msd"][w])),
              "tol_rmsd2": float(o["tol"][w]), "first_atom_target": T[w, ts[0]].tolist(), "first_atom_ref": Rf[ref_frames[0], rs[0]].tolist()}
    cls_count = {}
    for f in ref_frames:
        for c in ora[(f, False)]["cls"]:
            cls_count[str(c)] = cls_count.get(str(c), 0) + 1
    ox = ora[(C.EXACT_REF_FRAME, False)]
    exact_copy = int((ox["msd"] < 1e-20).sum())                                  # target frame is an exact rigid copy
    exact_half = int(((ox["msd"] < 1e-20) & (ox["q0"] < 1e-9)).sum())           # ... by an exact half-turn
    return dict(evals=acc.evals, nontrivial=len(nontrivial), records=acc.records(quick, seed), margin=acc.margin,
                margin_all=acc.margin_all, counts=acc.counts, sample=sample, threads=threads, frames=F,
                bit_identical=bit_identical, class_count=cls_count, excluded_lp=excluded_lp,
                exact_copy_frames=exact_copy, exact_copy_half_turn_frames=exact_half, shares_memory=shares_memory)


def _job_dimer(n, layout, quick, seed):
    """C2 dimer: superposing subunit B (target selection) onto subunit A (reference selection) needs an exact
    half-turn about x, y or z; every frame of one target trajectory is one (axis, centre, translation)."""
    import mdtraj as md
    from vlib.refmodels import rmsd_confs as C
    from vlib.refmodels import rmsd_kabsch as K

    threads = _threads(OMP_THREADS)
    _threads(1)
    acc = _Acc(("c2dimer", n, layout))
    D = C.c2_dimer(n, layout, seed)
    T, labels, idxA, idxB, ai, rai = D["xyz"], D["labels"], D["idxA"], D["idxB"], D["ai"], D["rai"]
    F, nt = T.shape[0], T.shape[1]
    ne = D["n_exact"]
    Rf = T[:ne].copy()                                   # reference: the untranslated dimers (A is the same in all)
    lab = lambda i: "frame %d (B = half-turn image of A about %s through centre %d, transl %g)" % ((i,) + tuple(labels[i]))
    cls = np.array(["axis=%s" % l[0] for l in labels])
    magT, magR = float(np.abs(T).max()), float(np.abs(Rf).max())
    k4 = -(-n // 4)
    T64 = T.astype(np.float64)
    if nt <= 80:
        pi, pj = np.triu_indices(nt, 1)
    else:
        offs = [1, 2, 3, 5, 8, 13, 21, 34, 55, 89, 144, 233, 377]
        pi = np.concatenate([np.arange(nt)] * len(offs))
        pj = np.concatenate([(np.arange(nt) + d) % nt for d in offs])
    d_before = np.sqrt(((T64[:, pi] - T64[:, pj]) ** 2).sum(-1))
    cenT = T64[:, ai].mean(axis=1, keepdims=True)
    rmax = np.sqrt(((T64 - cenT) ** 2).sum(-1)).max(axis=1)
    o = K.kabsch(T64[:, ai], Rf[0, rai].astype(np.float64))
    o["tol"] = _tol_msd(o, n, magT, magR)
    exact = int((o["msd"][:ne] < 1e-20).sum())
    for f in ([0, ne - 1] if quick else range(ne)):
        for par in (False, True):
            g = np.array(_par(par, md.rmsd, _mk(T), _mk(Rf), f, atom_indices=ai.copy(), ref_atom_indices=rai.copy()),
                         dtype=np.float64)
            acc.add("c2dimer.md.rmsd|vs-oracle", cls, np.abs(g * g - o["msd"]) / o["tol"],
                    lambda i, g=g, f=f, par=par: "ref frame %d parallel=%s %s: md.rmsd(B onto A)=%.9g float64 minimum=%.9g" % (
                        f, par, lab(i), g[i], np.sqrt(o["msd"][i])))
            t, r = _mk(T), _mk(Rf)
            before = r.xyz.copy()
            ret = _par(par, t.superpose, r, f, atom_indices=ai.copy(), ref_atom_indices=rai.copy())
            acc.flag("c2dimer.superpose|reference-modified", "any", np.array_equal(r.xyz, before) and ret is t,
                     "ref frame %d parallel=%s: reference changed by superpose" % (f, par))
            X = t.xyz.astype(np.float64)
            e = EPS * (16 * rmax + max(float(np.abs(t.xyz).max()), magR))
            dd = np.abs(np.sqrt(((X[:, pi] - X[:, pj]) ** 2).sum(-1)) - d_before).max(axis=1)
            acc.add("c2dimer.superpose|distances", cls, dd / (2 * e),
                    lambda i, dd=dd, e=e, f=f, par=par: "ref frame %d parallel=%s %s: an interatomic distance changed by %.3g nm "
                    "(tol %.3g)" % (f, par, lab(i), dd[i], 2 * e[i]))
            fit = K.kabsch(T64, X)
            acc.add("c2dimer.superpose|proper-motion", cls, np.sqrt(fit["msd"]) / (2 * e),
                    lambda i, fit=fit, f=f, par=par: "ref frame %d parallel=%s %s: best proper rigid fit of new onto old coordinates "
                    "leaves rmsd %.3g" % (f, par, lab(i), np.sqrt(fit["msd"][i])))
            rstar = np.sqrt(o["msd"])
            hi = np.sqrt(o["msd"] + 2 * (k4 + 5) * EPS * (o["Ga"] + o["Gb"]) / n) + e
            pm = np.sqrt(K.plain_msd(X[:, ai], Rf[f, rai].astype(np.float64)))
            acc.add("c2dimer.superpose|unfitted-rmsd", cls, np.maximum((pm - rstar) / (hi - rstar), (rstar - pm) / e),
                    lambda i, pm=pm, hi=hi, rstar=rstar, f=f, par=par: "ref frame %d parallel=%s %s: rmsd of subunit B to the reference's "
                    "subunit A after superpose(atom_indices=B, ref_atom_indices=A) = %.9g, float64 minimum = %.9g (accepted up "
                    "to %.9g)" % (f, par, lab(i), pm[i], rstar[i], hi[i]))
            # frames built with the same axis and centre as reference frame f: the whole dimer maps onto itself with
            # the subunits exchanged, so A must land on the reference's B as well
            same = np.array([labels[i][:2] == labels[f][:2] for i in range(F)])
            pmA = np.sqrt(K.plain_msd(X[same][:, idxA], Rf[f, idxB].astype(np.float64)))
            acc.add("c2dimer.superpose|subunits-exchanged", cls[same], pmA / hi[same],
                    lambda j, pmA=pmA, f=f, par=par, same=same: "ref frame %d parallel=%s %s: subunit A is %.9g nm (rms) from the "
                    "reference's subunit B after the C2 operation" % (f, par, lab(int(np.where(same)[0][j])), pmA[j]))
    sample = {"family": "c2dimer", "n_atoms_per_subunit": n, "layout": layout, "atom_indices": ai[:4].tolist(),
              "ref_atom_indices": rai[:4].tolist(), "axis": labels[2][0], "centre_index": labels[2][1],
              "A0": T[2, idxA[0]].tolist(), "B0": T[2, idxB[0]].tolist(), "oracle_rmsd_B_onto_A": float(np.sqrt(o["msd"][2]))}
    return dict(evals=acc.evals, nontrivial=0, records=acc.records(quick, seed), margin=acc.margin,
                margin_all=acc.margin_all, counts=acc.counts, sample=sample, threads=threads, frames=F,
                bit_identical=[0, 0], class_count={}, excluded_lp=0, exact_half_turn_frames=exact)


# ------------------------------------------------------------------------------------------------ run / replay
def _jobs(ctx):
    from vlib.refmodels import rmsd_confs as C
    ns = C.N_ATOMS_QUICK if ctx.quick else C.N_ATOMS
    jobs = [(fam, n, sel, ctx.quick, ctx.seed, ctx.scratch)
            for n in sorted(ns, reverse=True) for fam in C.FAMILIES for sel in C.SELECTIONS]
    jobs += [("c2dimer", n, lay, ctx.quick, ctx.seed, ctx.scratch) for n in sorted(ns, reverse=True) for lay in C.DIMER_LAYOUTS]
    return jobs, ns


def run(ctx):
    from vlib import grids
    from vlib.refmodels import rmsd_confs as C
    jobs, ns = _jobs(ctx)
    results = ctx.pmap(_job, jobs)
    evals = nontrivial = unconv = excluded_lp = exact_dimer = exact_copy = exact_half = 0
    margin, margin_all, counts, cls_count = {}, {}, {}, {}
    bit = [0, 0]
    shares = [0, 0]
    samples = []
    for job, res in zip(jobs, results):
        ctx.report(res["records"])
        evals += res["evals"]
        nontrivial += res["nontrivial"]
        unconv += res["stderr_unconverged"]
        excluded_lp += res["excluded_lp"]
        bit[0] += res["bit_identical"][0]
        bit[1] += res["bit_identical"][1]
        for k, v in res["margin"].items():
            margin[k] = max(margin.get(k, 0.0), v)
        for k, v in res["margin_all"].items():
            margin_all[k] = max(margin_all.get(k, 0.0), v)
        for k, v in res["counts"].items():
            counts[k] = counts.get(k, 0) + v
        for k, v in res["class_count"].items():
            cls_count[k] = cls_count.get(k, 0) + v
        exact_dimer += res.get("exact_half_turn_frames", 0)
        exact_copy += res.get("exact_copy_frames", 0)
        shm = res.get("shares_memory", [0, 0])
        shares[0] += shm[0]
        shares[1] += shm[1]
        exact_half += res.get("exact_copy_half_turn_frames", 0)
        if (job[0] in ("mirror", "offset500", "bonded") and job[1] in (5, 65) and job[2] in ("none", "diffsets")) or \
                (job[0] == "c2dimer" and job[1] == 5):
            samples.append(res["sample"])
    ctx.assume("numpy float64 SVD (LAPACK) is the trusted oracle; optimality is checked on the enumerated family only")
    ctx.assume("OpenMP team of %d threads inside each worker for parallel=True" % results[0]["threads"])
    cov = {
        "evaluations": int(evals),
        "distinct_nontrivial": int(nontrivial),
        "rule": "every member of family x n_atoms x selection x rotation x translation x reference frame (x parallel x "
                "precentered per call) is evaluated; an evaluation is one comparison of an observed value with the oracle or "
                "with a stated relation; distinct_nontrivial counts distinct (family, n_atoms, selection, reference frame, "
                "rotation+translation variant, de-duplicated by the frame's float32 content) whose float64 optimal RMSD exceeds 1e-6 nm "
                "(set-counted per job, jobs are disjoint)",
        "samples": [x for x in samples if x.get("family") == "c2dimer"][:2] + [x for x in samples if x.get("family") != "c2dimer"][:6],
        "exhaustive": True,
        "axes": {"family": C.FAMILIES, "n_atoms": ns, "selection": C.SELECTIONS,
                 "rotations": len(grids.rotations(ctx.quick, ctx.seed)), "translations_nm": C.TRANSLATIONS,
                 "reference_frames": [0, 2, 3] if ctx.quick else [0, 1, 2, 3], "parallel": [False, True],
                 "precentered": [False, True], "exact_rigid_copy_reference_frame": C.EXACT_REF_FRAME,
                 "c2dimer": {"layouts": C.DIMER_LAYOUTS, "axes": C.DIMER_AXES, "centres": C.DIMER_CENTRES,
                             "translations_nm": C.TRANSLATIONS, "n_atoms_per_subunit": ns}},
        "c2dimer_frames_with_exact_half_turn_optimum": int(exact_dimer),
        "target_frames_exact_rigid_copy_of_reference_frame_3": int(exact_copy),
        "of_those_optimal_rotation_exact_half_turn": int(exact_half),
        "view_reference_calls": shares[1], "view_reference_calls_sharing_memory_with_target": shares[0],
        "jobs": len(jobs),
        "frames_per_target": results[0]["frames"], "frames_per_dimer_target": results[-1]["frames"],
        "evaluations_by_check": counts,
        "max_err_over_tol": max(margin.values()) if margin else 0.0,
        "max_accepted_err_over_tol_by_check": {k: round(v, 4) for k, v in sorted(margin.items())},
        # includes the violating (known-finding) cases; capped at 1e6 (F3 rotates memory it races on: its garbage varies)
        "max_err_over_tol_by_check_all_classes": {k: (round(min(v, 1e6), 4) if np.isfinite(v) else repr(v))
                                                  for k, v in sorted(margin_all.items())},
        "frames_by_oracle_class": cls_count,
        "parallel_flag_bit_identical": bit[0], "parallel_flag_compared": bit[1],
        "kernel_unconverged_rotation_messages": int(unconv),
        "excluded_within_margin_of_threshold": 0,
        "lprmsd_default_group_frames_excluded_identity_not_optimal_by_margin": int(excluded_lp),
        "tolerance": "rmsd^2: (9+ceil(N/4)) eps32 (Ga+Gb)/N + (da+db)^2 + 4 eps32 msd*; superpose: sqrt(msd*+2(ceil(N/4)+5) eps32 "
                     "(Ga+Gb)/N) + eps32(16 rmax + Ymax); distances: 2 eps32 (16 rmax + Ymax)",
    }
    return "exploration", cov


def replay(ctx, rep):
    os.makedirs(ctx.scratch, exist_ok=True)
    args = (rep["fam"], int(rep["n"]), rep["sel"], bool(rep["quick"]), int(rep["seed"]), ctx.scratch)
    a = _job(args)
    b = _job(args)
    # observation = which signatures fail and on how many cases (the worst-case detail of md.rmsf|reference+atom_indices
    # is not compared: that defect rotates memory several threads write to, its garbage differs from run to run)
    ra = [(s, r["failing_cases"]) for s, d, r in a["records"]]
    rb = [(s, r["failing_cases"]) for s, d, r in b["records"]]
    for s, d, _ in a["records"]:
        print("replay:", s, "::", d[:300])
    assert ra == rb, "replay is not deterministic: %r vs %r" % (ra, rb)
    return rep["sig"] not in [s for s, _ in ra]
