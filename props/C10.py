"""C10 — neighbour searches return exactly the atoms within the cutoff.

Complete enumeration of a designed finite grid:
  cell (menu incl. unreduced variants, and no cell) x cutoff in {0.05, 0.25, 0.5} x min width x n in {1,2,3,8,64}
  x position design {4x4x4 fractional lattice + jitter (as generated / wrapped into the brick primary cell /
  every atom pushed to a different image of {-2..2}^3), points on and +-1e-4 around the voxel boundaries the
  code will choose with partners at cutoff*(1-/+2e-3) (in the cell / pushed to other images), tight clusters
  (cell centre / cell corner wrapped / cell corner un-wrapped)} x all variants of the voxel design
  x 2 frames (different coordinates, second frame's cell scaled by 1.25)
  x query/haystack in {all/all, one/all, disjoint halves, overlapping+permuted haystack}.
Oracle: float64 brute-force minimum-image distances (vlib.refmodels.mic) of the stored float32 coordinates in
the stored float32 cell; pairs with |d - cutoff| < 1e-5 are excluded from membership comparisons and counted.
"""
import numpy as np

MANIFEST = {
    "category": "exploration",
    "engine": "gridx",
    "technique": "complete enumeration of a designed finite grid of cells x cutoffs x atom counts x position designs "
                 "x query/haystack subsets, every result compared with a float64 brute-force minimum-image oracle",
    "text": "Every member of: cell menu of vlib.grids incl. unreduced forms (quick + the tric_45_60_75 pair; the menu contains a "
            "cell for each single non-zero off-diagonal box entry: gamma-only hex60 (b_x), beta-only mono110 (c_x), alpha-only "
            "mono_a75 (c_y) - the covered patterns are measured into the evidence) and no cell; plus THIN, STRONGLY SKEWED cells: "
            "angles {(116.2,68.4,63.6), (116,68,64), (64,116,68), (68,64,116), (60,120,120)} ((120,60,60) is degenerate) x edge "
            "lengths (5.73, 4.10, 2.42) with the short edge as c, b (thorough: also a), reduced and with b+=a, c+=a-b (c_y of "
            "either sign occurs), filled densely with a jittered 6x6x6 (thorough also 8x8x8) fractional lattice, as generated and "
            "with every atom pushed to another image, cutoff in {0.35, 0.433, 0.5} (thorough +0.25) x smallest width, i.e. the "
            "regime cutoff in (width/3, width/2] where the code uses 3 voxels across the cell; thorough also the 6x6x6 fill in "
            "every ordinary menu cell; WITHOUT a cell additionally the anisotropic voxel regimes: extents (m_k + f_k) x cutoff "
            "with every m in {1,2,3}^3 (thorough {1..4}^3) x every f in {0.2, 0.7}^3 (voxel larger / smaller than the cutoff, "
            "independently for x, y, z, all axis permutations), two corner atoms pinning the extent and, for every axis, every "
            "voxel boundary and every separation in {0.8, 0.9, 0.99, 1.01} x cutoff, a pair straddling that boundary with tiny "
            "lateral offsets, listed in both index orders; thorough also a jittered lattice of spacing 0.45 x cutoff x cutoff in "
            "{0.05, 0.25, 0.5} x smallest cell width x n in {1,2,3,8,64} x position designs {4x4x4 fractional lattice + "
            "low-discrepancy jitter as generated / wrapped into the brick cell / every atom in a different image of "
            "{-2..2}^3; points exactly on and +-1e-4 around multiples of the voxel edge neighborlist.cpp derives for "
            "that cell and cutoff (complete products boundary number in y x in z x 9 edge offsets x x-positions: n=1 {0,ny} x "
            "{0,nz} x no offset x {1e-4, ax/2}; n<=3 and every n in quick {0,ny} x {0,nz} x 9 x 2; thorough n=8 {0,ny/2,ny}^2 x "
            "9 x 2, n=64 {0,1,ny/2,ny-1,ny}^2 x 9 x {1e-4, cutoff, ax/2, ax-cutoff, ax-1e-4}; every base point used once, 8 "
            "per 64-atom frame) with 7 partner atoms per base point at cutoff*(1-/+2e-3) along "
            "+-x, +-y, +-z and diagonals, as placed (faces of the cell included), wrapped into the brick cell, and pushed to other images; tight clusters at the cell centre and "
            "across the cell corner, wrapped and un-wrapped, containing one exactly duplicated position} x 2 frames with "
            "different coordinates and cells x query/haystack in {all/all, one/all, disjoint halves, overlapping with "
            "permuted haystack}. For each: compute_neighbors (membership of clearly-inside / clearly-outside atoms, "
            "haystack order, no duplicates, no self-only hits), compute_neighborlist on each frame (membership, "
            "symmetric, irreflexive, duplicate-free) and md.compute_distances on all pairs are compared with float64 "
            "minimum-image distances over +-R images around the rounded displacement (R measured per cell). Right level: the voxel range "
            "arithmetic is a finite case analysis over where an atom sits relative to voxel/cell boundaries; the design "
            "puts an input on each side of each such boundary.",
    "note": "Bounded: n <= 64, images within +-2 cells, cutoff never above half the smallest width of the cell as given; "
            "pairs within 1e-5 of the cutoff are excluded (counted). The voxel geometry is re-derived in float32 only to "
            "place design points, not as an oracle. Duplicate or out-of-range indices are not issued. "
            "OMP_NUM_THREADS=1 (thread-independence is C08).",
    "ref": "DESIGN.md §3 C10, §2.4",
}

from vlib import grids
from vlib.refmodels import mic
from vlib.refmodels import nbr_design as nd
from vlib.refmodels.image_design import needed_R, measure_radii, _RC

MARGIN = 1e-5
CUTFRACS = (0.05, 0.25, 0.5)
THIN_CUTFRACS = (0.25, 0.35, 0.433, 0.5)       # thin cells: cutoff/width in (1/3, 1/2] gives the 3-voxel regime
DESIGNS_DENSE = ("dense", "dense-images")
NS = (1, 2, 3, 8, 64)
SUBSETS = ("all/all", "one/all", "disjoint", "overlap")
DESIGNS_P = ("lattice", "lattice-brick", "lattice-images", "voxel", "voxel-brick", "voxel-images",
             "cluster-centre", "cluster-corner-brick", "cluster-corner-raw")
DESIGNS_O = ("lattice", "voxel-open", "cluster")       # plus "aniso" / "aniso-dense", generated per configuration
FRAME_SCALE = (1.0, 1.25)
C_TOL = 16          # |compute_distances - oracle| <= C_TOL * eps32 * S, S = largest coordinate / cell-vector magnitude


def _cellclass(cell):
    if cell is None:
        return "nocell"
    if cell["ortho"]:
        return "ortho"
    return "tric" if cell["reduced"] else "tric-unreduced"


def _base_level(n, quick):
    """Which complete sub-product of the voxel-boundary design is used: -1 = faces, no edge offsets; 0 = faces only;
    1 = {0, n/2, n}; 2 = full."""
    if n == 1:
        return -1
    if n <= 3 or quick:
        return 0
    return 1 if n == 8 else 2


_BC = {}


def _bases(level, ny, nz, vsy, vsz, ax, cutoff, by=None, cz=None):
    k = (level, ny, nz, vsy, vsz, ax, cutoff, by, cz)
    if k not in _BC:
        if level <= 0:
            b = nd.voxel_bases(ny, nz, vsy, vsz, ax, cutoff, True, by, cz)
            b = [x for x in b if x[3][0] in (0, ny) and x[3][1] in (0, nz)]
            if level < 0:
                b = [x for x in b if x[3][2] == 0 and x[3][3] == 0]
        else:
            b = nd.voxel_bases(ny, nz, vsy, vsz, ax, cutoff, level == 1, by, cz)
        _BC[k] = b
    return _BC[k]


_MENU = {}


QUICK_EXTRA = "tric_45_60_75"      # most skewed menu cell; its unreduced form shows the upper-face rounding defect


def _menu(quick):
    if quick not in _MENU:
        m = grids.cell_menu(quick=quick, unreduced=True)
        if quick:
            m = m + [c for c in grids.cell_menu(quick=False, unreduced=True) if c["name"].startswith(QUICK_EXTRA)]
        _MENU[quick] = m + nd.thin_cells(quick)
    return _MENU[quick]


_VS = {}


def _voxel_setup(ci, cf, n, design, quick, f):
    """(bases, geometry, reduced stored vectors) of the voxel design for frame phase f."""
    k = (ci, cf, _base_level(n, quick), design == "voxel-open", quick, f)
    if k not in _VS:
        _VS[k] = _voxel_setup_(ci, cf, n, design, quick, f)
    return _VS[k]


def _voxel_setup_(ci, cf, n, design, quick, f):
    menu = _menu(quick)
    cell = menu[ci] if ci < len(menu) else None
    gen = cell if cell is not None else menu[1]
    V = gen["vectors"] * FRAME_SCALE[f]
    cutoff = _cutoff(gen, cf)
    if design == "voxel-open":
        L = np.array([V[0, 0], V[1, 1], V[2, 2]])
        ny, nz, vsy, vsz = nd.voxel_geometry_open(np.zeros(3), L, cutoff)
        return _bases(_base_level(n, quick), ny, nz, float(vsy), float(vsz), float(L[0]), cutoff), (ny, nz, float(vsy), float(vsz)), None
    v32 = _stored_vectors(gen, FRAME_SCALE[f])
    ny, nz, vsy, vsz, vr = nd.voxel_geometry_periodic(v32, cutoff)
    return _bases(_base_level(n, quick), ny, nz, float(vsy), float(vsz), float(vr[0, 0]), cutoff, float(vr[1, 1]),
                  float(vr[2, 2])), (ny, nz, float(vsy), float(vsz)), vr


def _cutoff(gen, cf):
    return float(np.float32(cf * float(np.min(grids.cell_widths(gen["vectors"])))))


def _n_variants(ci, cf, n, design, quick):
    """Number of variants needed to use every base point of the voxel design (in both frame phases) once."""
    if not design.startswith("voxel"):
        return 1
    groups = max(1, n // 8)
    return max(-(-len(_voxel_setup(ci, cf, n, design, quick, f)[0]) // groups) for f in (0, 1))


def cases(quick):
    """Work items (ci, cutoff fraction, n, design, v0, v1): variants v0..v1-1 become frames of one trajectory."""
    out = []
    menu = _menu(quick)
    for ci, cell in enumerate(list(menu) + [None]):
        if cell is not None and cell.get("thin"):
            for cf in THIN_CUTFRACS:
                if quick and cf == THIN_CUTFRACS[0]:
                    continue
                for n in ((216,) if quick else (216, 512)):
                    for d in DESIGNS_DENSE:
                        if quick and d == "dense-images" and cf != 0.433:
                            continue
                        out.append((ci, cf, n, d, 0, 1))
            continue
        designs = DESIGNS_P if cell is not None else DESIGNS_O
        for cf in CUTFRACS:
            for n in NS:
                for d in designs:
                    nv = _n_variants(ci, cf, n, d, quick)
                    step = 3 if n == 64 else 48
                    for v0 in range(0, nv, step):
                        out.append((ci, cf, n, d, v0, min(nv, v0 + step)))
        if cell is not None and not quick:
            for cf in (0.25, 0.5):
                out.append((ci, cf, 216, "dense", 0, 1))
        if cell is None:                 # anisotropic voxel regimes without a cell: one item per (m, f) configuration
            cut = _cutoff(menu[1], 0.25)
            for v, cfg in enumerate(nd.aniso_configs(quick)):
                out.append((ci, 0.25, len(nd.aniso_points(cfg, cut, 0)), "aniso", v, v + 1))
            if not quick:                # dense lattice fill (spacing ~0.45 cutoff) for m a permutation of (1, 2, 3)
                for v, cfg in enumerate(nd.aniso_configs(False)):
                    if sorted(cfg[0]) == [1, 2, 3]:
                        out.append((ci, 0.25, 0, "aniso-dense", v, v + 1))
    return out


def _wrap32(x, vr):
    """Wrap into the brick cell of the stored (float32, reduced) vectors such that the float32 values are inside."""
    x = np.asarray(x, np.float64)
    for _ in range(3):
        x = nd.brick_wrap(x.astype(np.float32), vr)
        if nd.in_brick(x.astype(np.float32), vr):
            break
    return x


def _build(case, quick, seed):
    """-> xyz float32 (F,n,3), lengths (F,3)|None, angles, cutoff, cell, frame keys [(variant, phase)]"""
    ci, cf, n, design, v0, v1 = case
    menu = _menu(quick)
    cell = menu[ci] if ci < len(menu) else None
    gen = cell if cell is not None else menu[1]          # no cell: positions are laid out in the ortho234 box
    cutoff = _cutoff(gen, cf)
    xyz, keys = [], []
    for variant in range(v0, v1):
        for f in (0, 1):
            V = gen["vectors"] * FRAME_SCALE[f]
            if design == "aniso":
                x = nd.aniso_points(nd.aniso_configs(quick)[variant], cutoff, f)
            elif design == "aniso-dense":
                m_, f_ = nd.aniso_configs(False)[variant]
                E = np.array([(a + b) * cutoff for a, b in zip(m_, f_)])
                ax = [np.linspace(0, E[k], int(np.ceil(E[k] / (0.45 * cutoff))) + 1) for k in range(3)]
                x = np.array(np.meshgrid(*ax, indexing="ij")).reshape(3, -1).T
                jit = grids.jitter(len(x) * (f + 1), 3, 0.2 * cutoff, seed)[len(x) * f:]
                x = np.clip(x + jit, 0, E)
                x[0], x[-1] = 0.0, E
            elif design.startswith("dense"):
                x = nd.dense_frac(int(round(n ** (1 / 3.0))), seed, f) @ V
                if design == "dense-images":
                    x = x + nd.image_shifts(n, f) @ V
            elif design.startswith("lattice"):
                x = nd.lattice_frac(n, seed, f) @ V
                if design == "lattice-brick":
                    x = _wrap32(x, nd.reduce_like_code(_stored_vectors(gen, FRAME_SCALE[f])))
                elif design == "lattice-images":
                    x = x + nd.image_shifts(n, f) @ V
            elif design.startswith("cluster"):
                x = nd.cluster_points(n, cutoff, seed, f)
                if design in ("cluster-centre", "cluster"):
                    x = x + 0.5 * (V[0] + V[1] + V[2])
                elif design == "cluster-corner-brick":
                    x = _wrap32(x, nd.reduce_like_code(_stored_vectors(gen, FRAME_SCALE[f])))
            else:
                bases, _geo, vr = _voxel_setup(ci, cf, n, design, quick, f)
                x = nd.voxel_points(bases, n, variant, cutoff, f)
                if design == "voxel-images":
                    x = x + nd.image_shifts(n, f) @ V
                elif design == "voxel-brick":
                    x = _wrap32(x, vr)
                elif design == "voxel-open" and n >= 3:   # pin the extent so the boundaries are where the design put them
                    x[n - 1] = [V[0, 0], V[1, 1], V[2, 2]]
                    x[n - 2] = 0.0
            xyz.append(x)
            keys.append((variant, f))
    xyz = np.array(xyz).astype(np.float32)
    if cell is None:
        return xyz, None, None, cutoff, cell, keys
    lengths = np.array([cell["lengths"] * FRAME_SCALE[f] for _v, f in keys])
    angles = np.array([cell["angles"]] * len(keys))
    return xyz, lengths, angles, cutoff, cell, keys


_SV = {}


def _stored_vectors(cell, scale):
    """The float32 unit-cell vectors mdtraj will hand to the C++ code for this cell."""
    k = (cell["name"], scale)
    if k not in _SV:
        import mdtraj as md
        t = md.Trajectory(np.zeros((1, 1, 3), np.float32), _top(1), unitcell_lengths=[cell["lengths"] * scale],
                          unitcell_angles=[cell["angles"]])
        _SV[k] = np.array(t.unitcell_vectors[0], dtype=np.float32)
    return _SV[k]


_TOPS = {}


def _top(n):
    import mdtraj as md
    if n not in _TOPS:
        top = md.Topology()
        ch = top.add_chain()
        for _ in range(n):
            r = top.add_residue("X", ch)
            top.add_atom("C", md.element.carbon, r)
        _TOPS[n] = top
    return _TOPS[n]


def _subset(name, n):
    a = np.arange(n)
    if name == "all/all":
        return a, None
    if name == "one/all":
        return np.array([n // 2]), None
    if name == "disjoint":
        if n < 2:
            return None, None
        return a[: n // 2], a[n // 2:]
    if name == "overlap":
        k = -(-2 * n // 3)
        return a[:k], a[n - k:][::-1].copy()
    raise ValueError(name)


def _oracle(xyz32, ucv, R):
    """float64 minimum-image distances (F,n,n) and straddle flags (minimum image != plain difference), computed
    from the stored float32 coordinates and the stored cell vectors of each frame."""
    x = np.asarray(xyz32, np.float64)
    F, n = x.shape[:2]
    iu = np.triu_indices(n, 1)
    D = np.zeros((F, n, n))
    S = np.zeros((F, n, n), bool)
    if n < 2:
        return D, S
    disp = x[:, iu[1]] - x[:, iu[0]]                     # (F,P,3)
    for f in range(F):
        if ucv is None:
            d = np.sqrt((disp[f] * disp[f]).sum(1))
            st = np.zeros(len(d), bool)
        else:
            P = disp.shape[1]
            d = np.zeros(P)
            st = np.zeros(P, bool)
            for a in range(0, P, 6000):
                dd_, _b, nb = mic.min_image(disp[f][a:a + 6000], np.asarray(ucv[f], np.float64), R)
                d[a:a + 6000] = dd_
                st[a:a + 6000] = np.any(nb != 0, axis=1)
        D[f][iu] = d
        D[f].T[iu] = d
        S[f][iu] = st
        S[f].T[iu] = st
    return D, S


def run_case(arg):
    """Worker: returns (records, stats)."""
    case, quick, seed = arg
    import mdtraj as md
    ci, cf, n, design, v0, v1 = case
    xyz, lengths, angles, cutoff, cell, keys = _build(case, quick, seed)
    n = xyz.shape[1]
    st = dict(evals=0, excluded=0, nontrivial=[], nt_open=0, err=0.0, abserr=0.0, pairs_in=0, pairs_out=0,
              straddling_in=0, frames=len(keys), sample=None, inbrick=0, outside=0, atface=0, zshared=0)
    recs = []
    cc = _cellclass(cell)
    if cell is None:
        t = md.Trajectory(xyz, _top(n))
    else:
        t = md.Trajectory(xyz, _top(n), unitcell_lengths=lengths, unitcell_angles=angles)
    ucv = t.unitcell_vectors
    F = len(keys)
    pairs = np.array(np.triu_indices(n, 1)).T
    iu = np.triu_indices(n, 1)
    dd = md.compute_distances(t, pairs, periodic=True) if n > 1 else np.zeros((F, 0), np.float32)
    c32 = np.float32(cutoff)

    def rec(api, kind, fi, subset, detail, pos):
        sig = "%s|%s|%s|%s" % (api, kind, cc, pos)
        variant, f = keys[fi]
        rp = dict(case=[ci, cf, n, design, variant, variant + 1], quick=quick, seed=seed, api=api, frame=f, subset=subset)
        recs.append((sig, "%s cell=%s cutoff=%.6g n=%d design=%s/%d frame=%d subset=%s: %s" % (
            api, cell["name"] if cell else None, cutoff, n, design, variant, f, subset, detail), rp))

    D, S = _oracle(t.xyz, ucv, None if cell is None else needed_R(np.asarray(ucv[0], np.float64), cell["name"]))
    off = ~np.eye(n, dtype=bool)
    AMB = (np.abs(D - cutoff) < MARGIN) & off
    CIN = (D < cutoff - MARGIN) & off
    COUT = (D >= cutoff + MARGIN) & off
    POS = []
    red = {} if ucv is None else {f: nd.reduce_like_code(ucv[keys.index((v0, f))]) for f in (0, 1)}
    zshare = {} if ucv is None else {f: nd.z_window_shares_images(ucv[keys.index((v0, f))], cutoff) for f in (0, 1)}
    for fi in range(F):
        vec = None if ucv is None else ucv[fi]
        amb, cin, cout = AMB[fi], CIN[fi], COUT[fi]
        if vec is None:
            pos = "open"
        else:
            pos = "inbrick" if nd.in_brick(t.xyz[fi], red[keys[fi][1]]) else "outside"
            st[pos] += 1
            if pos == "inbrick" and nd.at_face(t.xyz[fi], red[keys[fi][1]]):
                pos = "inbrick-at-face"
                st["atface"] += 1
            if zshare[keys[fi][1]]:
                pos += "+zwin-shared"
                st["zshared"] += 1
        POS.append(pos)
        st["excluded"] += int(amb.sum()) // 2
        st["pairs_in"] += int(cin.sum()) // 2
        st["pairs_out"] += int(cout.sum()) // 2
        nstr = int((cin & S[fi]).sum()) // 2
        st["straddling_in"] += nstr
        if nstr:
            st["nontrivial"].append((ci, cf, n, design) + keys[fi])
        elif vec is None and cin.any() and cout.any():
            st["nt_open"] += 1

        # compute_distances against the oracle (numeric, float32 error model) and membership
        if n > 1:
            Smag = float(np.abs(t.xyz[fi]).max()) + (float(np.abs(vec).sum()) if vec is not None else 0.0)
            tol = C_TOL * grids.EPS32 * max(Smag, 1e-3)
            e = np.abs(dd[fi].astype(np.float64) - D[fi][iu])
            st["abserr"] = max(st["abserr"], float(e.max()))
            st["err"] = max(st["err"], float(e.max()) / tol)
            bad = ((dd[fi] < c32) != (D[fi][iu] < cutoff)) & ~amb[iu]
            st["evals"] += 1
            if bad.any():
                k = int(np.argmax(bad))
                rec("compute_distances", "membership-differs-from-float64-oracle", fi, "-",
                    "pair %s: compute_distances %.7f, oracle %.7f" % (pairs[k].tolist(), dd[fi][k], D[fi][iu][k]), pos)

        # ---- compute_neighborlist on this frame ----
        nl = md.compute_neighborlist(t, cutoff, frame=fi, periodic=True)
        st["evals"] += 1
        if len(nl) != n:
            rec("neighborlist", "wrong-length", fi, "-", "len %d" % len(nl), pos)
            continue
        G = np.zeros((n, n), int)
        for i, a in enumerate(nl):
            a = np.asarray(a, int)
            if a.size and (a.min() < 0 or a.max() >= n):
                rec("neighborlist", "index-out-of-range", fi, "-", "atom %d: %s" % (i, a.tolist()), pos)
                a = a[(a >= 0) & (a < n)]
            np.add.at(G[i], a, 1)
        if (G > 1).any():
            i, j = np.argwhere(G > 1)[0]
            rec("neighborlist", "duplicate", fi, "-", "atom %d lists %d %d times" % (i, j, G[i, j]), pos)
        if np.diag(G).any():
            rec("neighborlist", "reflexive", fi, "-", "atom %d lists itself" % int(np.argmax(np.diag(G))), pos)
        B = G > 0
        if (B != B.T).any():
            i, j = np.argwhere(B != B.T)[0]
            rec("neighborlist", "asymmetric", fi, "-", "%d in list of %d: %s, reverse: %s" % (j, i, B[i, j], B[j, i]), pos)
        lost = cin & ~B
        extra = cout & B
        if lost.any():
            i, j = np.argwhere(lost)[0]
            rec("neighborlist", "lost", fi, "-", "%d pairs lost, e.g. (%d,%d) d*=%.6f xyz=%s / %s" % (
                int(lost.sum()) // 2 or 1, i, j, D[fi][i, j], t.xyz[fi, i].tolist(), t.xyz[fi, j].tolist()), pos)
        if extra.any():
            i, j = np.argwhere(extra)[0]
            rec("neighborlist", "extra", fi, "-", "%d extra pairs, e.g. (%d,%d) d*=%.6f" % (
                int(extra.sum()) // 2 or 1, i, j, D[fi][i, j]), pos)

    # ---- compute_neighbors, all frames at once ----
    for sname in SUBSETS:
        q, h = _subset(sname, n)
        if q is None:
            continue
        res = md.compute_neighbors(t, cutoff, q, haystack_indices=h, periodic=True)
        hh = np.arange(n) if h is None else h
        if len(res) != F:
            rec("neighbors", "wrong-frame-count", 0, sname, "len %d for %d frames" % (len(res), F), POS[0])
            continue
        where = np.full(n, -1)
        where[hh] = np.arange(len(hh))
        for fi in range(F):
            pos = POS[fi]
            st["evals"] += 1
            got = np.asarray(res[fi], int)
            if len(np.unique(got)) != len(got):
                rec("neighbors", "duplicate", fi, sname, "result %s" % got.tolist(), pos)
            if got.size and (got.min() < 0 or got.max() >= n or (where[got] < 0).any()):
                rec("neighbors", "not-in-haystack", fi, sname, "result %s haystack %s" % (got.tolist(), hh.tolist()), pos)
                continue
            order = where[got]
            if (np.diff(order) <= 0).any():
                rec("neighbors", "not-in-haystack-order", fi, sname, "result %s haystack %s" % (got.tolist(), hh.tolist()), pos)
            sub_in = CIN[fi][np.ix_(hh, q)].any(1)
            sub_amb = AMB[fi][np.ix_(hh, q)].any(1) & ~sub_in
            ingot = np.zeros(len(hh), bool)
            ingot[order] = True
            lost = sub_in & ~ingot
            extra = ~sub_in & ~sub_amb & ingot
            if lost.any():
                a = int(hh[np.argmax(lost)])
                rec("neighbors", "lost", fi, sname, "haystack atom %d (min d* to query %.6f) missing; got %s" % (
                    a, float(np.min(np.where(q == a, np.inf, D[fi][a, q]))), got.tolist()), pos)
            if extra.any():
                a = int(hh[np.argmax(extra)])
                dq = np.where(q == a, np.inf, D[fi][a, q])
                kind = "self" if not np.isfinite(dq.min()) else "extra"
                rec("neighbors", kind, fi, sname, "haystack atom %d returned, min d* to other query atoms %.6f" % (
                    a, float(dq.min())), pos)
    if st["nontrivial"]:
        key = st["nontrivial"][0]
        fi = keys.index(key[4:])
        st["sample"] = dict(cell=cell["name"], cutoff=cutoff, n=n, design=design, variant=key[4], frame=key[5],
                            xyz_first3=t.xyz[fi, :3].tolist(),
                            neighborlist_first3=[np.asarray(a).tolist() for a in md.compute_neighborlist(t, cutoff, frame=fi)[:3]])
    return recs, st


def run(ctx):
    quick = ctx.quick
    cs = cases(quick)
    measure_radii(ctx, _menu(quick), lambda c: _stored_vectors(c, 1.0))     # search radius each cell needs (cached)
    order = sorted(range(len(cs)), key=lambda i: -(cs[i][2] ** 2) * (cs[i][5] - cs[i][4]))   # big items first
    res_o = ctx.pmap(run_case, [(cs[i], quick, ctx.seed) for i in order], chunksize=1)
    res = [None] * len(cs)
    for i, r in zip(order, res_o):
        res[i] = r
    nontrivial = set()
    tot = dict(evals=0, excluded=0, nt_open=0, pairs_in=0, pairs_out=0, straddling_in=0, frames=0, inbrick=0, outside=0, atface=0, zshared=0)
    err = abserr = 0.0
    samples = []
    per_design = {}
    for c, (recs, st) in zip(cs, res):
        ctx.report(recs)
        for k in tot:
            tot[k] += st[k]
        nontrivial.update(st["nontrivial"])
        err = max(err, st["err"])
        abserr = max(abserr, st["abserr"])
        if st["nontrivial"]:
            per_design[c[3]] = per_design.get(c[3], 0) + len(st["nontrivial"])
        if st["sample"] and len(samples) < 4 and all(s["design"] != st["sample"]["design"] for s in samples):
            samples.append(st["sample"])
    menu = _menu(quick)
    ctx.assume("float64 brute-force minimum image over +-R images around the rounded displacement is the true minimum; R per "
               "cell shape is the smallest radius reproducing R=4 on a 17^3 grid of the fractional residual cube "
               "(measured: %s)" % sorted(_RC.items()))
    skew = {}
    for c in menu:                    # which off-diagonal entries of the stored box are non-zero: (b_x, c_x, c_y)
        v = _stored_vectors(c, 1.0)
        skew.setdefault("".join("1" if x != 0 else "0" for x in (v[1, 0], v[2, 0], v[2, 1])), []).append(c["name"])
    cov = {
        "evaluations": tot["evals"],
        "distinct_nontrivial": len(nontrivial),
        "rule": "complete product cell x cutoff x n x design x variant (every voxel-boundary base point of the stated "
                "sub-product used once) x 2 frame phases; one evaluation = one API result for one frame (compute_neighbors "
                "per subset, compute_neighborlist, compute_distances); a (cell, cutoff, n, design, variant, frame) case is "
                "non-trivial when at least one clearly-inside neighbour pair has a non-zero minimum-image shift "
                "(straddles a periodic boundary)",
        "samples": samples,
        "exhaustive": True,
        "work_items": len(cs),
        "frames": tot["frames"],
        "frames_all_atoms_in_brick_cell": tot["inbrick"],
        "frames_some_atom_outside_brick_cell": tot["outside"],
        "frames_in_brick_with_atom_within_2ulp_of_upper_face": tot["atface"],
        "frames_z_window_shared_by_two_images_with_partial_y_window": tot["zshared"],
        "nontrivial_by_design": per_design,
        "nontrivial_open_cases": tot["nt_open"],
        "pairs_clearly_inside": tot["pairs_in"],
        "pairs_clearly_outside": tot["pairs_out"],
        "pairs_inside_straddling_boundary": tot["straddling_in"],
        "pairs_excluded_within_margin": tot["excluded"],
        "margin": MARGIN,
        "box_skew_patterns_bx_cx_cy": skew,
        "single_skew_patterns_covered": sorted(k for k in skew if k.count("1") == 1),
        "max_err_over_tol": err,
        "max_abs_err_compute_distances": abserr,
        "tolerance": "%d*eps32*(max|coordinate| + sum|cell vector components|)" % C_TOL,
        "axes": {"cells": [c["name"] for c in menu] + ["none"], "cutoff_fractions": list(CUTFRACS), "n": list(NS),
                 "designs_periodic": list(DESIGNS_P), "designs_thin_cells": list(DESIGNS_DENSE),
                 "thin_cell_cutoff_fractions": list(THIN_CUTFRACS), "thin_cell_n": [216] if quick else [216, 512], "designs_open": list(DESIGNS_O), "subsets": list(SUBSETS),
                 "frame_phases": 2, "frame_cell_scale": list(FRAME_SCALE),
                 "voxel_design_level": {str(n): _base_level(n, quick) for n in NS},
                 "voxel_design_levels": "-1: boundary numbers {0,n} x no edge offset x 2 x-positions; 0: {0,n} x 9 edge "
                                        "offsets x 2 x-positions; 1: {0,n/2,n} x 9 x 2; 2: {0,1,n/2,n-1,n} x 9 x 5"},
    }
    return "exploration", cov


def replay(ctx, rep):
    arg = (tuple(rep["case"]), rep["quick"], rep["seed"])
    a, _ = run_case(arg)
    b, _ = run_case(arg)
    sa = sorted((r[0], r[1]) for r in a)
    sb = sorted((r[0], r[1]) for r in b)
    assert sa == sb, "replay is not deterministic"
    want = (rep.get("api"), rep.get("frame"), rep.get("subset"))
    hit = [r for r in a if (r[2]["api"], r[2]["frame"], r[2]["subset"]) == want] or a
    for r in hit[:5]:
        print("replay:", r[0], "::", r[1][:400])
    return not a
