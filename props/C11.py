"""C11 — re-imaging moves atoms only by lattice vectors and makes molecules whole.

Every scattered copy of a small system is one frame of a trajectory; frames alternate between two cells of the
menu (cell i on even frames, cell i+1 on odd frames), so `that frame's cell vectors` matters in every trajectory
and every cell sees every scatter.  See MANIFEST for the enumerated space and the oracle.
"""
import numpy as np

MANIFEST = {
    "category": "exploration",
    "engine": "gridx",
    "technique": "complete enumeration of periodic-image scatters of small molecular systems x cells x bond orderings x "
                 "API options, each output frame checked against float64 lattice-congruence and minimum-image oracles",
    "text": "Systems {diatomic; 3-chain with each labelling of the middle atom; 3-ring; 4-atom star with each labelling of "
            "the centre (quick: centre 0 and 3); 3-chain + diatomic + ion in a blocked and an interleaved atom order with "
            "anchors {A} and {A,B}; the same + 8 ions (11 molecules) with guessed anchors; an explicit 3-chain anchor + one non-anchor "
            "molecule W in {3-chain, 3-ring, 4-star, 4-path} in EVERY permutation of W's atom order (6+6+24+24; thorough also 3-atom W "
            "numbered before the anchor), W placed so that after centring it straddles the x, y or z face or the corner of "
            "the cell, image_molecules called with its default other_molecules (Topology.find_molecules()); a 4-star + "
            "relabelled 3-chain + 9 ions for the fully default call} x every permutation of the bond list (<= 3 bonds; "
            "relabelled systems one order) x cell pairs (menu cell i on even frames, cell i+1 on odd frames; the whole vlib.grids menu incl. "
            "unreduced forms, quick 12 / thorough 26 cells) x scatters: for <= 3 atoms every assignment of images {-1,0,1}^3 per atom "
            "(27^2, 27^3 = 19683 frames; quick: diatomic complete, 3 atoms: atom 0 in the home image and every assignment for "
            "the other two = 729 frames, i.e. every relative image configuration; mix6 bond permutations 0 and 5 only), for larger systems the identity, every single-atom "
            "scatter, every single-bond cut with either side moved, every single-molecule shift (relabelled systems: 4 placements x "
            "{identity, every single-atom scatter, every whole-molecule shift} by the 6 face images, thorough 26) x "
            "{make_molecules_whole, image_molecules(make_whole=True), image_molecules(make_whole=False)} x inplace in "
            "{False, True} x anchors explicit / guessed. Oracle per frame (float64, from the stored float32 data): new-old "
            "(minus the move of atom 0 for image_molecules = one common translation) is an integer combination of that "
            "frame's stored cell vectors within 16*eps32*S; every bonded pair ends at the brute-force minimum-image "
            "distance of the input; all pair minimum-image distances unchanged; angles/dihedrals built from minimum-image "
            "vectors unchanged for tuples whose pairs are closer than 0.45 x the smallest width (unique image); with "
            "make_whole=False every non-anchor molecule moves rigidly; unit cell and time bit-identical; inplace=False "
            "leaves the source bit-identical, returns a new object sharing no memory; inplace=True returns self and "
            "produces bit-identical coordinates. Separately Topology.find_molecules() must equal the union-find connected components "
            "for every system and for every labelled bond graph on 1..5 atoms (1099 graphs x 2 bond-list orders). Multi-anchor systems with real element types: two anchors (O,H,H + C,H,H,H; O,H,H + H,H,O) and three "
            "anchors (+ N,H), one ion, every order of the explicit anchor list (quick: the 3 cyclic orders for three anchors, complete 27^2 placements for one of them and the 7^2 face placements for the other two), "
            "and guessed anchors with 18 (thorough also 3 anchors with 27) extra ions; scatter = every placement of the "
            "non-first molecules in the images {-1,0,1}^3 relative to the first (27, 27^2 = 729; guessed 3-anchor system 7^2 "
            "face images); image_molecules with make_whole True and False; additionally judged: every ANCHOR molecule gets one "
            "common lattice shift (make_whole=False) and all bonded pairs are at the minimum image (make_whole=True). "
            "View sources: for every system variant (first cell pair) the inplace=False calls are repeated on "
            "source trajectories whose coordinate array does not own its memory - md.Trajectory built on a window of a "
            "larger float32 buffer, t.slice(slice(0,m), copy=False), a single frame t[i] - and the source (xyz, time, cell), "
            "the parent buffer and the result are checked: source and parent bit-identical, no shared memory, result equal to "
            "the owning-source result. Explicit sorted_bonds=: for every system variant (all relabellings) "
            "make_molecules_whole and image_molecules(make_whole=True) are also called with a caller-supplied, correct "
            "placement order (breadth-first walk from the HIGHEST atom index of each molecule, thorough also from the lowest; "
            "rows (placed atom, atom to place), mostly not lexicographically sorted) and judged by the same lattice / "
            "bonded-pair oracle; the argument must not be modified. Tiny cells: six cells with edges 0.4-0.7 nm (3 "
            "orthorhombic, monoclinic, hexagonal, triclinic; thorough + unreduced forms; bond = 0.2 x smallest width) for the "
            "di-/tri-atomic systems (thorough + 4-star, 6-atom mix): besides the many-frame trajectory every scatter frame "
            "(27^2; 3 atoms: atom 0 fixed x 27^2) is also re-imaged ALONE as a 1-frame trajectory (quick: not for make_whole=False), must be bit-identical to "
            "its result inside the big trajectory and is judged by the oracle - decisions taken over all frames of a "
            "trajectory cannot hide behind other frames. History layer: "
            "ONE Topology object shared by successive trajectories, every op sequence of length 2..3 (thorough 4 on 3 cell "
            "pairs, 3 on all) ending in a re-imaging op over {make_molecules_whole, image_molecules(make_whole=True), "
            "insert_atom at the front / inside the first molecule (+ coordinates), delete_atom_by_index of the lowest "
            "unbonded atom (+ coordinates), add_bond of an inserted site to its reference atom} for two systems (O,H,H + ion "
            "+ O,H,H; H,H,O + ion + centre-last 4-star), each re-imaging step re-scattered (identity, every atom and every "
            "molecule by the 6 face images) and judged on the topology as it is then (lattice moves, bonded pairs at the "
            "minimum image) and compared bitwise with the same call on the same topology built from scratch; each item runs "
            "in a forked child so heap corruption by stale indices is reported (process-died) instead of hanging. Right level: re-imaging is integer arithmetic on image numbers, so the "
            "behaviour is determined by the relative image configuration, which is enumerated completely.",
    "note": "Molecule extent is 0.2 x the smallest width (cell as given) per bond, all intramolecular distances < 0.4 width; "
            "cells in mdtraj's standard orientation only (a along x, b in the xy-plane); images within +-1 cell per atom. "
            "image_molecules.pxi cannot be rebuilt here (no Cython): defects in it are found but mutations are limited to "
            "trajectory.py/topology.py and the C++ closest-contact kernel. guess_anchor_molecules raises ValueError for "
            "fewer than 10 molecules: counted, not judged. delete_atom_by_index does not remove the bonds of the deleted atom "
            "(dangling Bond objects): only unbonded atoms are deleted. md.compute_distances/angles/dihedrals(periodic=True) before vs "
            "after are recorded (lattice invariance of those functions is C09), not judged.",
    "ref": "DESIGN.md §3 C11, §2.4",
}

from vlib import grids
from vlib.refmodels import mic
from vlib.refmodels import image_design as idn

C_TOL = 16
BOND_FRAC = 0.2
UNIQUE_FRAC = 0.45

_MENU = {}
_SYS = {}


def _menu(quick):
    """grids menu (incl. unreduced forms) followed by the tiny cells (flag tiny)."""
    if quick not in _MENU:
        _MENU[quick] = grids.cell_menu(quick=quick, unreduced=True) + idn.tiny_cells(quick)
    return _MENU[quick]


def _pair(ci, menu):
    """Cell pair of work item ci: the cell and the next one of the same group (ordinary / tiny), cyclically."""
    grp = [i for i, c in enumerate(menu) if bool(c.get("tiny")) == bool(menu[ci].get("tiny"))]
    return [menu[ci], menu[grp[(grp.index(ci) + 1) % len(grp)]]]


def _tiny_system(name, quick):
    """Systems run in the tiny cells: di-/tri-atomics (thorough: also the 4-star and the 6-atom mix, first bond order)."""
    if name == "diatomic" or name.startswith("chain3") and (not quick or name.endswith("perm=0")):
        return True
    if name.startswith("ring3") and name.endswith("perm=0"):
        return True
    return not quick and (name.startswith("star4") and name.endswith("perm=0") or name.startswith("mix6") and "perm=0" in name)


def _systems(quick):
    if quick not in _SYS:
        _SYS[quick] = idn.systems(quick)
    return _SYS[quick]


def cases(quick):
    """(system variant, cell pair) work items, plus (-1, 0): the bond-graph enumeration for find_molecules."""
    menu, systems = _menu(quick), _systems(quick)
    return [(-1, 0)] + hist_cases(quick) + [(si, ci) for si in range(len(systems)) for ci in range(len(menu))
                                             if not menu[ci].get("tiny") or _tiny_system(systems[si]["name"], quick)]


def _cellclass(cell):
    if cell["ortho"]:
        return "ortho"
    return "tric" if cell["reduced"] else "tric-unreduced"


def _topology(sysv):
    import mdtraj as md
    top = md.Topology()
    ch = top.add_chain()
    atoms = []
    el = sysv.get("elements")
    for i in range(sysv["n"]):
        r = top.add_residue("M%d" % i, ch)
        e = md.element.carbon if not el else md.element.Element.getBySymbol(el[i])
        atoms.append(top.add_atom("%s%d" % (e.symbol, i), e, r))
    for a, b in sysv["bonds"]:
        top.add_bond(atoms[a], atoms[b])
    return top


_BUILD = {}


def _build(sysv, cells, quick, seed):
    """Fresh trajectory (own Topology, own arrays) of all scattered copies; the arrays are computed once per item."""
    import mdtraj as md
    key = (sysv["name"], cells[0]["name"], cells[1]["name"], quick, seed)
    if key not in _BUILD:
        _BUILD.clear()
        sc0 = idn.scatters(sysv, full=not quick)
        P = sysv.get("placements") or [None]
        sc = np.tile(sc0, (len(P), 1, 1))
        pl = np.repeat(np.arange(len(P)), len(sc0))
        F = len(sc)
        sel = np.arange(F) % 2
        wmin = min(float(np.min(grids.cell_widths(c["vectors"]))) for c in cells)
        L = BOND_FRAC * wmin
        xyz = np.zeros((F, sysv["n"], 3))
        for k, c in enumerate(cells):
            V = c["vectors"]
            for p, place in enumerate(P):
                idx = np.where((sel == k) & (pl == p))[0]
                xyz[idx] = idn.base_positions(sysv, V, L, seed, place)[None] + sc[idx] @ V
        lengths = np.array([cells[k]["lengths"] for k in sel])
        angles = np.array([cells[k]["angles"] for k in sel])
        sc = np.concatenate([sc.reshape(F, -1), pl[:, None]], axis=1).reshape(F, -1)    # scatter row + placement id
        _BUILD[key] = (xyz.astype(np.float32), lengths, angles, sc, sel, wmin)
    xyz32, lengths, angles, sc, sel, wmin = _BUILD[key]
    t = md.Trajectory(xyz32.copy(), _topology(sysv), time=np.arange(len(sc)) * 0.5 + 3.0,
                      unitcell_lengths=lengths.copy(), unitcell_angles=angles.copy())
    return t, sc, sel, wmin


def _check_find_molecules(n, bonds, order="given"):
    """-> None or a description of how Topology.find_molecules() differs from the connected components."""
    top = _topology(dict(n=n, bonds=bonds))
    try:
        got = [frozenset(a.index for a in m) for m in top.find_molecules()]
    except ValueError as e:                      # documented: raised only when there are no bonds at all
        return None if not bonds else "raised %s" % e
    want = idn.components(n, bonds)
    if len(got) != len(set(got)) or set(got) != want:
        return "find_molecules %s, connected components %s" % (sorted(map(sorted, got)), sorted(map(sorted, want)))
    return None


def run_topologies(quick):
    """Every labelled simple bond graph on 1..5 atoms, bonds added in sorted and in reversed order."""
    recs, st = [], _empty_stats()
    seen = set()
    for n, edges in idn.all_graphs(5):
        for order, bl in (("sorted", edges), ("reversed", [(b, a) for a, b in edges[::-1]])):
            st["evals"] += 1
            st["topologies"] += 1
            if len(idn.components(n, bl)) < n and len(idn.components(n, bl)) > 0:
                seen.add((n, tuple(bl)))
            bad = _check_find_molecules(n, bl)
            if bad:
                recs.append(("find_molecules|not-the-connected-components|graph-enumeration|n=%d" % n,
                             "bonds %s (%s): %s" % (bl, order, bad),
                             dict(si=-1, ci=0, quick=quick, seed=0, api="find_molecules", n=n, bonds=bl)))
    st["nontrivial"] = len(seen)
    st["sample"] = dict(system="graph-enumeration", api="find_molecules", n=4, bonds=[(0, 3), (1, 3), (2, 3)],
                        components=[[0, 1, 2, 3]])
    return recs, st


def _empty_stats():
    return dict(evals=0, nontrivial=0, err=0.0, guess_raised=0, md_inconsistent=0, excluded_ambiguous=0,
                excluded_illcond=0, anchor_not_rigid_recorded=0, frames=0, sample=None, api_runs=0, tuples_checked=0,
                topologies=0, histories=0, histories_pruned=0, explicit_bond_calls=0, explicit_bond_identical_to_default=0,
                single_frame_calls=0, view_source_calls=0, view_sources_that_own_memory=0)


def _min_image_rows(disp, V, sel, Rs):
    """disp (F,P,3), per-frame cell chosen by sel from V (2,3,3) -> d (F,P), best (F,P,3); chunked."""
    F, P = disp.shape[:2]
    d = np.zeros((F, P))
    best = np.zeros((F, P, 3))
    for k in (0, 1):
        idx = np.where(sel == k)[0]
        R = Rs[k]
        step = max(1, 12000 // max(P, 1))
        for a in range(0, len(idx), step):
            ii = idx[a:a + step]
            dd, bb, _n = mic.min_image(disp[ii], V[k], R)
            d[ii] = dd
            best[ii] = bb
    return d, best


def _stored_vectors(c):
    import mdtraj as md
    t = md.Trajectory(np.zeros((1, 1, 3), np.float32), _topology(dict(n=1, bonds=[])), unitcell_lengths=[c["lengths"]],
                      unitcell_angles=[c["angles"]])
    return t.unitcell_vectors[0]


def _snapshot(t):
    return dict(xyz=t.xyz.copy(), ul=t.unitcell_lengths.copy(), ua=t.unitcell_angles.copy(), time=t.time.copy())


def _same(a, b):
    return a.dtype == b.dtype and a.shape == b.shape and a.tobytes() == b.tobytes()


def _tuples(n, limit=6):
    import itertools
    m = min(n, limit)
    tri = [(i, j, k) for j in range(m) for i in range(m) for k in range(i + 1, m) if i != j and k != j]
    quad = [q for q in itertools.permutations(range(m), 4) if q[0] < q[3]]
    return np.array(tri).reshape(-1, 3), np.array(quad).reshape(-1, 4)


def _full(best_u, n):
    """(F,P,3) minimum-image vectors for i<j -> (F,n,n,3) antisymmetric."""
    iu = np.triu_indices(n, 1)
    M = np.zeros((best_u.shape[0], n, n, 3))
    M[:, iu[0], iu[1]] = best_u
    M[:, iu[1], iu[0]] = -best_u
    return M



# ------------------------------------------------------------------------------------------------------------------
# History layer: ONE Topology object edited in place between re-imaging calls (stale per-topology state).

HIST_PAIRS = (("cubic3", "ortho234"), ("mono110", "mono_a75"), ("hex60", "tric_75_100_115"))


def hist_cases(quick):
    """(-2, (system, (cell index, cell index), first op, depth)): quick 3 cell pairs to depth 3; thorough every menu
    pair (i, i+1) to depth 3 and the 3 named pairs to depth 4."""
    menu = _menu(quick)
    names = [c["name"] for c in menu]
    named = [(names.index(a), names.index(b)) for a, b in HIST_PAIRS if a in names and b in names]
    items = [(pr, 3 if quick else 4) for pr in named]
    if not quick:
        ordinary = [i for i, c in enumerate(menu) if not c.get("tiny")]
        items += [((i, ordinary[(k + 1) % len(ordinary)]), 3) for k, i in enumerate(ordinary)]
    return [(-2, (hname, pr, first, depth)) for hname in idn.hist_systems() for pr, depth in items for first in idn.HIST_OPS]


def _hist_topology(m):
    import mdtraj as md
    top = md.Topology()
    ch = top.add_chain()
    residues = {}
    atoms = []
    for i, r in enumerate(m["res"]):
        if r not in residues:
            residues[r] = top.add_residue("R%d" % r, ch)
        atoms.append(top.add_atom("X%d" % i, md.element.carbon, residues[r]))
    for a, b in m["bonds"]:
        top.add_bond(atoms[a], atoms[b])
    return top


def _hist_apply(top, m, act):
    import mdtraj as md
    if act[0] == "insert":
        res = [r for r in top.residues if r.name == "R%d" % act[2]][0]
        top.insert_atom("MW", md.element.virtual, res, index=act[1])
    elif act[0] == "delete":
        top.delete_atom_by_index(act[1])
    elif act[0] == "bond":
        top.add_bond(top.atom(act[1]), top.atom(act[2]))


def _hist_image(t, m, op):
    if op == "W":
        return t.make_molecules_whole(inplace=True)
    comp = [c for c in idn.components(len(m["res"]), m["bonds"]) if m["anchor"] in c][0]
    return t.image_molecules(inplace=True, make_whole=True, anchor_molecules=[set(t.topology.atom(i) for i in sorted(comp))])


def _isolated(fn, arg):
    """Run fn(arg) in a forked child; -> (result, None) or (None, 'signal N' / 'exit N') if the child died.
    Stale index pairs handed to the C loop can corrupt the heap; the pool worker must survive that."""
    import os
    import pickle
    r, w = os.pipe()
    pid = os.fork()
    if pid == 0:
        code = 0
        try:
            os.close(r)
            with os.fdopen(w, "wb") as fh:
                pickle.dump(fn(arg), fh)
        except BaseException:  # noqa: BLE001
            import traceback
            traceback.print_exc()
            code = 17
        os._exit(code)
    os.close(w)
    with os.fdopen(r, "rb") as fh:
        data = fh.read()
    _pid, status = os.waitpid(pid, 0)
    if os.WIFSIGNALED(status):
        return None, "signal %d" % os.WTERMSIG(status)
    if os.WEXITSTATUS(status) != 0 or not data:
        return None, "exit %d" % os.WEXITSTATUS(status)
    return pickle.loads(data), None


def run_history_item(arg):
    """All op sequences starting with `first` for one system and cell pair, in a forked child (per sequence if the
    child dies) so that memory corruption by the code under test becomes a violation, not a hang."""
    if len(arg) > 4:
        return _run_history_item(arg)
    res, died = _isolated(_run_history_item, arg)
    if res is not None:
        return res
    (hname, pr, first, depth), quick, seed = arg[1], arg[2], arg[3]
    recs, st = [], _empty_stats()
    for seq in [q for q in idn.hist_sequences(depth) if q[0] == first]:
        res, died = _isolated(_run_history_item, tuple(arg[:4]) + (list(seq),))
        if res is None:
            edits = [o for o in seq if o not in ("W", "I")]
            recs.append(("history|process-died|%s|last-edit=%s" % (seq[-1], edits[-1] if edits else "none"),
                         "%s cells %s history=%s: child process ended with %s" % (hname, pr, "-".join(seq), died),
                         dict(si=-2, ci=0, quick=quick, seed=seed, api="history", hname=hname, pair=list(pr), seq=list(seq))))
            st["evals"] += 1
            continue
        recs += res[0]
        for k, v in res[1].items():
            if isinstance(v, (int, float)) and k != "err":
                st[k] = st.get(k, 0) + v
        st["err"] = max(st["err"], res[1]["err"])
        st["sample"] = res[1]["sample"]
    return recs, st


def _run_history_item(arg):
    (hname, pr, first, depth), quick, seed = arg[1], arg[2], arg[3]
    only = arg[4] if len(arg) > 4 else None
    import mdtraj as md
    menu = _menu(quick)
    cells = [menu[pr[0]], menu[pr[1]]]
    recs, st = [], _empty_stats()
    wmin = min(float(np.min(grids.cell_widths(c["vectors"]))) for c in cells)
    L = BOND_FRAC * wmin
    seqs = [q for q in idn.hist_sequences(depth) if q[0] == first]
    if only:
        seqs = [tuple(only)]
    for seq in seqs:
        m = idn.hist_clone(idn.hist_systems()[hname])
        top = _hist_topology(m)
        done = []
        pruned = False
        for op in seq:
            if op not in ("W", "I"):
                act = idn.hist_edit(m, op)
                if act is None:
                    pruned = True
                    break
                _hist_apply(top, m, act)
                done.append(op)
                continue
            n = len(m["res"])
            assert top.n_atoms == n and top.n_bonds == len(m["bonds"])
            sc = idn.hist_scatters(m)
            F = len(sc)
            sel = np.arange(F) % 2
            xyz = np.zeros((F, n, 3))
            for k, c in enumerate(cells):
                idx = np.where(sel == k)[0]
                xyz[idx] = idn.hist_positions(m, c["vectors"], L, seed)[None] + sc[idx] @ c["vectors"]
            xyz = xyz.astype(np.float32)
            lengths = np.array([cells[k]["lengths"] for k in sel])
            angles = np.array([cells[k]["angles"] for k in sel])
            t = md.Trajectory(xyz.copy(), top, unitcell_lengths=lengths, unitcell_angles=angles)       # the SAME Topology
            assert t.topology is top
            t2 = md.Trajectory(xyz.copy(), _hist_topology(m), unitcell_lengths=lengths, unitcell_angles=angles)
            edits = [o for o in done if o not in ("W", "I")]
            ctxs = "%s|%s|last-edit=%s" % (op, "re-imaging" if any(o in ("W", "I") for o in done) else "first-imaging",
                                          edits[-1] if edits else "none")
            where = "%s cells=%s/%s history=%s step %d" % (hname, cells[0]["name"], cells[1]["name"], "-".join(seq), len(done))
            rp = dict(si=-2, ci=0, quick=quick, seed=seed, api="history", hname=hname, pair=list(pr), seq=list(seq))
            try:
                _hist_image(t, m, op)
                _hist_image(t2, m, op)
            except Exception as e:  # noqa: BLE001
                recs.append(("history|raised|" + ctxs, "%s: %s: %s" % (where, type(e).__name__, e), rp))
                break
            st["evals"] += F
            st["api_runs"] += 1
            x0, x1 = xyz.astype(np.float64), t.xyz.astype(np.float64)
            Vst = np.asarray(t.unitcell_vectors, np.float64)
            delta = x1 - x0
            if op == "I":
                delta = delta - delta[:, :1]
            S = np.maximum(np.abs(x0).max((1, 2)), np.abs(x1).max((1, 2))) + np.abs(Vst).sum((1, 2))
            tol = C_TOL * grids.EPS32 * S
            coef = np.einsum("fak,fkl->fal", delta, np.linalg.inv(Vst))
            kk = np.round(coef)
            resid = np.linalg.norm(delta - np.einsum("fak,fkl->fal", kk, Vst), axis=-1).max(1)
            st["err"] = max(st["err"], float((resid / tol).max()))
            if (resid > tol).any():
                f = int(np.argmax(resid > tol))
                recs.append(("history|not-lattice-vector|" + ctxs, "%s frame %d coefficients %s" % (
                    where, f, np.round(coef[f], 3).tolist()), rp))
            if m["bonds"]:
                bi = np.array([b[0] for b in m["bonds"]])
                bj = np.array([b[1] for b in m["bonds"]])
                V2 = np.array([Vst[0], Vst[1]])
                Rs = [idn.needed_R(V2[k], cells[k]["name"]) for k in (0, 1)]
                d0, _b = _min_image_rows(x0[:, bj] - x0[:, bi], V2, sel, Rs)
                plain = np.linalg.norm(x1[:, bj] - x1[:, bi], axis=-1)
                bad = np.abs(plain - d0) > 4 * tol[:, None]
                st["err"] = max(st["err"], float((np.where(bad, 0, np.abs(plain - d0)) / (4 * tol[:, None])).max()))
                if bad.any():
                    f, b = np.argwhere(bad)[0]
                    recs.append(("history|bonded-pair-not-at-minimum-image|" + ctxs, "%s: bond %s |r_j-r_i| = %.4f, minimum-image "
                                 "distance %.4f; %d of %d frames, first %d images=%s" % (
                                     where, m["bonds"][b], plain[f, b], d0[f, b], int(bad.any(1).sum()), F, f, sc[f].tolist()), rp))
            if not _same(t.xyz, t2.xyz):
                f = int(np.argmax(np.any(t.xyz != t2.xyz, axis=(1, 2))))
                recs.append(("history|differs-from-freshly-built-topology|" + ctxs, "%s: frame %d edited-in-place topology gives %s, "
                             "the same topology built from scratch gives %s" % (where, f, t.xyz[f].tolist(), t2.xyz[f].tolist()), rp))
            if np.any(kk != 0):
                st["nontrivial"] += 1 if len(done) else 0
            done.append(op)
        st["histories"] = st.get("histories", 0) + (0 if pruned else 1)
        st["histories_pruned"] = st.get("histories_pruned", 0) + (1 if pruned else 0)
    st["sample"] = dict(system="history:" + hname, api="-".join(seqs[-1]) if seqs else "", cells=[c["name"] for c in cells])
    return recs, st


def run_item(arg):
    """Worker for one (system variant, cell pair): returns (records, stats)."""
    si, ci, quick, seed = arg[:4]
    only = arg[4] if len(arg) > 4 else None
    import mdtraj as md
    if si == -2:
        return run_history_item(arg)
    if si < 0:
        return run_topologies(quick)
    sysv = _systems(quick)[si]
    menu = _menu(quick)
    cells = _pair(ci, menu)
    n = sysv["n"]
    recs = []
    st = _empty_stats()

    t0, sc, sel, wmin = _build(sysv, cells, quick, seed)
    F = t0.n_frames
    st["frames"] = F
    snap = _snapshot(t0)
    Vst = np.asarray(t0.unitcell_vectors, np.float64)                  # stored vectors, per frame
    V2 = np.array([Vst[0], Vst[1]]) if F > 1 else np.array([Vst[0], Vst[0]])
    assert all(_same(Vst[f], Vst[f % 2]) for f in range(min(F, 6)))
    Rs = [idn.needed_R(V2[k], cells[k]["name"]) for k in (0, 1)]
    wfr = np.array([float(np.min(grids.cell_widths(c["vectors"]))) for c in cells])[sel]
    iu = np.triu_indices(n, 1)
    x0 = snap["xyz"].astype(np.float64)
    D0, B0 = _min_image_rows(x0[:, iu[1]] - x0[:, iu[0]], V2, sel, Rs)
    M0 = _full(B0, n)
    Dfull0 = np.linalg.norm(M0, axis=-1)
    tri, quad = _tuples(n)
    if sysv.get("light"):           # molecules sit half a cell apart: only intramolecular tuples have a unique image
        molid = np.full(n, -1)
        for mi, m in enumerate(sysv["mols"]):
            molid[list(m)] = mi
        tri = tri[(molid[tri] == molid[tri][:, :1]).all(1)] if len(tri) else tri
        quad = quad[(molid[quad] == molid[quad][:, :1]).all(1)] if len(quad) else quad
    bonds_sorted = sorted([tuple(sorted(b)) for b in sysv["bonds"]], key=lambda b: b[0])     # stable, like the driver
    order_class = "merge-order" if idn.merge_order(bonds_sorted) else "tree-order"
    pair_index = {(int(a), int(b)): k for k, (a, b) in enumerate(zip(*iu))}
    mol_of = {}
    for mi, m in enumerate(sysv["mols"]):
        for a in m:
            mol_of[a] = mi
    Vinv = np.linalg.inv(Vst)
    md_pairs = np.array(iu).T
    # recorded only (C09 domain); skipped for the many relabelled systems in the quick tier
    md_d0 = None if (quick and sysv.get("light")) else md.compute_distances(t0, md_pairs, periodic=True)

    def rec(api, kind, detail, frames_bad):
        f = int(np.argmax(frames_bad)) if frames_bad is not None else -1
        sig = "%s|%s|%s|sys=%s|%s" % (api, kind, order_class, sysv["name"].split("/")[0],
                                      _cellclass(cells[sel[f]]) if f >= 0 else "-")
        d = "%s %s cells=%s/%s: %s" % (api, sysv["name"], cells[0]["name"], cells[1]["name"], detail)
        if f >= 0:
            d += "; %d of %d frames, first frame %d (cell %s) images=%s" % (
                int(np.sum(frames_bad)), F, f, cells[sel[f]]["name"], sc[f][:-1].reshape(n, 3).tolist())
            if sysv.get("placements"):
                d += " placement=%s" % (sysv["placements"][int(sc[f][-1])],)
        recs.append((sig, d, dict(si=si, ci=ci, quick=quick, seed=seed, api=api, system=sysv["name"], frame=f)))

    def anchors_for(t, spec):
        if spec == "guess":
            return None
        atoms = list(t.topology.atoms)
        return [set(atoms[a] for a in sysv["mols"][mi]) for mi in spec]

    def call(api, t, inplace, sorted_bonds=None):
        """api: 'make_molecules_whole' | 'image_molecules/mw=1' | 'image_molecules/mw=0'"""
        kw = {} if sorted_bonds is None else {"sorted_bonds": sorted_bonds}
        if api == "make_molecules_whole":
            return t.make_molecules_whole(inplace=inplace, **kw)
        spec = sysv["anchors"] if sysv["anchors"] is not None else [0]
        return t.image_molecules(inplace=inplace, anchor_molecules=anchors_for(t, spec), make_whole=api.endswith("mw=1"), **kw)

    def judge(api, x1f32, light=False):
        """All per-frame oracle checks of one result (light: lattice congruence, bonded pairs, rigid units only)."""
        image = api.startswith("image")
        x1 = x1f32.astype(np.float64)
        delta = x1 - x0
        if image:
            delta = delta - delta[:, :1]
        S = np.maximum(np.abs(x0).max((1, 2)), np.abs(x1).max((1, 2))) + np.abs(Vst).sum((1, 2))
        tol = C_TOL * grids.EPS32 * S                                   # (F,)
        coef = np.einsum("fak,fkl->fal", delta, Vinv)
        k = np.round(coef)
        resid = np.linalg.norm(delta - np.einsum("fak,fkl->fal", k, Vst), axis=-1).max(1)
        st["err"] = max(st["err"], float((resid / tol).max()))
        bad = resid > tol
        if bad.any():
            f = int(np.argmax(bad))
            rec(api, "not-lattice-vector", "new-old%s is not an integer combination of the frame's cell vectors: "
                "coefficients %s" % (" minus move of atom 0" if image else "", np.round(coef[f], 4).tolist()), bad)
        moved = np.any(k != 0, axis=(1, 2))
        # all pair minimum-image distances unchanged
        if not light:
            D1, B1 = _min_image_rows(x1[:, iu[1]] - x1[:, iu[0]], V2, sel, Rs)
            e = np.abs(D1 - D0).max(1) if D0.shape[1] else np.zeros(F)
            st["err"] = max(st["err"], float((e / (4 * tol)).max()))
            if (e > 4 * tol).any():
                rec(api, "mic-distance-changed", "max |d*_new - d*_old| = %.3g" % e.max(), e > 4 * tol)
        # bonded pairs at their minimum-image separation (only promised when molecules are made whole)
        if "mw=0" not in api and sysv["bonds"]:
            bp = np.array([pair_index[tuple(sorted(b))] for b in sysv["bonds"]])
            plain = np.linalg.norm(x1[:, iu[1][bp]] - x1[:, iu[0][bp]], axis=-1)
            eb = np.abs(plain - D0[:, bp])
            okb = eb <= 4 * tol[:, None]
            st["err"] = max(st["err"], float((np.where(okb, eb, 0) / (4 * tol[:, None])).max()))
            if (~okb).any():
                f, b = np.argwhere(~okb)[0]
                rec(api, "bonded-pair-not-at-minimum-image", "bond %s (driver order %s): |r_j-r_i| = %.4f but minimum-image "
                    "distance %.4f" % (tuple(sorted(sysv["bonds"][b])), bonds_sorted, plain[f, b], D0[f, bp[b]]), (~okb).any(1))
        # rigid non-anchor molecules when not made whole
        if "mw=0" in api:
            anch = set(sysv["anchors"]) if isinstance(sysv["anchors"], list) else ({0} if sysv["anchors"] is None else None)
            if anch is None:
                g = sysv["_guessed"]
                anch = set(g) if g is not None else set()
            for mi, m in enumerate(sysv["mols"]):
                km = k[:, list(m)]
                notrigid = np.any(km != km[:, :1], axis=(1, 2))
                if notrigid.any():
                    if mi in anch:
                        rec(api, "anchor-molecule-not-moved-as-unit", "anchor molecule %s: its atoms get different lattice "
                            "shifts" % (m,), notrigid)
                    else:
                        rec(api, "non-anchor-molecule-not-moved-as-unit", "molecule %s" % (m,), notrigid)
        if light:
            return moved, tol
        # angles and dihedrals from minimum-image vectors, unique-image tuples only
        M1 = _full(B1, n)
        lim = (UNIQUE_FRAC * wfr)[:, None]
        if len(tri):
            i, j, kk = tri.T
            u0, v0 = M0[:, j, i], M0[:, j, kk]
            u1, v1 = M1[:, j, i], M1[:, j, kk]
            lu, lv = np.linalg.norm(u0, axis=-1), np.linalg.norm(v0, axis=-1)
            elig = (lu < lim) & (lv < lim) & (lu > 0) & (lv > 0)
            st["excluded_ambiguous"] += int((~elig).sum())
            with np.errstate(divide="ignore", invalid="ignore"):
                ta = 2 * tol[:, None] * (1 / lu + 1 / lv)
                ea = np.abs(idn.angle(u1, v1) - idn.angle(u0, v0))
            bad = elig & (ea > ta)
            st["tuples_checked"] += int(elig.sum())
            if elig.any():
                st["err"] = max(st["err"], float((ea[elig] / ta[elig]).max()))
            if bad.any():
                f, q = np.argwhere(bad)[0]
                rec(api, "angle-changed", "angle %s changed by %.3g rad" % (tri[q].tolist(), ea[f, q]), bad.any(1))
        if len(quad):
            a, b, c, d = quad.T
            vecs0 = (M0[:, a, b], M0[:, b, c], M0[:, c, d])
            vecs1 = (M1[:, a, b], M1[:, b, c], M1[:, c, d])
            ls = [np.linalg.norm(v, axis=-1) for v in vecs0]
            p0, n1, n2 = idn.dihedral(*vecs0)
            p1, _a, _b = idn.dihedral(*vecs1)
            ln1, ln2 = np.linalg.norm(n1, axis=-1), np.linalg.norm(n2, axis=-1)
            elig = (ls[0] < lim) & (ls[1] < lim) & (ls[2] < lim)
            L2 = (BOND_FRAC * wmin) ** 2
            well = (ln1 > 0.05 * L2) & (ln2 > 0.05 * L2)
            st["excluded_ambiguous"] += int((~elig).sum())
            st["excluded_illcond"] += int((elig & ~well).sum())
            elig &= well
            with np.errstate(divide="ignore", invalid="ignore"):
                td = 4 * tol[:, None] * ((ls[0] + ls[1]) / ln1 + (ls[1] + ls[2]) / ln2)
                ed = np.abs(np.angle(np.exp(1j * (p1 - p0))))
            bad = elig & (ed > td)
            st["tuples_checked"] += int(elig.sum())
            if elig.any():
                st["err"] = max(st["err"], float((ed[elig] / td[elig]).max()))
            if bad.any():
                f, q = np.argwhere(bad)[0]
                rec(api, "dihedral-changed", "dihedral %s changed by %.3g rad" % (quad[q].tolist(), ed[f, q]), bad.any(1))
        return moved, tol

    if not only or only == "find_molecules":
        st["evals"] += 1
        bad = _check_find_molecules(n, sysv["bonds"])
        if bad:
            rec("find_molecules", "not-the-connected-components", bad, None)
    apis = ["make_molecules_whole", "image_molecules/mw=1", "image_molecules/mw=0"]
    sysv = dict(sysv)
    sysv["_guessed"] = None
    if sysv["anchors"] == "guess":
        try:
            g = t0.topology.guess_anchor_molecules()
            sysv["_guessed"] = [mol_of[min(a.index for a in m)] for m in g]
        except ValueError:
            sysv["_guessed"] = None
    extra_guess = sysv["anchors"] is None      # single-molecule systems: also try the guessed-anchor call
    default_result = {}
    for api in apis:
        if only and api != only:
            continue
        # ---- inplace=False ----
        src, _sc, _sel, _w = _build(sysv, cells, quick, seed)
        assert _same(src.xyz, snap["xyz"])
        try:
            r = call(api, src, False)
        except Exception as e:  # noqa: BLE001
            if sysv["anchors"] == "guess" and isinstance(e, ValueError) and "anchor" in str(e):
                st["guess_raised"] += 1
                continue
            rec(api, "raised", "%s: %s" % (type(e).__name__, e), None)
            continue
        st["api_runs"] += 1
        if r is src:
            rec(api, "inplace=False-returned-self", "result is the source object", None)
        for name, arr, ref in (("xyz", src.xyz, snap["xyz"]), ("unitcell_lengths", src.unitcell_lengths, snap["ul"]),
                               ("unitcell_angles", src.unitcell_angles, snap["ua"]), ("time", src.time, snap["time"])):
            if not _same(arr, ref):
                rec(api, "inplace=False-modified-source", "source %s changed" % name, None)
        for name, a, b in (("xyz", r.xyz, src.xyz), ("unitcell_lengths", r.unitcell_lengths, src.unitcell_lengths),
                           ("unitcell_angles", r.unitcell_angles, src.unitcell_angles), ("time", r.time, src.time)):
            if r is not src and np.shares_memory(a, b):
                rec(api, "inplace=False-result-shares-memory", "%s of result and source overlap" % name, None)
        for name, arr, ref in (("unitcell_lengths", r.unitcell_lengths, snap["ul"]),
                               ("unitcell_angles", r.unitcell_angles, snap["ua"]), ("time", r.time, snap["time"])):
            if not _same(arr, ref):
                rec(api, "cell-or-time-modified", "result %s differs from input" % name, None)
        if r.xyz.shape != snap["xyz"].shape or r.xyz.dtype != np.float32:
            rec(api, "shape-or-dtype-changed", "%s %s" % (r.xyz.shape, r.xyz.dtype), None)
            continue
        rx = r.xyz.copy()
        default_result[api] = rx
        moved, tol = judge(api, rx)
        st["evals"] += F
        nt = int(len(np.unique(sc[moved].reshape(int(moved.sum()), -1), axis=0))) if moved.any() else 0
        st["nontrivial"] += nt
        # recorded only: md.compute_distances(periodic=True) before/after
        if md_d0 is not None:
            md_d1 = md.compute_distances(r, md_pairs, periodic=True)
            inc = np.abs(md_d1.astype(np.float64) - md_d0) > 4 * tol[:, None]
            st["md_inconsistent"] += int(inc.sum())
        if st["sample"] is None and moved.any():
            f = int(np.argmax(moved))
            st["sample"] = dict(system=sysv["name"], api=api, cell=cells[sel[f]]["name"], images_per_atom=sc[f][:-1].reshape(n, 3).tolist(),
                                old_xyz=snap["xyz"][f].tolist(), new_xyz=rx[f].tolist())
        # ---- inplace=True ----
        src2, _sc, _sel, _w = _build(sysv, cells, quick, seed)
        r2 = call(api, src2, True)
        st["evals"] += F
        if r2 is not src2:
            rec(api + "/inplace", "inplace=True-did-not-return-self", "returned another object", None)
        if not _same(src2.xyz, rx):
            rec(api + "/inplace", "inplace-result-differs-from-copy-result", "coordinates differ bitwise from the "
                "inplace=False result", np.any(src2.xyz != rx, axis=(1, 2)))
            judge(api + "/inplace", src2.xyz.copy())
        for name, arr, ref in (("unitcell_lengths", src2.unitcell_lengths, snap["ul"]),
                               ("unitcell_angles", src2.unitcell_angles, snap["ua"]), ("time", src2.time, snap["time"])):
            if not _same(arr, ref):
                rec(api + "/inplace", "cell-or-time-modified", "%s differs from input" % name, None)
        # ---- guessed anchors on a single-molecule system: heuristic raises, counted ----
        if extra_guess and api.startswith("image"):
            src3, _sc, _sel, _w = _build(sysv, cells, quick, seed)
            try:
                r3 = src3.image_molecules(inplace=False, make_whole=api.endswith("mw=1"))
                if not _same(r3.xyz, rx):
                    judge(api + "/guessed", r3.xyz.copy())
                st["evals"] += F
            except ValueError:
                st["guess_raised"] += 1

    # ---- explicit sorted_bonds= argument: a correct placement order supplied by the caller ----
    if sysv["bonds"]:
        roots = ("high",) if quick else ("high", "low")
        for api in ("make_molecules_whole", "image_molecules/mw=1"):
            if (only and api != only) or api not in default_result:
                continue
            for root in roots:
                sb = idn.walk_order(n, sysv["bonds"], root)
                sb0 = sb.copy()
                tag = "%s/sorted_bonds=walk-from-%s" % (api, root)
                src, _sc, _sel, _w = _build(sysv, cells, quick, seed)
                try:
                    r = call(api, src, False, sorted_bonds=sb)
                except Exception as e:  # noqa: BLE001
                    rec(tag, "raised", "%s: %s" % (type(e).__name__, e), None)
                    continue
                st["evals"] += F
                st["explicit_bond_calls"] += 1
                if not _same(sb, sb0):
                    rec(tag, "sorted_bonds-argument-modified", "%s -> %s" % (sb0.tolist(), sb.tolist()), None)
                if not _same(src.xyz, snap["xyz"]):
                    rec(tag, "inplace=False-modified-source", "source xyz changed", None)
                if _same(r.xyz, default_result[api]):
                    st["explicit_bond_identical_to_default"] += 1
                else:
                    judge(tag, r.xyz.copy(), light=True)

    # ---- inplace=False on source trajectories whose coordinate array does NOT own its memory (first cell pair only) ----
    if (ci == 0 and not only) or only == "view-source":
        m = min(F, 48)
        mid = m // 2

        def make_source(kind):
            if kind == "view-of-buffer":
                big = np.full((m + 4, n, 3), 7.0, np.float32)
                big[2:m + 2] = snap["xyz"][:m]
                t = md.Trajectory(big[2:m + 2], _topology(sysv), time=snap["time"][:m].copy(),
                                  unitcell_lengths=snap["ul"][:m].copy(), unitcell_angles=snap["ua"][:m].copy())
                return t, big, slice(0, m), slice(2, m + 2)
            full, _sc, _sel, _w = _build(sysv, cells, quick, seed)
            if kind == "slice-copy=False":
                return full.slice(slice(0, m), copy=False), full.xyz, slice(0, m), slice(0, m)
            return full[mid], full.xyz, slice(mid, mid + 1), slice(mid, mid + 1)          # single frame t[i]

        for kind in ("view-of-buffer", "slice-copy=False", "single-frame-t[i]"):
            for api in apis:
                if api not in default_result:
                    continue
                tag = "%s/source=%s" % (api, kind)
                src, parent, fr, pfr = make_source(kind)
                if src.xyz.base is None:
                    st["view_sources_that_own_memory"] += 1        # mdtraj copied on construction: recorded
                parent0 = parent.copy()
                before = _snapshot(src)
                try:
                    r = call(api, src, False)
                except Exception as e:  # noqa: BLE001
                    rec(tag, "raised", "%s: %s" % (type(e).__name__, e), None)
                    continue
                st["evals"] += fr.stop - fr.start
                st["view_source_calls"] += 1
                for name, arr, ref in (("xyz", src.xyz, before["xyz"]), ("unitcell_lengths", src.unitcell_lengths, before["ul"]),
                                       ("unitcell_angles", src.unitcell_angles, before["ua"]), ("time", src.time, before["time"])):
                    if not _same(arr, ref):
                        rec(tag, "inplace=False-modified-source", "source %s changed (source xyz is a view: base %s)" % (
                            name, type(src.xyz.base).__name__), None)
                if not _same(parent, parent0):
                    rec(tag, "inplace=False-modified-parent-buffer", "the array the source coordinates are a view of changed", None)
                if r is src:
                    rec(tag, "inplace=False-returned-self", "result is the source object", None)
                for name, a_, b_ in (("xyz", r.xyz, src.xyz), ("xyz/parent", r.xyz, parent),
                                     ("unitcell_lengths", r.unitcell_lengths, src.unitcell_lengths),
                                     ("unitcell_angles", r.unitcell_angles, src.unitcell_angles), ("time", r.time, src.time)):
                    if np.shares_memory(a_, b_):
                        rec(tag, "inplace=False-result-shares-memory", "%s of result and source overlap" % name, None)
                for name, arr, ref in (("unitcell_lengths", r.unitcell_lengths, before["ul"]),
                                       ("unitcell_angles", r.unitcell_angles, before["ua"]), ("time", r.time, before["time"])):
                    if not _same(arr, ref):
                        rec(tag, "cell-or-time-modified", "result %s differs from input" % name, None)
                if not _same(r.xyz, default_result[api][fr]):
                    bad = np.zeros(F, bool)
                    bad[fr] = np.any(r.xyz != default_result[api][fr], axis=(1, 2)) if r.xyz.shape == default_result[api][fr].shape else True
                    rec(tag, "result-differs-from-owning-source", "same frames re-imaged from an owning trajectory give other "
                        "coordinates", bad)

    # ---- tiny cells: every frame alone (a 1-frame trajectory) must give what it gives inside the big trajectory ----
    if cells[0].get("tiny") and not only or only == "single-frame":
        fsel = np.arange(F) if F <= 800 else np.where(np.all(sc[:, :3] == 0, axis=1))[0]
        top1 = _topology(sysv)
        for api in apis:
            if api not in default_result or (quick and api.endswith("mw=0")):
                continue
            got = np.zeros((len(fsel), n, 3), np.float32)
            for q, f in enumerate(fsel):
                t1 = md.Trajectory(snap["xyz"][f:f + 1].copy(), top1, time=snap["time"][f:f + 1].copy(),
                                   unitcell_lengths=snap["ul"][f:f + 1].copy(), unitcell_angles=snap["ua"][f:f + 1].copy())
                got[q] = call(api, t1, False).xyz[0]
            st["evals"] += len(fsel)
            st["single_frame_calls"] += len(fsel)
            ref = default_result[api][fsel]
            if not _same(got, ref):
                diff = np.zeros(F, bool)
                diff[fsel] = np.any(got != ref, axis=(1, 2))
                rec(api + "/single-frame", "frame-result-depends-on-other-frames", "the frame alone and the frame inside "
                    "the %d-frame trajectory give different coordinates" % F, diff)
                full = default_result[api].copy()
                full[fsel] = got
                judge(api + "/single-frame", full, light=True)
    return recs, st


def run(ctx):
    quick = ctx.quick
    cs = cases(quick)
    systems = _systems(quick)
    cost = lambda c: -(10 ** 6 if c[0] == -1 else 10 ** 5 if c[0] == -2 else 27 ** systems[c[0]]["n"] if systems[c[0]]["small"] and not quick
                       else systems[c[0]]["n"])
    order = sorted(range(len(cs)), key=lambda i: cost(cs[i]))
    idn.measure_radii(ctx, _menu(quick), _stored_vectors)      # search radius each cell needs, before forking
    res_o = ctx.pmap(run_item, [cs[i] + (quick, ctx.seed) for i in order], chunksize=1)
    res = [None] * len(cs)
    for i, r in zip(order, res_o):
        res[i] = r
    tot = dict(evals=0, nontrivial=0, guess_raised=0, md_inconsistent=0, excluded_ambiguous=0, excluded_illcond=0,
               anchor_not_rigid_recorded=0, frames=0, api_runs=0, tuples_checked=0, topologies=0, histories=0,
               histories_pruned=0, explicit_bond_calls=0, explicit_bond_identical_to_default=0, single_frame_calls=0,
               view_source_calls=0, view_sources_that_own_memory=0)
    err = 0.0
    samples = []
    keys = set()
    for c, (recs, st) in zip(cs, res):
        ctx.report(recs)
        assert c not in keys
        keys.add(c)
        for k in tot:
            tot[k] += st[k]
        err = max(err, st["err"])
        if st["sample"] and len(samples) < 4 and all(s["system"].split("/")[0] != st["sample"]["system"].split("/")[0] for s in samples):
            samples.append(st["sample"])
    menu = _menu(quick)
    ctx.assume("float64 brute-force minimum image over +-R images around the rounded displacement is the true minimum; R per "
               "cell is the smallest radius reproducing R=4 on a 17^3 grid of the fractional residual cube (measured: %s)"
               % sorted(idn._RC.items()))
    ctx.assume("cells are in mdtraj's standard orientation (a along x, b in the xy-plane)")
    cov = {
        "evaluations": tot["evals"],
        "distinct_nontrivial": tot["nontrivial"],
        "rule": "one evaluation = one output frame of one API call judged; work items (system variant, cell pair) are "
                "distinct by construction (asserted); within an item and API the distinct scatter assignments whose output "
                "moved at least one atom by a non-zero lattice vector (relative to atom 0 for image_molecules) are counted "
                "with np.unique and summed",
        "samples": samples,
        "exhaustive": True,
        "work_items": len(cs),
        "trajectory_frames": tot["frames"],
        "api_calls_judged": tot["api_runs"],
        "bond_graphs_enumerated_for_find_molecules": tot["topologies"],
        "explicit_sorted_bonds_calls_judged": tot["explicit_bond_calls"],
        "explicit_sorted_bonds_results_bit_identical_to_default": tot["explicit_bond_identical_to_default"],
        "single_frame_trajectory_calls_in_tiny_cells": tot["single_frame_calls"],
        "inplace_false_calls_on_view_sources": tot["view_source_calls"],
        "view_sources_whose_xyz_owns_memory_after_construction": tot["view_sources_that_own_memory"],
        "edit_histories_executed": tot["histories"],
        "edit_histories_pruned_edit_not_applicable": tot["histories_pruned"],
        "angle_dihedral_tuples_checked": tot["tuples_checked"],
        "tuples_excluded_image_not_unique": tot["excluded_ambiguous"],
        "dihedrals_excluded_ill_conditioned": tot["excluded_illcond"],
        "guess_anchor_molecules_raised_not_judged": tot["guess_raised"],
        "md_compute_distances_before_after_inconsistent_recorded": tot["md_inconsistent"],
        "max_err_over_tol": err,
        "tolerance": "%d*eps32*(max|coordinate before/after| + sum|cell vector components|); x4 for distances, scaled by "
                     "1/length for angles" % C_TOL,
        "axes": {"systems": sorted({s["name"].split("/")[0] for s in systems}), "system_variants": len(systems),
                 "cells": [c["name"] for c in menu], "apis": ["make_molecules_whole", "image_molecules/mw=1", "image_molecules/mw=0"],
                 "inplace": [False, True], "scatter": "27^n complete" if not quick else "27^2 complete; 3 atoms: atom 0 fixed x 27^2 for the others",
                 "bond_length_fraction_of_min_width": BOND_FRAC},
    }
    return "exploration", cov


def replay(ctx, rep):
    if rep["si"] == -2:
        arg = (-2, (rep["hname"], tuple(rep["pair"]), rep["seq"][0], len(rep["seq"])), rep["quick"], rep["seed"], rep["seq"])
        ra, da = _isolated(_run_history_item, arg)
        rb, db = _isolated(_run_history_item, arg)
        if ra is None or rb is None:
            print("replay: child process died:", da, db)
            return False
        a, b = ra[0], rb[0]
        assert sorted(r[:2] for r in a) == sorted(r[:2] for r in b), "replay is not deterministic"
        for r in a[:5]:
            print("replay:", r[0], "::", r[1][:500])
        return not a
    if rep["si"] < 0:
        bad = [_check_find_molecules(rep["n"], [tuple(b) for b in rep["bonds"]]) for _ in (0, 1)]
        assert bad[0] == bad[1], "replay is not deterministic"
        print("replay: find_molecules ::", bad[0])
        return bad[0] is None
    arg = (rep["si"], rep["ci"], rep["quick"], rep["seed"], rep["api"].split("/inplace")[0].split("/guessed")[0])
    a, _ = run_item(arg)
    b, _ = run_item(arg)
    assert sorted(r[:2] for r in a) == sorted(r[:2] for r in b), "replay is not deterministic"
    for r in a[:5]:
        print("replay:", r[0], "::", r[1][:500])
    return not a
