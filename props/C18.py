"""C18 — an open trajectory file behaves as a cursor over its frames.

Alphabet (only in-range operations): read(n) 1<=n<=remaining, read() to end, seek(k) 0<=k<N,
seek(d, 1) landing in [0, N), tell(), len().  Reference model: one integer.
Searches: (1) every op sequence to a depth without any state merging, on one handle;
(2) the same on two interleaved handles of the same file; (3) BFS closure over model states
(position, history-derived hidden flags) to any depth.
"""
import os

import numpy as np

MANIFEST = {
    "category": "model_checking",
    "engine": "histx",
    "technique": "explicit-state exploration of cursor-operation histories on the real file objects against an "
                 "integer cursor model",
    "text": "Every in-range sequence over {read(n), read(), seek(k), seek(d,1), tell, len} to depth 3 (thorough 4) on one "
            "handle and depth 2 (3) interleaved over two handles, without state merging, plus a BFS closure over the model "
            "states (position, offsets-known, end-reached, last op) at any depth, for 17 format fixtures (incl. a TRR above 1 MiB, a DCD without unit cell, a TRR with forces and no velocities, a DTR stack of two time-overlapping frame sets, a DCD whose header frame count disagrees with the file, and a 10-atom mdcrd) with and without "
            "atom_indices; every step is executed on the real object and compared with the model and with the frames of a "
            "full read. Right level: the property is a statement about all histories of a tiny state machine.",
    "note": "Bounded: N=5 frames, 4 (xtc: 4 and 12) atoms; out-of-range operations are not issued; the full read is the "
            "data oracle (anchored by C01/C02); .pyx logic is exercised as compiled from the generated C in the tree.",
    "ref": "DESIGN.md §3 C18, §2.2",
}

from vlib import explore

N = 5
FORMATS = ["h5", "xtc", "xtc12", "trr", "trrbig", "trrforces", "dcd", "dcdhdr", "dcdnocell", "nc", "mdcrd", "mdcrd10", "xyz", "lammpstrj", "dtr", "stk", "arc"]
# stk: two DTR frame sets overlapping in time (a restart from a checkpoint): times 1,3,5 and 5,7,9 -- the stack keeps
# 1,3 of the first and all of the second, the dropped frame of the first set carries other coordinates.
# dcdhdr: a DCD whose header frame count (3) disagrees with the file (5 frames) -- an interrupted / appended run;
# mdtraj documents that it then goes by the file size.  mdcrd10: 10 atoms = exactly three full 10-field lines per frame.
NATOMS = {"xtc12": 12, "mdcrd10": 10, "trrbig": 20000}     # trrbig: a file above 1 MiB (buffering strategies change with size)
EXT = {"xtc12": "xtc", "mdcrd10": "mdcrd", "dcdhdr": "dcd", "dcdnocell": "dcd", "trrforces": "trr", "trrbig": "trr"}
# dcdnocell: a DCD written without unit cell (no extra block per frame); trrforces: a TRR whose frames carry forces but no
# velocities (GROMACS nstfout > 0, nstvout = 0) -- frame skipping must agree with frame reading for these layouts too
NO_LEN = {"mdcrd", "mdcrd10", "lammpstrj", "arc"}   # __len__ raises NotImplementedError: "len, where offered"
NO_SEEK = {"arc"}          # seek/tell/len raise NotImplementedError: not a seekable format; read ops only
_FIX = {}
SKIPPED = set()


def _traj(n_atoms, seed):
    import mdtraj as md
    rng = np.random.RandomState(1234 + seed)
    top = md.Topology()
    ch = top.add_chain()
    for i in range(n_atoms):
        r = top.add_residue("ALA", ch)
        top.add_atom("CA", md.element.carbon, r)
    xyz = (rng.rand(N, n_atoms, 3) * 2 + np.arange(N)[:, None, None]).astype(np.float32)
    t = md.Trajectory(xyz, top, time=np.arange(N) * 2.0 + 1.0,
                      unitcell_lengths=np.full((N, 3), 9.0) + np.arange(N)[:, None] * 0.1,
                      unitcell_angles=np.full((N, 3), 90.0))
    return t


def make_fixtures(ctx):
    d = ctx.scratch
    fx = {}
    for fmt in FORMATS:
        if fmt == "arc":
            # read-only format: N copies of the repository's one-frame test file, x shifted per frame
            lines = open(os.path.join(ctx.repo, "tests/data/4waters.arc")).read().splitlines()
            p = os.path.join(d, "c18.arc")
            with open(p, "w") as fh:
                for k in range(N):
                    fh.write(lines[0] + "\n")
                    for ln in lines[1:]:
                        w = ln.split()
                        w[2] = "%.10f" % (float(w[2]) + k)
                        fh.write("%6s  %-3s%16s%16s%16s" % tuple(w[:5]) + "".join("%6s" % x for x in w[5:]) + "\n")
            fx[fmt] = p
            continue
        if fmt == "stk":
            t = _traj(4, ctx.seed)
            a = t[0:3]
            a.xyz[2] += 50.0                     # the frame at time 5 that the stack must drop in favour of the second set's
            pa, pb, p = os.path.join(d, "c18_seta.dtr"), os.path.join(d, "c18_setb.dtr"), os.path.join(d, "c18_stack.stk")
            a.save(pa)
            t[2:5].save(pb)
            with open(p, "w") as fh:
                fh.write(pa + "\n" + pb + "\n")
            fx[fmt] = p
            fx["_stk_parts"] = (pa, pb)
            continue
        natoms = NATOMS.get(fmt, 4)
        p = os.path.join(d, "c18_%s.%s" % (fmt, EXT.get(fmt, fmt)))
        if fmt == "dcdnocell":
            t = _traj(natoms, ctx.seed)
            t.unitcell_vectors = None
            t.save(p)
            fx[fmt] = p
            continue
        if fmt == "trrforces":
            import mdtraj as md
            t = _traj(natoms, ctx.seed)
            try:
                with md.open(p, "w") as fh:
                    fh._write(np.ascontiguousarray(t.xyz), np.asarray(t.time, np.float32), np.arange(N, dtype=np.int32),
                              np.ascontiguousarray(t.unitcell_vectors), np.zeros(N, np.float32),
                              forces=np.ascontiguousarray(t.xyz[::-1] * 3.0))
                fx[fmt] = p
            except Exception as e:  # noqa  (the low-level writer is not public API: without it this fixture is skipped)
                print("WARNING C18: TRR fixture with forces could not be written (%s: %s); fixture skipped" % (type(e).__name__, str(e)[:80]))
                ctx.assume("trrforces fixture skipped: TRRTrajectoryFile._write(forces=) not usable")
                SKIPPED.add(fmt)
            continue
        _traj(natoms, ctx.seed).save(p)
        if fmt == "dcdhdr":
            with open(p, "r+b") as fh:
                raw = fh.read(12)
                assert raw[:8] == b"\x54\x00\x00\x00CORD" and int.from_bytes(raw[8:12], "little") == N, raw
                fh.seek(8)
                fh.write((3).to_bytes(4, "little"))
        fx[fmt] = p
    return fx


def _norm(ret):
    """read() result -> list of arrays/None."""
    if isinstance(ret, np.ndarray):
        return [ret]
    return [None if x is None else np.asarray(x) for x in tuple(ret)]


def _open(p):
    import mdtraj as md
    if p.endswith(".mdcrd"):
        return md.open(p, "r", n_atoms=10 if "mdcrd10" in p else 4)
    if p.endswith(".stk"):
        from mdtraj.formats import DTRTrajectoryFile      # md.open has no .stk entry; the DTR class reads stacks
        return DTRTrajectoryFile(p)
    if "dcdhdr" in p:
        # the plugin printf()s "header claims 3 frames, file size indicates 5" on every open: keep it off the check output
        import ctypes
        import sys
        libc = ctypes.CDLL(None)
        sys.stdout.flush()
        libc.fflush(None)
        keep = os.dup(1)
        null = os.open(os.devnull, os.O_WRONLY)
        try:
            os.dup2(null, 1)
            return md.open(p, "r")
        finally:
            libc.fflush(None)
            os.dup2(keep, 1)
            os.close(keep)
            os.close(null)
    return md.open(p, "r")


class Real:
    def __init__(self, paths, nh, ai):
        import mdtraj as md
        self.h = [_open(paths) for _ in range(nh)]
        self.ai = ai

    def apply(self, op):
        h = self.h[op[0]]
        k = op[1]
        if k == "read":
            return _norm(h.read(op[2], atom_indices=self.ai))
        if k == "readall":
            return _norm(h.read(atom_indices=self.ai))
        if k == "read_over":
            return _norm(h.read(op[2], atom_indices=self.ai))
        if k == "seek":
            h.seek(op[2])
            return None
        if k == "seekrel":
            h.seek(op[2], 1)
            return None
        if k == "tell":
            return int(h.tell())
        if k == "len":
            return int(len(h))
        raise ValueError(op)

    def close(self):
        for h in self.h:
            h.close()


class Model:
    def __init__(self, n, nh, seekable, full, has_len=True, lastop=True):
        self.n = n
        self.has_len = has_len
        self.lastop = lastop
        self.p = [0] * nh
        self.flags = [(False, False, None)] * nh  # (offsets-known: seek/len happened, reached-end, last op kind)
        self.seekable = seekable
        self.full = full

    def enabled(self):
        ops = []
        for h, p in enumerate(self.p):
            for n in range(1, self.n - p + 1):
                ops.append((h, "read", n))
            if p < self.n:
                ops.append((h, "readall"))
                ops.append((h, "read_over", self.n - p + 2))      # read(n) asking for 2 more than remain: "reading the remainder"
            if self.seekable:
                ops.append((h, "tell"))
                if self.has_len:
                    ops.append((h, "len"))
                for k in range(self.n):
                    ops.append((h, "seek", k))
                for d in (-2, -1, 1, 2):
                    if 0 <= p + d < self.n:
                        ops.append((h, "seekrel", d))
        return ops

    def apply(self, op):
        h, k = op[0], op[1]
        p = self.p[h]
        off, end, _last = self.flags[h]
        exp = None
        if k == "read":
            exp = ("frames", p, p + op[2])
            self.p[h] = p + op[2]
        elif k in ("readall", "read_over"):
            exp = ("frames", p, self.n)
            self.p[h] = self.n
        elif k == "seek":
            self.p[h] = op[2]
            off = True
        elif k == "seekrel":
            self.p[h] = p + op[2]
            off = True
        elif k == "tell":
            exp = ("int", p)
        elif k == "len":
            exp = ("int", self.n)
            off = True
        if self.p[h] == self.n:
            end = True
        self.flags[h] = (off, end, k if self.lastop else None)
        return exp

    def key(self):
        return (tuple(self.p), tuple(self.flags))


class Spec:
    """Picklable spec: (format, handles, atom_indices) -> initial state name 'fmt/nh/ai'."""

    def __init__(self, fixtures, fulls, inits):
        self.fx = fixtures
        self.fulls = fulls
        self.inits = inits

    def initials(self):
        return self.inits

    def _parse(self, init):
        fmt, nh, ai = init.split("/")
        return fmt, int(nh), (None if ai == "all" else [0, 2])

    def model(self, init):
        fmt, nh, ai = self._parse(init)
        full = self.fulls[(fmt, ai is not None)]
        return Model(full[0].shape[0], nh, fmt not in NO_SEEK, full, fmt not in NO_LEN, nh == 1)

    def real(self, init):
        fmt, nh, ai = self._parse(init)
        return Real(self.fx[fmt], nh, ai)

    def compare(self, op, exp, got):
        if isinstance(got, tuple) and got and got[0] == "EXC":
            return "raised %s: %s" % (got[1], got[2])
        if exp is None:
            return None
        if exp[0] == "int":
            if got != exp[1]:
                return "%s returned %r, cursor model says %r" % (op[1], got, exp[1])
            return None
        _f, a, b = exp
        full = self._cur_full
        if len(got) != len(full):
            return "read returned %d fields, full read %d" % (len(got), len(full))
        for i, (g, f) in enumerate(zip(got, full)):
            if f is None or g is None:
                if not (f is None and g is None):
                    return "field %d None-ness differs" % i
                continue
            e = f[a:b]
            if g.shape != e.shape:
                return "field %d: read returned shape %s, frames [%d,%d) have shape %s" % (i, g.shape, a, b, e.shape)
            if not np.array_equal(g, e, equal_nan=True):
                return "field %d: read returned other data than frames [%d,%d)" % (i, a, b)
        return None

    def summ(self, got):
        if isinstance(got, list):
            return [None if g is None else (g.shape, float(np.nansum(g))) for g in got]
        return got

    def sig(self, init, hist, i, mis):
        fmt, nh, ai = self._parse(init)
        op = hist[i] if i < len(hist) else ("?", "horizon")
        mine = [o for o in hist[:i] if o[0] == op[0]]
        last_abs = max([j for j, o in enumerate(mine) if o[1] == "seek"], default=-1)
        prev = "readall-since-last-absolute-seek" if any(o[1] in ("readall", "read_over") for o in mine[last_abs + 1:]) \
            else "no-readall-since-last-absolute-seek"
        kind = "wrong-data" if "data" in str(mis) or "shape" in str(mis) else \
            ("raised" if str(mis).startswith("raised") else ("horizon" if mis == "horizon" else "wrong-value"))
        return "%s|%s|%s|%s" % (fmt, op[1], kind, prev)


# compare() needs the full read of the right init; run_history calls model(init) first, so stash it there.
_orig_model = Spec.model


def _model(self, init):
    m = _orig_model(self, init)
    self._cur_full = m.full
    return m


Spec.model = _model


def _fulls(fx, ctx=None):
    """Full read of every fixture (the data oracle).  A fixture whose plain read-to-end fails is itself a violation (a
    well-formed file must be readable from position 0) and is left out of the exploration."""
    import mdtraj as md
    out = {}
    for fmt, p in list(fx.items()):
        if fmt.startswith("_"):
            continue
        for ai in (None, [0, 2]):
            try:
                with _open(p) as f:
                    out[(fmt, ai is not None)] = _norm(f.read(atom_indices=ai))
            except Exception as e:  # noqa
                if ctx is None:
                    raise
                ctx.violation("%s|readall|raised|full-read" % fmt, "open; read() on the fixture raised %s: %s" % (type(e).__name__, str(e)[:120]),
                              {"init": "%s/1/%s" % (fmt, "all" if ai is None else "sub"), "history": [[0, "readall"]]})
                fx.pop(fmt, None)
                out.pop((fmt, False), None)
                break
    return out


def run(ctx):
    fx = make_fixtures(ctx)
    fulls = _fulls(fx, ctx)
    for (fmt, ai), full in fulls.items():
        n = full[0].shape[0]
        assert n >= 2, (fmt, n)
    # the stack's full read is anchored to its parts (plain DTR reads are anchored by C01/C02): frames 0,1 of the first
    # set, then the whole second set
    try:
        with _open(fx["_stk_parts"][0]) as fa, _open(fx["_stk_parts"][1]) as fb:
            ra, rb = _norm(fa.read()), _norm(fb.read())
        for i, (g, xa, xb) in enumerate(zip(fulls[("stk", False)], ra, rb)):
            if g is None or xa is None:
                continue
            want = np.concatenate([xa[:2], xb])
            if g.shape != want.shape or not np.array_equal(g, want, equal_nan=True):
                ctx.violation("stk|readall|wrong-data|vs-frame-sets", "field %d of a full read of the stack is not frames 0,1 of the "
                              "first set followed by the second set" % i, {"init": "stk/1/all", "history": [[0, "readall"]]})
    except Exception as e:  # noqa
        ctx.violation("stk|readall|raised|vs-frame-sets", "reading the stack or its parts raised %s: %s" % (type(e).__name__, str(e)[:120]),
                      {"init": "stk/1/all", "history": [[0, "readall"]]})
    quick = ctx.quick
    d1 = 3 if quick else 4
    d2 = 2 if quick else 3
    fmts = [f for f in FORMATS if f in fx]
    one = ["%s/1/%s" % (f, a) for f in fmts for a in ("all", "sub")]
    two = ["%s/2/all" % f for f in fmts if f not in NO_SEEK]
    s1 = explore.all_histories(ctx, Spec(fx, fulls, one), d1)
    s2 = explore.all_histories(ctx, Spec(fx, fulls, two), d2)
    b1 = explore.bfs_closure(ctx, Spec(fx, fulls, one if quick else one + two), max_depth=None)
    cov = {
        "states": b1["states"],
        "transitions": b1["transitions"],
        "traces_validated_against_impl": s1["histories"] + s2["histories"] + b1["transitions"],
        "samples": s1["samples"][:2] + s2["samples"][:1] + b1["samples"][:1],
        "exhaustive": True,
        "bfs_max_depth": b1["max_depth"], "bfs_depth_capped": b1["depth_capped"],
        "unmerged_one_handle": {k: s1[k] for k in ("histories", "steps", "distinct_outcomes", "depth")},
        "unmerged_two_handles": {k: s2[k] for k in ("histories", "steps", "distinct_outcomes", "depth")},
        "formats": FORMATS, "n_frames": N,
        "rule": "every in-range op sequence of the alphabet to the stated depth (no merging) on 1 and 2 handles, "
                "plus BFS closure over (position, offsets-known, end-reached, last-op) per handle; each step "
                "compared with the integer cursor model and the frames of a full read",
    }
    return "model_checking", cov


def replay(ctx, rep):
    fx = make_fixtures(ctx)
    fulls = _fulls(fx)
    spec = Spec(fx, fulls, [rep["init"]])
    hist = [tuple(o) for o in rep["history"]]
    a, _ = explore.run_history(spec, rep["init"], hist)
    b, _ = explore.run_history(spec, rep["init"], hist)
    print("replay 1:", a and a[1])
    print("replay 2:", b and b[1])
    assert (a is None) == (b is None), "replay is not deterministic"
    return a is None
