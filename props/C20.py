"""C20 — existing files are never modified unless overwriting was requested.

Complete product: extension x pre-existing content x {1, 3} frames x entry point {Trajectory.save,
md.open(mode='w') + write} x force_overwrite, each executed for real in a private directory; plus every read
entry point on every readable format for the read-only clause.  Oracle: sha256/size of every pre-existing
path before/after; with force_overwrite=True the result must equal what the same call produces in an empty
directory (same size, same loaded content: nothing of the old file remains).
"""
import hashlib
import itertools
import os
import shutil

import numpy as np

MANIFEST = {
    "category": "exploration",
    "engine": "cfgx",
    "technique": "exhaustive enumeration of (extension x pre-existing content x frames x entry point x force_overwrite) "
                 "with before/after hashing of every pre-existing path",
    "text": "Every extension of Trajectory._savers() that can be written here (18) and of md.open(mode='w') x pre-existing "
            "content {valid file of the format, longer valid file, 1 KiB unrelated bytes; for dtr a directory} x {1,3} "
            "frames (restart formats: every non-empty subset of the numbered files pre-existing, and the base name pre-existing) x "
            "{save, open+write} x force_overwrite {False, True} is executed. False must raise and leave every pre-existing "
            "path byte-identical; True must leave exactly what the same call writes into an empty directory (size and "
            "loaded content; bytes where no timestamp is embedded). Bystander layer: a write to a NEW name (held in a variable / a temporary of the call expression / with allocations between open and write) must leave the working directory, the target directory and a sibling directory untouched; the same relative name written from two working directories in one process must not touch the first directory's file. Read-only clause: load, load_frame, iterload, "
            "md.open('r')+read/seek/tell/len, load_topology on every readable format incl. the repository's topology "
            "files leave sha256 unchanged. Exhaustive over the listed axes.",
    "note": "New sibling files created before a refusal (e.g. name.1 written before name.2 clashes) are recorded, not "
            "judged: the property protects what already exists. .lh5 (writer unusable with the installed PyTables) and "
            ".gsd (package absent) are not exercised. Crash-time atomicity is C19's topic.",
    "ref": "DESIGN.md §3 C20, §2.3",
}

SAVE_EXTS = ["xtc", "trr", "pdb", "pdb.gz", "dcd", "h5", "nc", "netcdf", "ncdf", "ncrst", "crd", "mdcrd", "lammpstrj",
             "xyz", "xyz.gz", "gro", "rst7", "dtr"]
WRITER_FMT = {"netcdf": "nc", "ncdf": "nc", "crd": "mdcrd", "pdb.gz": "pdb", "xyz.gz": "xyz"}
RESTART = {"rst7", "ncrst"}
NEEDS_TOP = {"xtc", "trr", "dcd", "nc", "netcdf", "ncdf", "ncrst", "crd", "mdcrd", "lammpstrj", "xyz", "xyz.gz", "rst7",
             "dtr"}


def _traj(n_frames, n_atoms, seed, shift=0.0):
    import mdtraj as md
    rng = np.random.RandomState(5 + seed)
    top = md.Topology()
    ch = top.add_chain()
    for i in range(n_atoms):
        r = top.add_residue("ALA", ch)
        top.add_atom("CA", md.element.carbon, r)
    xyz = np.round(rng.rand(n_frames, n_atoms, 3) * 2 + shift, 3).astype(np.float32)
    return md.Trajectory(xyz, top, time=np.arange(n_frames) * 1.0,
                         unitcell_lengths=np.full((n_frames, 3), 5.0), unitcell_angles=np.full((n_frames, 3), 90.0))


def _hash_path(p):
    """sha256 of a file, or of the sorted (relative name, sha256) list of a directory tree."""
    if os.path.isdir(p):
        items = []
        for root, _d, files in os.walk(p):
            for fn in sorted(files):
                q = os.path.join(root, fn)
                items.append((os.path.relpath(q, p), hashlib.sha256(open(q, "rb").read()).hexdigest()))
        return "dir:" + hashlib.sha256(repr(sorted(items)).encode()).hexdigest()
    return hashlib.sha256(open(p, "rb").read()).hexdigest()


def _size(p):
    if os.path.isdir(p):
        return sum(os.path.getsize(os.path.join(r, f)) for r, _d, fs in os.walk(p) for f in fs)
    return os.path.getsize(p)


def _snapshot(d):
    return {n: _hash_path(os.path.join(d, n)) for n in sorted(os.listdir(d))}


def _targets(base, ext, nfr):
    """Paths the save call will write."""
    if ext in RESTART and nfr > 1:
        return ["%s.%d" % (base, i + 1) for i in range(nfr)]
    return [base]


def _make_pre(path, ext, kind, seed):
    """Create pre-existing content at path."""
    if kind == "garbage":
        if ext == "dtr":
            os.makedirs(path)
            with open(os.path.join(path, "unrelated.bin"), "wb") as f:
                f.write(bytes(range(256)) * 4)
        else:
            with open(path, "wb") as f:
                f.write(bytes(range(256)) * 4)
        return
    nfr, nat = (2, 3) if kind == "valid" else (7, 9)
    t = _traj(nfr if ext not in RESTART else 1, nat, seed, shift=3.0)
    tmp = path + ".mk." + ext
    t.save(tmp)
    os.rename(tmp, path)


def _do_write(path, ext, entry, nfr, fo, seed):
    """The action under test.  Returns None or the exception."""
    import mdtraj as md
    from vlib.refmodels import writers
    t = _traj(nfr, 4, seed)
    if entry.endswith("(Path)"):
        # the documented argument type is "path-like": the same call with a pathlib.Path instead of a str
        import pathlib
        path = pathlib.Path(path)
        entry = entry[:-6]
    try:
        if entry == "save":
            t.save(path, force_overwrite=fo)
        else:
            fmt = WRITER_FMT.get(ext, ext)
            f = md.open(path, "w", force_overwrite=fo)
            try:
                if ext in RESTART:
                    f.write(coordinates=t.xyz * 10, time=t.time[0], cell_lengths=t.unitcell_lengths * 10,
                            cell_angles=t.unitcell_angles)
                else:
                    writers.write_block(f, fmt, t, 0, nfr, first=True)
            finally:
                f.close()
    except Exception as e:  # noqa
        return e
    return None


def _load(path, ext, top):
    import mdtraj as md
    if ext == "rst7":
        return md.load_restrt(path, top=top)
    if ext == "ncrst":
        return md.load_ncrestrt(path, top=top)
    if ext in NEEDS_TOP:
        return md.load(path, top=top)
    return md.load(path)


def _same_traj(a, b):
    if a.n_frames != b.n_frames or a.n_atoms != b.n_atoms:
        return "n_frames/n_atoms %s/%s vs %s/%s" % (a.n_frames, a.n_atoms, b.n_frames, b.n_atoms)
    if not np.array_equal(a.xyz, b.xyz):
        return "coordinates differ"
    if not np.array_equal(a.time, b.time):
        return "times differ"
    if (a.unitcell_lengths is None) != (b.unitcell_lengths is None):
        return "cell presence differs"
    if a.unitcell_lengths is not None and not np.array_equal(a.unitcell_lengths, b.unitcell_lengths):
        return "cell differs"
    return None


def _quiet():
    """Pool workers print nothing themselves; mdtraj's half-constructed PDB writer prints 'END' to stdout on a
    refused open, which is noise here."""
    import multiprocessing
    if multiprocessing.current_process().name != "MainProcess":
        dn = os.open(os.devnull, os.O_WRONLY)
        os.dup2(dn, 1)
        os.close(dn)


def write_case(args):
    ext, pre, nfr, entry, fo, where, seed, scratch = args
    _quiet()
    rep = {"kind": "write", "ext": ext, "pre": pre, "nfr": nfr, "entry": entry, "fo": fo, "where": where}
    tag = "%s|%s|fo=%s|pre=%s|%s|at=%s" % (ext, entry, fo, pre, "multi" if nfr > 1 else "single", where)
    d = os.path.join(scratch, "w_" + hashlib.md5(repr(args[:6]).encode()).hexdigest()[:12])
    clean = d + "_clean"
    for x in (d, clean):
        shutil.rmtree(x, ignore_errors=True)
        os.makedirs(x)
    out = []
    info = {"new_siblings": 0, "bytes_equal": None}
    try:
        base = os.path.join(d, "Out_Mixed.Case." + ext)   # mixed case on purpose: guards must test the real spelling
        targets = _targets(base, ext, nfr)
        # where = which path pre-exists: 'target' (the/one file the call must write) or 'base' (restart multi-frame:
        # the un-numbered name, which the call does not write and must not touch)
        # 'numbered:i,j' = exactly these numbered files of a multi-frame restart output pre-exist (every non-empty subset
        # is enumerated)
        if where.startswith("numbered:"):
            prepaths = [targets[int(i)] for i in where.split(":")[1].split(",")]
        else:
            prepaths = [targets[0] if where == "target" else base]
        clash = any(q in targets for q in prepaths)
        for q in prepaths:
            _make_pre(q, ext, pre, seed)
        before = _snapshot(d)
        err = _do_write(base, ext, entry, nfr, fo, seed)
        after = _snapshot(d)
        info["new_siblings"] = len(set(after) - set(before))
        if not fo and clash:
            if err is None:
                out.append((tag + "|no-exception", "force_overwrite=False on an existing path did not raise", rep))
            for n, h in before.items():
                if after.get(n) != h:
                    out.append((tag + "|modified", "pre-existing %s changed although force_overwrite=False" % n, rep))
        elif not clash:
            # nothing the call writes existed: pre-existing paths must stay as they are in any case
            for n, h in before.items():
                if after.get(n) != h:
                    out.append((tag + "|modified", "pre-existing %s (not a target of the call) changed" % n, rep))
        else:
            if err is not None:
                out.append((tag + "|raised-on-overwrite", "force_overwrite=True raised %s: %s" % (type(err).__name__, str(err)[:120]), rep))
            else:
                cbase = os.path.join(clean, "Out_Mixed.Case." + ext)
                cerr = _do_write(cbase, ext, entry, nfr, fo, seed)
                if cerr is not None:
                    info["clean_raised"] = repr(cerr)[:100]
                else:
                    top = _traj(1, 4, seed).topology
                    for tp, cp in zip(targets, _targets(cbase, ext, nfr)):
                        if _size(tp) != _size(cp):
                            out.append((tag + "|remnant", "%s is %d bytes, the same call in an empty directory writes %d"
                                        % (os.path.basename(tp), _size(tp), _size(cp)), rep))
                            continue
                        be = _hash_path(tp) == _hash_path(cp)
                        info["bytes_equal"] = be if info["bytes_equal"] is None else (info["bytes_equal"] and be)
                        if not be:
                            try:
                                dif = _same_traj(_load(tp, ext, top), _load(cp, ext, top))
                            except Exception as e:  # noqa
                                dif = "cannot load result: %r" % e
                            if dif:
                                out.append((tag + "|content-differs", "overwritten file differs from a fresh one: %s" % dif, rep))
    finally:
        shutil.rmtree(d, ignore_errors=True)
        shutil.rmtree(clean, ignore_errors=True)
    return out, info, tag


READ_EXTS = ["h5", "xtc", "trr", "dcd", "nc", "mdcrd", "xyz", "xyz.gz", "lammpstrj", "gro", "pdb", "pdb.gz", "dtr",
             "rst7", "ncrst"]
TOPFILES = ["native.pdb", "ala_ala_ala.psf", "alanine-dipeptide-explicit.prmtop", "imatinib.mol2", "frame0.gro",
            "frame0.h5", "frame0.lh5", "4waters.arc", "no_chains.hoomdxml", "1vii.pdb.gz", "frame0.binpos",
            "frame0.dcd", "frame0.xtc", "frame0.trr", "frame0.nc", "frame0.mdcrd", "frame0.lammpstrj", "frame0.xyz",
            "frame0.xyz.gz", "frame0.tng", "ncinpcrd.rst7", "inpcrd"]


# how the file name reaches the call: a variable that outlives the handle; a temporary of the call expression, followed
# at once by the write; the same with ordinary string allocations between open() and write()
_HELD = {True: "held", False: "temporary", "alloc": "temporary+allocations"}


def bystander_case(args):
    """A write to a NEW name must leave every bystander alone: files in the working directory, in the target's
    directory and in a sibling directory.  The name is handed over as a temporary string (built in the call
    expression, referenced by nobody afterwards) or as a held variable -- the usual ways to call save()/open()."""
    ext, entry, held, nfr, seed, scratch = args
    _quiet()
    import mdtraj as md
    from vlib.refmodels import writers
    rep = {"kind": "bystander", "ext": ext, "entry": entry, "held": held, "nfr": nfr}
    tag = "%s|%s|name=%s|new-target|%s" % (ext, entry, _HELD[held], "multi" if nfr > 1 else "single")
    d = os.path.join(scratch, "b_" + hashlib.md5(repr(args[:4]).encode()).hexdigest()[:12])
    shutil.rmtree(d, ignore_errors=True)
    out = []
    old = os.getcwd()
    try:
        for sub in ("cwd", "out", "sibling"):
            os.makedirs(os.path.join(d, sub))
            for k in range(2):
                with open(os.path.join(d, sub, "bystander%d.dat" % k), "wb") as f:
                    f.write(bytes(range(256)) * (k + 1))
        os.makedirs(os.path.join(d, "sibling", "nested.dir"))
        open(os.path.join(d, "sibling", "nested.dir", "deep.dat"), "wb").write(b"deep")
        os.chdir(os.path.join(d, "cwd"))
        before = {sub: _snapshot(os.path.join(d, sub)) for sub in ("cwd", "out", "sibling")}
        t = _traj(nfr, 4, seed)
        name = "Out_Mixed.Case." + ext
        kept = os.path.join(d, "out", name)
        err = None
        try:
            if entry == "save":
                if held is True:
                    t.save(kept)
                else:
                    t.save("/".join([d, "out", name]))
            else:
                f = md.open(kept, "w") if held is True else md.open("/".join([d, "out", name]), "w")
                filler = ["/".join([d, "sibling", "nested.dir"]) for _ in range(8)] if held == "alloc" else None
                try:
                    if ext in RESTART:
                        f.write(coordinates=t.xyz * 10, time=t.time[0], cell_lengths=t.unitcell_lengths * 10, cell_angles=t.unitcell_angles)
                    else:
                        writers.write_block(f, WRITER_FMT.get(ext, ext), t, 0, nfr, first=True)
                finally:
                    f.close()
                del filler
        except Exception as e:  # noqa
            err = e
        os.chdir(old)
        for sub in ("cwd", "out", "sibling"):
            if not os.path.isdir(os.path.join(d, sub)):
                out.append((tag + "|bystander-directory-removed:" + sub, "directory %s/ no longer exists after the write" % sub, rep))
                continue
            after = _snapshot(os.path.join(d, sub))
            for n, h in before[sub].items():
                if after.get(n) != h:
                    out.append((tag + "|bystander-modified:" + sub, "%s/%s %s although the call writes %s only" % (
                        sub, n, "was removed" if n not in after else "changed", "out/" + name), rep))
            extra = sorted(set(after) - set(before[sub]) - set(os.path.basename(x) for x in _targets(kept, ext, nfr)))
            if extra and sub != "out":
                out.append((tag + "|stray-output", "new entries %s appeared in %s/" % (extra[:3], sub), rep))
        if err is not None:
            out.append((tag + "|raised", "writing to a new name raised %s: %s" % (type(err).__name__, str(err)[:120]), rep))
        elif not all(os.path.exists(x) for x in _targets(kept, ext, nfr)):
            out.append((tag + "|no-output", "the call returned but %s does not exist" % name, rep))
    finally:
        os.chdir(old)
        shutil.rmtree(d, ignore_errors=True)
    return out, tag


def bystander_isolated(args):
    """bystander_case in a forked child: a writer working from a stale name can also corrupt the heap."""
    from vlib.iso import isolated
    st, val = isolated(lambda: bystander_case(args), timeout=180)
    if st == "ok":
        return val
    ext, entry, held, nfr = args[:4]
    tag = "%s|%s|name=%s|new-target|%s" % (ext, entry, _HELD[held], "multi" if nfr > 1 else "single")
    rep = {"kind": "bystander", "ext": ext, "entry": entry, "held": held, "nfr": nfr}
    return [(tag + "|" + st, "the write %s: %s" % ("crashed the interpreter" if st == "crash" else st, str(val)[:160]), rep)], tag


def relative_case(args):
    """The same RELATIVE name written from two working directories in one process: the second write must create its file
    in the second directory and leave the first directory's file of that name alone (a writer that resolves relative
    names itself must do so at the time of the call)."""
    ext, entry, nfr, seed, scratch = args
    _quiet()
    import mdtraj as md
    from vlib.refmodels import writers
    rep = {"kind": "relative", "ext": ext, "entry": entry, "nfr": nfr}
    tag = "%s|%s|relative-name|two-working-directories|%s" % (ext, entry, "multi" if nfr > 1 else "single")
    d = os.path.join(scratch, "r_" + hashlib.md5(repr(args[:3]).encode()).hexdigest()[:12])
    shutil.rmtree(d, ignore_errors=True)
    out = []
    old = os.getcwd()
    name = "Rel_Mixed.Case." + ext
    try:
        for sub in ("project_a", "project_b"):
            os.makedirs(os.path.join(d, sub))
        errs = []
        snap_a = None
        for k, sub in enumerate(("project_a", "project_b")):
            os.chdir(os.path.join(d, sub))
            t = _traj(nfr, 4, seed + k, shift=float(k))
            try:
                if entry == "save":
                    t.save(name, force_overwrite=False)
                else:
                    f = md.open(name, "w", force_overwrite=False)
                    try:
                        if ext in RESTART:
                            f.write(coordinates=t.xyz * 10, time=t.time[0], cell_lengths=t.unitcell_lengths * 10, cell_angles=t.unitcell_angles)
                        else:
                            writers.write_block(f, WRITER_FMT.get(ext, ext), t, 0, nfr, first=True)
                    finally:
                        f.close()
            except Exception as e:  # noqa
                errs.append((sub, e))
            if k == 0:
                snap_a = _snapshot(os.path.join(d, "project_a"))
        os.chdir(old)
        after_a = _snapshot(os.path.join(d, "project_a")) if os.path.isdir(os.path.join(d, "project_a")) else {}
        for n, h in (snap_a or {}).items():
            if after_a.get(n) != h:
                out.append((tag + "|first-directory-modified", "project_a/%s %s by a write of the same relative name from project_b" % (
                    n, "was removed" if n not in after_a else "changed"), rep))
        for sub, e in errs:
            out.append((tag + "|raised", "writing %s in %s raised %s: %s" % (name, sub, type(e).__name__, str(e)[:100]), rep))
        if not errs:
            for sub in ("project_a", "project_b"):
                if not all(os.path.exists(x) for x in _targets(os.path.join(d, sub, name), ext, nfr)):
                    out.append((tag + "|no-output", "%s/%s does not exist after the write" % (sub, name), rep))
    finally:
        os.chdir(old)
        shutil.rmtree(d, ignore_errors=True)
    return out, tag


def relative_isolated(args):
    from vlib.iso import isolated
    st, val = isolated(lambda: relative_case(args), timeout=180)
    if st == "ok":
        return val
    ext, entry, nfr = args[:3]
    tag = "%s|%s|relative-name|two-working-directories|%s" % (ext, entry, "multi" if nfr > 1 else "single")
    return [(tag + "|" + st, "the writes %s: %s" % (st, str(val)[:160]), {"kind": "relative", "ext": ext, "entry": entry, "nfr": nfr})], tag


def read_case(args):
    kind, name, seed, scratch, repo = args
    import mdtraj as md
    from vlib.iso import isolated
    _quiet()
    rep = {"kind": "read", "src": kind, "name": name}
    d = os.path.join(scratch, "r_" + hashlib.md5(repr(args[:2]).encode()).hexdigest()[:12])
    shutil.rmtree(d, ignore_errors=True)
    os.makedirs(d)
    out = []
    ops = []
    try:
        top = _traj(1, 4, seed).topology
        if kind == "gen":
            ext = name
            p = os.path.join(d, "r." + ext)
            _traj(1 if ext in RESTART else 3, 4, seed).save(p)
            kw = {"top": top} if ext in NEEDS_TOP else {}
        else:
            src = os.path.join(repo, "tests/data", name)
            if not os.path.exists(src):
                return out, ops, name
            p = os.path.join(d, name)
            (shutil.copytree if os.path.isdir(src) else shutil.copy)(src, p)
            ext = name.split(".", 1)[1] if "." in name else name
            kw = {}
            if ext in ("binpos", "dcd", "xtc", "trr", "nc", "mdcrd", "lammpstrj", "xyz", "xyz.gz", "tng"):
                kw = {"top": os.path.join(repo, "tests/data/native.pdb" if name.startswith("frame0") else "native.pdb")}
        h0 = _hash_path(p)
        st0 = _size(p)

        def attempt(label, fn):
            def body():
                try:
                    fn()
                    return "ok"
                except Exception:  # noqa  (failing to read is not C20's business; it must still not modify)
                    return "exc"
            st, val = isolated(body, 60)   # a crashing reader (C02 known finding) must not take the worker down
            ops.append(label if (st, val) == ("ok", "ok") else label + ":" + (val if st == "ok" else st))
            if _hash_path(p) != h0 or _size(p) != st0:
                out.append(("%s|read|%s|modified" % (name, label), "%s altered the file" % label, dict(rep, op=label)))

        if ext == "rst7":
            attempt("load_restrt", lambda: md.load_restrt(p, **kw))
        elif ext == "ncrst":
            attempt("load_ncrestrt", lambda: md.load_ncrestrt(p, **kw))
        else:
            attempt("load", lambda: md.load(p, **kw))
            attempt("load(stride,atom_indices)", lambda: md.load(p, stride=2, atom_indices=[0, 1], **kw))
            attempt("load_frame", lambda: md.load_frame(p, 0, **kw))
            attempt("iterload", lambda: list(itertools.islice(md.iterload(p, chunk=2, **kw), 5)))
        attempt("load_topology", lambda: md.load_topology(p))

        def fileobj():
            okw = {"n_atoms": 4} if ext in ("mdcrd", "crd") and kind == "gen" else {}
            with md.open(p, "r", **okw) as f:
                for name_, call in (("read1", lambda: f.read(1)), ("tell", lambda: f.tell()), ("seek", lambda: f.seek(0)),
                                    ("len", lambda: len(f)), ("read", lambda: f.read())):
                    try:
                        call()
                    except Exception:  # noqa
                        pass
        attempt("open(r)+read/seek/tell/len", fileobj)
    finally:
        shutil.rmtree(d, ignore_errors=True)
    return out, ops, name


def run(ctx):
    jobs = []
    for ext in SAVE_EXTS:
        pres = ["valid", "longer", "garbage"]
        for pre, nfr, entry, fo in itertools.product(pres, (1, 3), ("save", "open", "save(Path)", "open(Path)"), (False, True)):
            if entry.startswith("open") and ext in RESTART and nfr > 1:
                continue  # the restart file objects hold one frame; numbered output is a feature of save()
            if ext in RESTART and nfr > 1 and entry.startswith("save"):
                jobs.append((ext, pre, nfr, entry, fo, "base", ctx.seed, ctx.scratch))
                for k in range(1, nfr + 1):
                    for sub in itertools.combinations(range(nfr), k):
                        jobs.append((ext, pre, nfr, entry, fo, "numbered:" + ",".join(map(str, sub)), ctx.seed, ctx.scratch))
            else:
                jobs.append((ext, pre, nfr, entry, fo, "target", ctx.seed, ctx.scratch))
    outs = ctx.pmap(write_case, jobs)
    n = 0
    distinct = set()
    siblings = 0
    bytes_equal = 0
    for (viol, info, tag) in outs:
        ctx.report(viol)
        n += 1
        if not viol:
            distinct.add(tag)
        siblings += info.get("new_siblings", 0) > 0 and "fo=False" in tag
        bytes_equal += bool(info.get("bytes_equal"))
    bjobs = []
    for ext in SAVE_EXTS:
        for entry, held, nfr in itertools.product(("save", "open"), (True, False, "alloc"), (1, 3)):
            if (entry == "open" and ext in RESTART and nfr > 1) or (entry == "save" and held == "alloc"):
                continue
            bjobs.append((ext, entry, held, nfr, ctx.seed, ctx.scratch))
    bn = 0
    for viol, tag in ctx.pmap(bystander_isolated, bjobs):
        ctx.report(viol)
        bn += 1
        if not viol:
            distinct.add(tag)
    reljobs = [(ext, entry, nfr, ctx.seed, ctx.scratch) for ext in SAVE_EXTS for entry in ("save", "open") for nfr in (1, 3)
               if not (entry == "open" and ext in RESTART and nfr > 1)]
    for viol, tag in ctx.pmap(relative_isolated, reljobs):
        ctx.report(viol)
        bn += 1
        if not viol:
            distinct.add(tag)
    rjobs = [("gen", e, ctx.seed, ctx.scratch, ctx.repo) for e in READ_EXTS] + \
            [("repo", f, ctx.seed, ctx.scratch, ctx.repo) for f in TOPFILES]
    routs = ctx.pmap(read_case, rjobs)
    rn = 0
    for viol, ops, name in routs:
        ctx.report(viol)
        rn += len(ops)
        for o in ops:
            distinct.add("read|%s|%s" % (name, o))
    return "exploration", {
        "evaluations": n + rn + bn, "distinct_nontrivial": len(distinct), "bystander_cases": bn,
        "rule": "one real execution per cell of ext x pre-existing x frames x entry x force_overwrite (+ which path "
                "pre-exists for numbered restart output); one per (file, read entry point); a case is counted when it "
                "passed its before/after comparison",
        "samples": [dict(zip(("ext", "pre", "nfr", "entry", "fo", "where"), j[:6])) for j in jobs[5::97]][:5],
        "exhaustive": True,
        "write_cases": n, "read_entry_point_calls": rn,
        "refusals_that_left_new_sibling_files(recorded,not judged)": int(siblings),
        "overwrites_byte_identical_to_fresh": int(bytes_equal),
        "axes": {"ext": SAVE_EXTS, "pre": ["valid", "longer", "garbage"], "frames": [1, 3], "entry": ["save", "open", "save(Path)", "open(Path)"],
                 "force_overwrite": [False, True], "read_ext": READ_EXTS, "repo_files": TOPFILES},
    }


def replay(ctx, rep):
    if rep["kind"] == "relative":
        a = relative_case((rep["ext"], rep["entry"], rep["nfr"], ctx.seed, ctx.scratch))[0]
        b = relative_case((rep["ext"], rep["entry"], rep["nfr"], ctx.seed, ctx.scratch))[0]
    elif rep["kind"] == "bystander":
        a = bystander_case((rep["ext"], rep["entry"], rep["held"], rep["nfr"], ctx.seed, ctx.scratch))[0]
        b = bystander_case((rep["ext"], rep["entry"], rep["held"], rep["nfr"], ctx.seed, ctx.scratch))[0]
    elif rep["kind"] == "write":
        a = write_case((rep["ext"], rep["pre"], rep["nfr"], rep["entry"], rep["fo"], rep["where"], ctx.seed, ctx.scratch))[0]
        b = write_case((rep["ext"], rep["pre"], rep["nfr"], rep["entry"], rep["fo"], rep["where"], ctx.seed, ctx.scratch))[0]
    else:
        a = read_case((rep["src"], rep["name"], ctx.seed, ctx.scratch, ctx.repo))[0]
        b = read_case((rep["src"], rep["name"], ctx.seed, ctx.scratch, ctx.repo))[0]
    print("replay 1:", [v[0] for v in a])
    print("replay 2:", [v[0] for v in b])
    assert [v[0] for v in a] == [v[0] for v in b], "replay not deterministic"
    return not a
