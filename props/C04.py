"""C04 — topology transformations preserve atoms, residues, chains and bonds.

Breadth-first exploration of transformation histories on real Topology objects against the reference
model of vlib/refmodels/topo_model.py.  A state is a real topology (rebuilt by replaying its history);
its key is its complete observable content plus hidden bookkeeping, so merging is lossless.  From every
state every enabled event is executed; after every event
  * the result is compared field by field with the model's result (carrier capability table applied),
  * indices must be 0..n-1 in order and every bond must hold the RESULT's own atom objects,
  * the source (and join partner) must be unchanged,
  * the same event applied to two equal twins of the source (a pickle clone and a rebuilt topology whose
    eq-irrelevant fields differ) must give results equal to the result,
  * a == b => hash(a) == hash(b) for every pair among source, twins, partners and all results of the state,
  * ONE edit (8 kinds) is applied to either side of (result x every topology of its lineage/partner) and
    the other side must still equal its snapshot.
"""
import copy as _copy
import hashlib
import json
import os
import pickle

MANIFEST = {
    "category": "model_checking",
    "engine": "histx",
    "technique": "explicit-state breadth-first exploration of topology transformation histories on the real objects "
                 "against a list-of-records reference model with a per-carrier capability table",
    "text": "From 10 hand-built topologies (explicit/default/repeated chain ids; resSeq repeated, 0, negative, identical "
            "neighbouring residues; serials 5, 7, 100000; virtual site; all bond types with and without order; bonds across "
            "residues and chains; one-atom residues; segment ids; standard residues GLY/CYS/HOH mixed with a ligand and an "
            "ion: CYS SG-ligand, ligand-ligand, HOH O-Na, a disulfide, peptide and template bonds; two atoms with five CONECT "
            "partners each) all histories over {copy, deepcopy, pickle, subset(s) for EVERY non-empty increasing subset when "
            "n<=6 atoms (menu of <=15 beyond), join(self|partner|root, keep_resSeq T/F), to_dataframe->from_dataframe, "
            "save/load .h5, save/load .pdb} to depth 2 (thorough 3), states merged only on identical complete content; every "
            ".h5 event is also read three times through ONE open handle (f.topology / read_as_traj / iterload chunks) with "
            "one of the 8 edits applied between the reads, every .pdb event also with standard_names=False; ligands follow "
            "amino acids and water in the same chain with atom names that are alternative spellings in the reader's tables; "
            "every "
            "transition executed on the real object and compared with the model in every field the carrier can hold (for "
            ".pdb: bonds touching a non-standard residue and disulfides must survive through CONECT, template/peptide bonds of "
            "standard residues must be present before and after); index contiguity, bond-atom identity, source "
            "immutability, eq=>hash on all pairs of a state's family, equality preserved under the event for two equal "
            "twins, and independence under 8 edits on either side. Right level: the property quantifies over histories of "
            "a small object algebra.",
    "note": "Bounded: <=6 atoms per fixture except one of 22 (<=88 after joins); standard residues limited to GLY, CYS, HOH "
            "with canonical heavy-atom names (other standard residues / names a reader normalises: .pdb event not issued, "
            "counted); standard-standard bonds that no PDB record holds are not judged through .pdb; coordinates irrelevant "
            "(atoms 0.5 nm apart, no distance-detected disulfides); Trajectory.atom_slice/stack wrappers are not events; "
            "edits are terminal; lineage clones for the edit phase are made with pickle (aliasing pattern verified on each "
            "clone). Fields a carrier has no place for are not judged (docs/hdf5_format.rst, PDB column layout and CONECT "
            "convention, to_dataframe docstring).",
    "ref": "DESIGN.md §3 C04, §2.2",
}

from vlib.refmodels import topo_fixtures as FX
from vlib.refmodels import topo_model as TM

EDITS = ["insert_end", "insert_front", "delete_first", "delete_last", "add_bond", "rename_atom", "rename_residue",
         "relabel"]


# --------------------------------------------------------------------------------------------------
# events on the real object
# --------------------------------------------------------------------------------------------------
class Env:
    def __init__(self, scratch, seed, init):
        import mdtraj as md
        self.md = md
        self.scratch = scratch
        self.seed = seed
        self.init = init
        self.root = TM.build(FX.FIXTURES[init], md)
        self.partner = TM.build(FX.PARTNER, md)
        self.root_model = FX.FIXTURES[init]
        self.partner_model = FX.PARTNER

    def path(self, ext):
        return os.path.join(self.scratch, "c04-%d.%s" % (os.getpid(), ext))

    def other(self, name, P):
        return {"self": P, "partner": self.partner, "root": self.root}[name]


def _xyz(n, seed):
    import numpy as np
    x = np.zeros((1, n, 3), dtype=np.float32)
    x[0, :, 0] = 0.5 * np.arange(n) + 0.01 * seed
    x[0, :, 1] = 0.1 * (np.arange(n) % 3)
    x[0, :, 2] = 0.05 * seed
    return x


def apply_real(P, ev, env):
    md = env.md
    k = ev[0]
    if k == "copy":
        return P.copy()
    if k == "deepcopy":
        return _copy.deepcopy(P)
    if k == "pickle":
        return pickle.loads(pickle.dumps(P))
    if k == "subset":
        return P.subset(list(ev[1]))
    if k == "join":
        return P.join(env.other(ev[1], P), keep_resSeq=bool(ev[2]))
    if k == "df":
        atoms, bonds = P.to_dataframe()
        return md.Topology.from_dataframe(atoms, bonds)
    if k in ("h5", "pdb"):
        p = env.path(k)
        md.Trajectory(_xyz(P.n_atoms, env.seed), P).save(p)
        return md.load(p).topology
    raise ValueError(ev)


def expect(m, ev, env):
    """-> (expected model | None, reason why the event is not issued)"""
    k = ev[0]
    if k in ("copy", "deepcopy", "pickle"):
        return TM.m_copy(m), None
    if k == "subset":
        return TM.m_subset(m, ev[1]), None
    if k == "join":
        om = {"self": m, "partner": env.partner_model, "root": env.root_model}[ev[1]]
        return TM.m_join(m, om, bool(ev[2])), None
    return TM.carrier_image(m, k, FX.PLAIN_RESNAMES)


def enabled(m, at_root):
    n = len(m["atoms"])
    evs = [("copy",), ("deepcopy",), ("pickle",)]
    if n <= 6:
        subs = FX.all_subsets(n)
    else:
        subs = FX.subset_menu(n)
        res = TM.residues_of(m)
        extra = [[r[5][0] for r in res]]                                   # one atom per residue
        if len(res) > 2:
            extra.append([i for r in res if r[0] != res[1][0] for i in r[5]])      # drop the second residue
        if TM.n_chains(m) > 1:
            extra.append([i for i, a in enumerate(m["atoms"]) if a[TM.CPOS] != 0])   # drop the first chain
        for s in extra:
            if s and s not in subs:
                subs.append(s)
    evs += [("subset", s) for s in subs]
    for other in ("self", "partner") + (() if at_root else ("root",)):
        for keep in (True, False):
            evs.append(("join", other, keep))
    evs += [("df",), ("h5",), ("pdb",)]
    return evs


def apply_edit(X, ed):
    from mdtraj.core import element as elem
    from mdtraj.core.topology import Triple
    n = X.n_atoms
    if ed == "insert_end":
        X.insert_atom("ZZ", elem.sulfur, X.residue(X.n_residues - 1), serial=424242)
    elif ed == "insert_front":
        X.insert_atom("ZZ", elem.sulfur, X.residue(0), index=0, rindex=0, serial=424242)
    elif ed == "delete_first":
        X.delete_atom_by_index(0)
    elif ed == "delete_last":
        X.delete_atom_by_index(n - 1)
    elif ed == "add_bond":
        X.add_bond(X.atom(0), X.atom(n - 1), type=Triple, order=3)
    elif ed == "rename_atom":
        X.atom(0).name = "RN"
    elif ed == "rename_residue":
        X.residue(0).name = "RNM"
    elif ed == "relabel":
        X.chain(0).chain_id = "y"
        r = X.residue(X.n_residues - 1)
        r.resSeq = 4242
        r.segment_id = "EDIT"
        a = X.atom(n - 1)
        a.serial = 777
        a.element = elem.sulfur
    else:
        raise ValueError(ed)


# --------------------------------------------------------------------------------------------------
# helpers
# --------------------------------------------------------------------------------------------------
def _digest(obj):
    return hashlib.sha1(json.dumps(obj, sort_keys=True, default=repr).encode()).hexdigest()[:20]


def state_key(init, obs):
    bonds = [b[:6] for b in obs["bonds"]]
    return _digest([init, TM._canon(obs["chains"]), TM._canon(obs["residues"]), TM._canon(obs["atoms"]),
                    TM._canon(bonds), repr(obs["hidden"])])


def _alias_sig(members):
    owner = {}
    for mi, t in enumerate(members):
        for a in t.atoms:
            owner.setdefault(id(a), mi)
    return tuple(tuple((owner.get(id(b[0]), -1), owner.get(id(b[1]), -1)) for b in t.bonds) for t in members)


def _ser_ctx(m):
    ser = [a[TM.SERIAL] for a in m["atoms"]]
    if all(s is None for s in ser):
        return "serial=None"
    return "serial=position" if all(TM.same(s, i + 1) for i, s in enumerate(ser)) else "serial!=position"


def _sig_for(ev, mis, m, env):
    k = ev[0]
    field, cls, _detail, bad = mis
    sig = "%s|%s|%s" % (k, field, cls)
    if k == "join" and bad is not None:
        na = len(m["atoms"])
        parts = sorted({"self-part" if (i if isinstance(i, int) else max(i)) < na else "other-part" for i in bad})
        sig += "|" + "+".join(parts)
    if k == "pdb" and field in ("serial", "bonds"):
        sig += "|%s|%s" % ("single-chain" if TM.n_chains(m) < 2 else "multi-chain", _ser_ctx(m))
    if k == "pdb" and field == "bonds":
        # which kind of bond went wrong (standard residue / HET group at its ends) and whether any atom needs more
        # than one CONECT line
        kinds = set()
        for (i, j) in (bad or []):
            if i < len(m["atoms"]) and j < len(m["atoms"]):
                e = sorted("std" if m["atoms"][x][TM.RESNAME] in TM.PDB_STANDARD else "het" for x in (i, j))
                kinds.add("-".join(e))
        deg = {}
        for (i, j, _t, _o) in m["bonds"]:
            deg[i] = deg.get(i, 0) + 1
            deg[j] = deg.get(j, 0) + 1
        sig += "|%s|%s" % ("+".join(sorted(kinds)) or "none", "max-partners>4" if max(deg.values(), default=0) > 4
                           else "max-partners<=4")
    return sig


def _struct_class(text):
    for key, cls in (("chain at", "chain-index"), ("residue at", "residue-index"), ("atom at", "atom-index"),
                     ("n_", "count"), ("topology.", "accessor")):
        if text.startswith(key):
            return cls
    return "other"


def _eq_aspect(oa, ob):
    if [(a[1], a[2], a[0]) for a in oa["atoms"]] != [(a[1], a[2], a[0]) for a in ob["atoms"]]:
        return "atoms"
    if [(r[1], r[5]) for r in oa["residues"]] != [(r[1], r[5]) for r in ob["residues"]]:
        return "residues"
    if [(c[0], c[2]) for c in oa["chains"]] != [(c[0], c[2]) for c in ob["chains"]]:
        return "chains"
    if sorted((TM._canon(b[:4]) for b in oa["bonds"]), key=repr) != sorted((TM._canon(b[:4]) for b in ob["bonds"]), key=repr):
        return "bonds"
    return "none-visible"


def _hash_causes(oa, ob):
    causes = []
    if [r[2] for r in oa["residues"]] != [r[2] for r in ob["residues"]]:
        causes.append("hashed-but-ignored-by-eq:resSeq")
    if [r[3] for r in oa["residues"]] != [r[3] for r in ob["residues"]]:
        causes.append("hashed-but-ignored-by-eq:segment_id")
    ba = [TM._canon(b[:4]) for b in oa["bonds"]]
    bb = [TM._canon(b[:4]) for b in ob["bonds"]]
    if ba != bb and sorted(ba, key=repr) == sorted(bb, key=repr):
        causes.append("bond-list-order")
    return causes or ["unexplained"]


# --------------------------------------------------------------------------------------------------
# expansion of one state
# --------------------------------------------------------------------------------------------------
def replay_lineage(env, hist):
    lin = [env.root]
    for ev in hist:
        lin.append(apply_real(lin[-1], ev, env))
    return lin


def expand(init, hist, scratch, seed, only=None, do_edits=True):
    """Execute every enabled event (or `only`) from the state reached by `hist`; check everything."""
    env = Env(scratch, seed, init)
    md = env.md
    lineage = replay_lineage(env, hist)
    P = lineage[-1]
    obsP = TM.observe(P)
    m = TM.to_model(obsP)
    P_foreign = any(not (b[4] and b[5]) for b in obsP["bonds"])
    snapP = TM.snapshot(P)
    snap_others = {"partner": TM.snapshot(env.partner), "root": TM.snapshot(env.root)}

    viol = {}      # sig -> (detail, replay)
    counts = {}    # sig -> n
    stat = {"transitions": 0, "excluded": 0, "twin_runs": 0, "edits": 0, "edits_raised": 0, "edit_pairs": 0,
            "pairs_eq": 0, "pairs": 0, "clone_unfaithful": 0, "twins_unequal": 0}
    excluded_reasons = {}
    outcomes = set()
    children = []

    def bad(sig, detail, events):
        counts[sig] = counts.get(sig, 0) + 1
        if sig not in viol:
            viol[sig] = ("init=%s history=%s event=%s: %s" % (init, json.dumps(hist), json.dumps(events[-1]), detail),
                         {"init": init, "history": hist, "events": events, "sig": sig})

    # equal twins of the source
    twins = []
    try:
        q1 = pickle.loads(pickle.dumps(P))
        twins.append(("pickle-twin", q1))
    except Exception:
        pass
    try:
        q2 = TM.build(TM.perturbed(m), md)
        twins.append(("variant-twin", q2))
    except Exception:
        pass
    live_twins = []
    for lab, q in twins:
        if P == q:
            live_twins.append((lab, q))
        else:
            stat["twins_unequal"] += 1
    family = [("P", None, P), ("root", None, env.root), ("partner", None, env.partner)]
    family += [(lab, None, q) for lab, q in twins]

    evs = enabled(m, not hist)
    if only is not None:
        evs = [e for e in evs if list(_jl(e)) in [list(_jl(o)) for o in only]]
    for ev in evs:
        exp, why = expect(m, ev, env)
        if exp is None:
            stat["excluded"] += 1
            excluded_reasons[why] = excluded_reasons.get(why, 0) + 1
            continue
        k = ev[0]
        stat["transitions"] += 1
        try:
            R = apply_real(P, ev, env)
        except Exception as e:  # an in-range transformation must not raise
            bad("%s|raised|%s" % (k, type(e).__name__), "raised %s: %s" % (type(e).__name__, str(e)[:200]), [ev])
            if TM.snapshot(P) != snapP:
                lineage = replay_lineage(env, hist)
                P = lineage[-1]
            continue
        obsR = TM.observe(R)
        got = TM.to_model(obsR)
        outcomes.add(_digest([k, TM._canon(obsR["chains"]), TM._canon(obsR["residues"]), TM._canon(obsR["atoms"]),
                              TM._canon([b[:6] for b in obsR["bonds"]])]))
        # 1. result == model
        main_mis = set()
        for mis in compare4(exp, got):
            main_mis.add((mis[0], mis[1]))
            bad(_sig_for(ev, mis, m, env), mis[2], [ev])
        # 1b. other ways of reading the same file: a PDB read with standard_names=False must give the same topology
        #     (every name in these fixtures is canonical or belongs to a residue the name tables do not know), and
        #     an .h5 file read several times through ONE open handle (f.topology, f.read_as_traj, md.iterload chunks)
        #     must give the stored topology every time, also after an earlier read's topology was edited
        if k == "pdb":
            stat["pdb_rawname_reads"] = stat.get("pdb_rawname_reads", 0) + 1
            try:
                R2 = md.load(env.path("pdb"), standard_names=False).topology
                for mis in compare4(exp, TM.to_model(TM.observe(R2))):
                    if (mis[0], mis[1]) in main_mis:
                        continue        # same disagreement as the default read: reported there
                    bad("pdb(standard_names=False)|%s|%s" % (mis[0], mis[1]), mis[2], [ev])
            except Exception as e:
                bad("pdb(standard_names=False)|raised|%s" % type(e).__name__, str(e)[:200], [ev])
        if k == "h5" and do_edits:
            _h5_handle_phase(P, R, ev, env, stat, bad)
        # 2. indices contiguous, accessors agree
        for s in obsR["struct"][:1]:
            bad("%s|indices|%s" % (k, _struct_class(s)), s, [ev])
        # 3. bonds hold the result's own atoms (pickle faithfully keeps a source's foreign atoms: cascade, not judged)
        foreign = [i for i, b in enumerate(obsR["bonds"]) if not (b[4] and b[5])]
        if foreign and not (k == "pickle" and P_foreign):
            sig = "%s|bond-atoms|foreign" % k
            if k == "join":
                nb = len(m["bonds"])
                sig += "|" + "+".join(sorted({"self-part" if i < nb else "other-part" for i in foreign}))
            bad(sig, "%d of %d bonds hold atom objects that are not atoms of the result (bond %d: atoms %r/%r own=%r/%r)" % (
                len(foreign), len(obsR["bonds"]), foreign[0], obsR["bonds"][foreign[0]][6], obsR["bonds"][foreign[0]][8],
                obsR["bonds"][foreign[0]][4], obsR["bonds"][foreign[0]][5]), [ev])
        # 4. the source and the partners are not altered
        if TM.snapshot(P) != snapP:
            bad("%s|source-mutated|self" % k, "the transformed topology itself changed", [ev])
            lineage = replay_lineage(env, hist)
            P = lineage[-1]
        for nm in ("partner", "root"):
            if TM.snapshot(getattr(env, nm)) != snap_others[nm]:
                bad("%s|source-mutated|%s" % (k, nm), "the %s topology changed" % nm, [ev])
                env = Env(scratch, seed, init)
                lineage = replay_lineage(env, hist)
                P = lineage[-1]
        # 5. equal before => equal after
        fam_children = [("R", ev, R)]
        for lab, q in live_twins:
            stat["twin_runs"] += 1
            try:
                Rq = apply_real(q, ev, env)
            except Exception as e:
                bad("eqafter|%s|%s|raised-%s" % (k, lab, type(e).__name__), "twin raised %s" % e, [ev])
                continue
            if not (R == Rq) or not (Rq == R):
                bad("eqafter|%s|%s|%s" % (k, lab, _eq_aspect(obsR, TM.observe(Rq))),
                    "source == its %s, but the results of %s on them are not equal" % (lab, k), [ev])
            if k not in ("subset",):
                fam_children.append((lab, ev, Rq))
        family += fam_children
        # 6. independence under one edit
        if do_edits:
            _edit_phase(lineage, R, ev, env, stat, bad)
        children.append((state_key(init, obsR), init, hist + [list(ev)]))

    # 7. a == b => hash(a) == hash(b), all pairs of the family
    obs_cache = {}
    for i in range(len(family)):
        a = family[i][2]
        for j in range(i + 1, len(family)):
            b = family[j][2]
            stat["pairs"] += 1
            if a == b:
                stat["pairs_eq"] += 1
                if hash(a) != hash(b):
                    for x in (i, j):
                        if x not in obs_cache:
                            obs_cache[x] = TM.observe(family[x][2])
                    evs2 = [e for e in (family[i][1], family[j][1]) if e is not None]
                    for cause in _hash_causes(obs_cache[i], obs_cache[j]):
                        bad("eqhash|%s" % cause, "%s%s == %s%s but their hashes differ" % (
                            family[i][0], json.dumps(family[i][1]) if family[i][1] else "", family[j][0],
                            json.dumps(family[j][1]) if family[j][1] else ""), evs2 or [evs[0]])
    return {"children": children, "viol": [(s, d, r) for s, (d, r) in viol.items()], "counts": counts, "stat": stat,
            "outcomes": outcomes, "excluded_reasons": excluded_reasons, "n_atoms": len(m["atoms"])}


def _jl(e):
    return json.loads(json.dumps(e))


def compare4(exp, got):
    """TM.compare plus the positions of the differing atoms (for 'which part of a join')."""
    out = []
    for (field, cls, detail) in TM.compare(exp, got):
        badi = None
        if field in TM.FIELD_NAMES and len(exp["atoms"]) == len(got["atoms"]):
            f = TM.FIELD_NAMES.index(field)
            badi = [i for i, (e, g) in enumerate(zip(exp["atoms"], got["atoms"])) if not TM.same(e[f], g[f])]
        if field == "bonds":
            opt = exp.get("optional", ())
            eb = {(b[0], b[1]) for b in exp["bonds"]} - set(opt)
            gb = {(b[0], b[1]) for b in got["bonds"]} - set(opt)
            badi = sorted(eb ^ gb)
        out.append((field, cls, detail, badi))
    return out


H5_MODES = ("topology", "read_as_traj", "iterload")


def _h5_open(env, path, mode):
    """-> (read next topology through one open handle, close)"""
    md = env.md
    if mode == "iterload":
        it = md.iterload(path, chunk=1)
        return (lambda: next(it).topology), it.close
    from mdtraj.formats import HDF5TrajectoryFile
    f = HDF5TrajectoryFile(path)
    if mode == "topology":
        return (lambda: f.topology), f.close
    return (lambda: f.read_as_traj(n_frames=1).topology), f.close


def _h5_handle_phase(P, R, ev, env, stat, bad):
    """One open handle on a 3-frame .h5 of P, three reads; ONE edit is applied to the first topology read before the
    second read, and to the second before the third.  Every read must equal the topology md.load() gave (R, already
    compared with the model) and an earlier read's topology must not change when a later one is edited."""
    import numpy as np
    md = env.md
    path = env.path("handle.h5")
    md.Trajectory(np.repeat(_xyz(P.n_atoms, env.seed), 3, axis=0), P).save(path)
    snapR = TM.snapshot(R)

    def diff(s):
        return "+".join(TM.SNAP_PARTS[p] for p in range(len(s)) if s[p] != snapR[p])

    for mode in H5_MODES:
        for ed in EDITS:
            if ed == "add_bond" and R.n_atoms < 2:
                continue
            stat["h5_handle_runs"] = stat.get("h5_handle_runs", 0) + 1
            read, close = _h5_open(env, path, mode)
            try:
                a = read()
                if TM.snapshot(a) != snapR:
                    bad("h5-handle|%s|first-read|differs-from-load.%s" % (mode, diff(TM.snapshot(a))),
                        "first read through the handle differs from md.load of the same file", [ev])
                    continue
                apply_edit(a, ed)
                sa = TM.snapshot(a)
                b = read()
                if TM.snapshot(b) != snapR:
                    bad("h5-handle|%s|edit=%s@first-read|changed=second-read.%s" % (mode, ed, diff(TM.snapshot(b))),
                        "after %s on the topology of the first read, the second read through the same handle no longer "
                        "returns the stored topology" % ed, [ev])
                    continue
                apply_edit(b, ed)
                if TM.snapshot(a) != sa:
                    bad("h5-handle|%s|edit=%s@second-read|changed=first-read" % (mode, ed),
                        "editing the topology of the second read changed the topology of the first read", [ev])
                c = read()
                if TM.snapshot(c) != snapR:
                    bad("h5-handle|%s|edit=%s@second-read|changed=third-read.%s" % (mode, ed, diff(TM.snapshot(c))),
                        "after %s on the topology of the second read, the third read no longer returns the stored "
                        "topology" % ed, [ev])
            except Exception as e:
                bad("h5-handle|%s|raised|%s" % (mode, type(e).__name__), "%s: %s" % (type(e).__name__, str(e)[:200]), [ev])
            finally:
                try:
                    close()
                except Exception:
                    pass


def _edit_phase(lineage, R, ev, env, stat, bad):
    k = ev[0]
    members, labels = [], []
    for i, t in enumerate(lineage):
        if not any(t is x for x in members):
            members.append(t)
            labels.append("src" if i == len(lineage) - 1 else "anc")
    if k == "join" and ev[1] != "self":
        o = env.other(ev[1], lineage[-1])
        if not any(o is x for x in members):
            members.append(o)
            labels.append("other")
    members.append(R)
    labels.append("dst")
    di = len(members) - 1
    base_alias = _alias_sig(members)
    base_snaps = [TM.snapshot(t) for t in members]
    # the whole family is cloned for edits of the result; for an edit of another member only that member and the
    # result (plus whatever they reference) are cloned.  pickle keeps the aliasing between them; verified once.
    full = pickle.loads(pickle.dumps(members))
    if _alias_sig(full) != base_alias or [TM.snapshot(t) for t in full] != base_snaps:
        stat["clone_unfaithful"] += 1
        return
    for xi in range(len(members)):
        if xi == di:
            blob, idx = pickle.dumps(members), list(range(len(members)))
        else:
            blob, idx = pickle.dumps([members[xi], R]), [xi, di]
        for ed in EDITS:
            if ed == "add_bond" and members[xi].n_atoms < 2:
                continue
            clone = pickle.loads(blob)
            stat["edits"] += 1
            try:
                apply_edit(clone[idx.index(xi)], ed)
            except Exception:
                stat["edits_raised"] += 1
                continue
            for ci, yi in enumerate(idx):
                if yi == xi:
                    continue
                stat["edit_pairs"] += 1
                s = TM.snapshot(clone[ci])
                if s != base_snaps[yi]:
                    part = [TM.SNAP_PARTS[p] for p in range(len(s)) if s[p] != base_snaps[yi][p]]
                    bad("indep|%s|edit=%s@%s|changed=%s.%s" % (k, ed, labels[xi], labels[yi], "+".join(part)),
                        "after %s on the %s topology the %s topology no longer equals its snapshot (%s changed)" % (
                            ed, labels[xi], labels[yi], "+".join(part)), [ev])


# --------------------------------------------------------------------------------------------------
# driver
# --------------------------------------------------------------------------------------------------
def _job(args):
    init, hist, scratch, seed = args
    from vlib.runner import Watchdog
    try:
        with Watchdog(120.0):
            r = expand(init, hist, scratch, seed)
    except Watchdog.Timeout:
        return _failed(init, hist, "expand|horizon", "did not finish in 120 s")
    except Exception as e:  # the check itself could not digest what the implementation produced: fail loudly
        import traceback
        return _failed(init, hist, "expand|check-error|%s" % type(e).__name__, traceback.format_exc()[-1500:])
    return r


def _failed(init, hist, sig, text):
    return {"children": [], "viol": [(sig, "state init=%s history=%s: %s" % (init, json.dumps(hist), text),
                                      {"init": init, "history": hist, "events": [], "sig": sig})],
            "counts": {sig: 1}, "stat": {}, "outcomes": set(), "excluded_reasons": {}, "n_atoms": 0}


def run(ctx):
    import mdtraj as md
    depth = 2 if ctx.quick else 3
    # the model data and the constructors agree (trusted base of everything else)
    seen = {}
    frontier = []
    for init in FX.ORDER:
        top = TM.build(FX.FIXTURES[init], md)
        obs = TM.observe(top)
        assert not obs["struct"], (init, obs["struct"])
        assert not TM.compare(FX.FIXTURES[init], TM.to_model(obs)), init
        seen[state_key(init, obs)] = (init, [])
        frontier.append((init, []))
    stat = {}
    counts = {}
    outcomes = set()
    excluded = {}
    per_level = []
    samples = []
    max_atoms = 0
    for lvl in range(depth):
        jobs = [(i, h, ctx.scratch, ctx.seed) for (i, h) in frontier]
        outs = ctx.pmap(_job, jobs)
        nxt = []
        ntr = 0
        for o in outs:
            ctx.report(o["viol"])
            for s, n in o["counts"].items():
                counts[s] = counts.get(s, 0) + n
            for k2, v in o["stat"].items():
                stat[k2] = stat.get(k2, 0) + v
            ntr += o["stat"].get("transitions", 0)
            outcomes |= o["outcomes"]
            max_atoms = max(max_atoms, o["n_atoms"])
            for r, n in o["excluded_reasons"].items():
                excluded[r] = excluded.get(r, 0) + n
            for key, ini, h in o["children"]:
                if key not in seen:
                    seen[key] = (ini, h)
                    nxt.append((ini, h))
        per_level.append({"depth": lvl, "states_expanded": len(frontier), "transitions": ntr, "new_states": len(nxt)})
        if nxt:
            samples.append({"init": nxt[len(nxt) // 2][0], "history": nxt[len(nxt) // 2][1]})
        frontier = nxt
    cov = {
        "states": len(seen),
        "transitions": stat.get("transitions", 0),
        "traces_validated_against_impl": stat.get("transitions", 0) + stat.get("twin_runs", 0) + stat.get("edits", 0)
        + stat.get("h5_handle_runs", 0) + stat.get("pdb_rawname_reads", 0),
        "h5_one_handle_protocols": stat.get("h5_handle_runs", 0), "h5_handle_modes": list(H5_MODES),
        "pdb_reads_with_standard_names_False": stat.get("pdb_rawname_reads", 0),
        "samples": [dict(x, then_one_edit_of=EDITS, on="every topology of the lineage and the result, in turn")
                    for x in samples],
        "exhaustive": True,
        "depth": depth, "depth_bound_ended_search": bool(frontier),
        "states_unexpanded_at_bound": len(frontier),
        "per_level": per_level,
        "distinct_outcomes": len(outcomes),
        "twin_executions": stat.get("twin_runs", 0),
        "twins_not_equal_to_source": stat.get("twins_unequal", 0),
        "edit_executions": stat.get("edits", 0), "edit_pairs_checked": stat.get("edit_pairs", 0),
        "edits_raised": stat.get("edits_raised", 0), "lineage_clones_unfaithful": stat.get("clone_unfaithful", 0),
        "eq_pairs_evaluated": stat.get("pairs", 0), "eq_pairs_equal": stat.get("pairs_eq", 0),
        "events_not_issued_carrier_cannot_represent": stat.get("excluded", 0), "not_issued_reasons": excluded,
        "mismatch_counts_by_signature": counts,
        "max_atoms": max_atoms,
        "initial_topologies": FX.ORDER, "edits": EDITS, "capability_table": TM.CAPABILITY,
        "rule": "level-synchronous BFS; a state = complete observable content of the real topology (+ private counters, "
                "bond-atom ownership, scalar types); every enabled event executed from every state of depth < bound; "
                "after a mismatch the search continues from the observed state",
    }
    if stat.get("edits_raised", 0):
        ctx.assume("%d edits raised on a transformation result and could not be used for the independence check" %
                   stat["edits_raised"])
    return "model_checking", cov


def replay(ctx, rep):
    import mdtraj  # noqa: F401
    hist = [list(e) for e in rep["history"]]
    only = [list(e) for e in rep.get("events", [])] or None
    res = []
    for _ in range(2):
        r = expand(rep["init"], hist, ctx.scratch, ctx.seed, only=only)
        res.append(sorted(s for s, _d, _r in r["viol"]))
    print("replay 1:", res[0])
    print("replay 2:", res[1])
    assert res[0] == res[1], "replay is not deterministic"
    return rep.get("sig") not in res[0] if rep.get("sig") else not res[0]
