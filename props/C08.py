"""C08 — per-frame results depend only on that frame, not on neighbouring frames or threads.

Three layers:
 (a) per-thread frame-history enumeration: under any OpenMP schedule a thread processes some ordered subsequence of
     the frames, and the only cross-frame channel is the scratch state a thread reuses.  Every ordered selection
     (with repetition) of 1..3 of 4 distinct frames is run through the real function on one thread; each frame's
     result must be bit-identical to the frame computed alone.
 (b) schedule exploration of the real OpenMP kernels (sasa, neighbour list, centring) compiled with TSan
     instrumentation and linked against the green-thread scheduler vlib/sched/sched.c: every interleaving with at
     most 2 (thorough 3) preemptions at conflicting accesses, T in {2, 3}; oracle = the 1-thread result, bitwise;
     plus barrier deadlock detection and a self-test that the explorer finds a seeded lost update.
 (c) free-running conformance pass under real libgomp: OMP_NUM_THREADS x OMP_SCHEDULE x OMP_DYNAMIC x repeats in
     fresh processes; all digests must be identical.
"""
import ctypes
import hashlib
import itertools
import os
import subprocess
import sys

import numpy as np

MANIFEST = {
    "category": "model_checking",
    "engine": "schedx",
    "technique": "preemption-bounded exhaustive interleaving exploration of the real OpenMP kernels under a green-thread "
                 "scheduler (TSan-instrumented build), plus exhaustive per-thread frame-history enumeration",
    "text": "(a) 27 per-frame analysis functions x every ordered selection with repetition of 1..3 of 4 distinct frames (84 "
            "sequences) on one thread, plus the 20-frame trajectory forwards, reversed and rotated: each frame's result "
            "bit-identical to the frame alone, also after an earlier call of the same function with a larger request (static tables, caches) and, for a 1100-frame trajectory, identical to the evaluation in 137-frame chunks (block boundaries); the cell changes shape (rectangular / hexagonal) and height from frame to frame and is short enough for pairs to wrap in the ab-plane. (b) sasa(), "
            "_compute_neighborlist(), inplace_center_and_trace_atom_major() built from the tree with -fsanitize=thread "
            "instrumentation and run on ucontext green threads: all schedules with <= 2 (thorough 3) preemptions at "
            "accesses to granules touched by >= 2 threads with a write, all free choices at blocking points, T in {2,3}, "
            "several tiny inputs, and for cross-validation of that reduction every single preemption at EVERY instrumented access; output must equal the 1-thread output bitwise, no barrier deadlock; a seeded racy "
            "counter in the harness must be caught in the same run. (c) real libgomp with OMP_NUM_THREADS in "
            "{1,2,3,5,8,16,40} x OMP_SCHEDULE {static,dynamic,guided} x OMP_DYNAMIC x 2 (thorough 5) repeats, plus teams cut below the maximum by OMP_THREAD_LIMIT, in fresh "
            "processes: identical digests over all per-frame functions.",
    "note": "(b) explores at the granularity of compiler-instrumented accesses under sequential consistency, at -O1; races "
            "the optimiser removes at -O3 and weak-memory effects are outside it. The prange loops of the Cython modules "
            "(_rmsd, drid) are covered by (a) and (c) only. (c) is a conformance pass, not relied on for coverage.",
    "ref": "DESIGN.md §3 C08, §2.5",
}


# ------------------------------------------------------------------------------------------------ layer (a)

def _frames(repo, n=4):
    import mdtraj as md
    t = md.load(os.path.join(repo, "tests/data/2EQQ.pdb"))[:n]
    # a hexagonal prism whose height changes from frame to frame while a and b stay the same, and which is short
    # enough along c that some pairs are wrapped: a frame processed with another frame's cell gives other numbers
    t.unitcell_lengths = np.column_stack([np.full(n, 2.9), np.full(n, 2.9), 2.6 + 0.35 * (np.arange(n) % 5)])   # a, b short too: pairs wrap in the ab-plane
    t.unitcell_angles = np.tile(np.array([90.0, 90.0, 120.0]), (n, 1))
    # ... and whose SHAPE changes too: even frames are rectangular prisms, odd frames hexagonal, so a decision taken
    # once per call ("every cell is rectangular", read off the first or the last frame) is wrong for some frame order
    t.unitcell_angles[0::2] = 90.0
    return t


def _b(x):
    """Canonical bytes of a per-frame result."""
    import scipy.sparse as sp
    if sp.issparse(x):
        x = x.toarray()
    if isinstance(x, (list, tuple)):
        return b"|".join(_b(y) for y in x)
    a = np.ascontiguousarray(np.asarray(x))
    return a.dtype.str.encode() + str(a.shape).encode() + a.tobytes()


def functions(ref):
    """name -> callable(traj) -> list of per-frame results (len = n_frames)."""
    import mdtraj as md
    top = ref.topology
    ca = top.select("name CA")
    pairs = np.array(list(itertools.combinations(ca[:8], 2)) + [(ca[i], ca[-1 - i]) for i in range(8)])   # near and far pairs
    trip = np.array([ca[i:i + 3] for i in range(6)])
    quad = np.array([ca[i:i + 4] for i in range(6)])
    heavy = top.select("protein and not element H")[:60]

    def per(fn):
        return lambda t: list(fn(t))

    def copyt(t):
        return md.Trajectory(t.xyz.copy(), t.topology, time=t.time.copy(), unitcell_lengths=t.unitcell_lengths.copy(),
                             unitcell_angles=t.unitcell_angles.copy())

    F = {}
    for opt in (True, False):
        for per_ in (True, False):
            F["distances(opt=%s,periodic=%s)" % (opt, per_)] = per(lambda t, o=opt, p=per_: md.compute_distances(t, pairs, periodic=p, opt=o))
    F["displacements"] = per(lambda t: md.compute_displacements(t, pairs))
    F["angles"] = per(lambda t: md.compute_angles(t, trip))
    F["angles(periodic=False)"] = per(lambda t: md.compute_angles(t, trip, periodic=False))
    F["dihedrals"] = per(lambda t: md.compute_dihedrals(t, quad))
    F["phi"] = per(lambda t: md.compute_phi(t)[1])
    F["rmsd(parallel)"] = per(lambda t: md.rmsd(copyt(t), copyt(ref), 0, parallel=True))
    F["rmsd(serial)"] = per(lambda t: md.rmsd(copyt(t), copyt(ref), 0, parallel=False))
    F["rmsd(atom_indices)"] = per(lambda t: md.rmsd(t, ref, 0, atom_indices=heavy))
    F["superpose"] = per(lambda t: copyt(t).superpose(copyt(ref), 0).xyz)
    F["superpose(atom_indices)"] = per(lambda t: copyt(t).superpose(copyt(ref), 0, atom_indices=heavy).xyz)
    F["center_coordinates"] = per(lambda t: copyt(t).center_coordinates().xyz)
    F["shrake_rupley(atom)"] = per(lambda t: md.shrake_rupley(t, n_sphere_points=60))
    F["shrake_rupley(residue)"] = per(lambda t: md.shrake_rupley(t, n_sphere_points=60, mode="residue"))
    F["dssp"] = per(lambda t: md.compute_dssp(t, simplified=False))
    F["kabsch_sander"] = lambda t: list(md.kabsch_sander(t))
    F["wernet_nilsson"] = lambda t: list(md.wernet_nilsson(t))
    F["baker_hubbard(per frame)"] = lambda t: [md.baker_hubbard(t[i], freq=0.0) for i in range(t.n_frames)]
    F["neighbors"] = lambda t: list(md.compute_neighbors(t, 0.6, ca[:5]))
    F["neighborlist"] = lambda t: [[np.asarray(x) for x in md.compute_neighborlist(t, 0.5, frame=i)] for i in range(t.n_frames)]
    F["contacts"] = per(lambda t: md.compute_contacts(t, [[0, 5], [2, 9], [1, 12]])[0])
    F["rg"] = per(lambda t: md.compute_rg(t))
    F["drid"] = per(lambda t: md.compute_drid(t, atom_indices=ca[:12]))
    F["gyration_tensor"] = per(lambda t: md.compute_gyration_tensor(t))
    F["center_of_mass"] = per(lambda t: md.compute_center_of_mass(t))
    F["lprmsd"] = per(lambda t: md.lprmsd(copyt(t), copyt(ref), 0, atom_indices=ca[:12], permute_groups=[ca[:3]]))
    F["rmsf-free: inertia_tensor"] = per(lambda t: md.compute_inertia_tensor(t))
    return F


def precalls(ref):
    """name -> a call of the same mdtraj function with a LARGER request than functions() makes."""
    import mdtraj as md
    top = ref.topology
    allp = np.array(list(itertools.combinations(range(0, top.n_atoms, 7), 2)))
    ca = top.select("name CA")
    P = {}
    for opt in (True, False):
        for per_ in (True, False):
            P["distances(opt=%s,periodic=%s)" % (opt, per_)] = lambda t, o=opt, p=per_: md.compute_distances(t, allp, periodic=p, opt=o)
    P["displacements"] = lambda t: md.compute_displacements(t, allp)
    P["angles"] = lambda t: md.compute_angles(t, np.array([ca[i:i + 3] for i in range(len(ca) - 2)]))
    P["dihedrals"] = lambda t: md.compute_dihedrals(t, np.array([ca[i:i + 4] for i in range(len(ca) - 3)]))
    P["shrake_rupley(atom)"] = lambda t: md.shrake_rupley(t, n_sphere_points=480)
    P["shrake_rupley(residue)"] = lambda t: md.shrake_rupley(t, n_sphere_points=480, mode="residue")
    P["neighbors"] = lambda t: md.compute_neighbors(t, 1.2, ca)
    P["neighborlist"] = lambda t: md.compute_neighborlist(t, 1.0, frame=0)
    P["contacts"] = lambda t: md.compute_contacts(t, "all")
    P["drid"] = lambda t: md.compute_drid(t)
    P["dssp"] = lambda t: md.compute_dssp(t, simplified=True)
    P["baker_hubbard(per frame)"] = lambda t: md.baker_hubbard(t, freq=0.0, exclude_water=False)
    P["wernet_nilsson"] = lambda t: md.wernet_nilsson(t, exclude_water=False)
    cp = lambda t: md.Trajectory(t.xyz.copy(), t.topology)       # md.rmsd centres its arguments in place (documented)
    P["rmsd(atom_indices)"] = lambda t: md.rmsd(cp(t), cp(t), 0)
    P["superpose(atom_indices)"] = lambda t: cp(t).superpose(cp(t), 0)
    return P


def history_job(args):
    name, repo = args
    base = _frames(repo)
    fn = functions(base)[name]
    NF = base.n_frames
    alone = {}
    for k in range(NF):
        alone[k] = _b(fn(base[k])[0])
    # determinism of the alone value itself (fresh call)
    viol = []
    for k in range(NF):
        if _b(fn(base[k])[0]) != alone[k]:
            viol.append(("history|%s|alone-not-reproducible" % name, "%s on frame %d alone gives different bits on a second call" % (name, k),
                         {"layer": "a", "fn": name, "seq": [k]}))
    n = 0
    nontrivial = 0
    # (a0) state left behind by an EARLIER CALL with other options (static tables, module-level caches sized by a previous
    # request): the same function is first called with a larger request (more sphere points, more pairs, a larger
    # cutoff, more atoms ...), then every frame is evaluated again and must give the bits it gave in a fresh state
    pre = precalls(base).get(name)
    if pre is not None:
        try:
            pre(base)
        except Exception:  # noqa  (the larger request is only a means)
            pre = None
    if pre is not None:
        n += 1
        bad = [k for k in range(NF) if _b(fn(base[k])[0]) != alone[k]]
        if bad:
            viol.append(("history|%s|result-depends-on-an-earlier-call-with-other-options" % name,
                         "%s on frame %d differs after an earlier call of the same function with a larger request" % (name, bad[0]),
                         {"layer": "a", "fn": name, "seq": "precall"}))
        else:
            nontrivial += 1
    for L in (1, 2, 3):
        for seq in itertools.product(range(NF), repeat=L):
            n += 1
            res = fn(base[list(seq)])
            if len(res) != L:
                viol.append(("history|%s|shape" % name, "%s returned %d per-frame results for %d frames" % (name, len(res), L),
                             {"layer": "a", "fn": name, "seq": list(seq)}))
                continue
            bad = [i for i in range(L) if _b(res[i]) != alone[seq[i]]]
            if bad:
                i = bad[0]
                viol.append(("history|%s|frame-depends-on-predecessors" % name,
                             "%s: frame %d computed at position %d of sequence %s differs from the frame computed alone"
                             % (name, seq[i], i, list(seq)), {"layer": "a", "fn": name, "seq": list(seq)}))
            elif L > 1 and len(set(seq)) > 1:
                nontrivial += 1
    # (a2) long trajectories: all 20 models, forwards, backwards and rotated by 7 — results that depend on
    # trajectory-wide statistics (e.g. a presence filter over all frames) show up only with many frames
    long = _frames(repo, 20)
    alone20 = [_b(fn(long[k])[0]) for k in range(long.n_frames)]
    for label, order in (("all-20-frames", list(range(20))), ("reversed", list(range(19, -1, -1))),
                         ("rotated-by-7", [(k + 7) % 20 for k in range(20)])):
        n += 1
        res = fn(long[order])
        bad = [i for i in range(len(order)) if len(res) != len(order) or _b(res[i]) != alone20[order[i]]]
        if bad:
            viol.append(("history|%s|frame-depends-on-other-frames-of-a-long-trajectory" % name,
                         "%s: frame %d inside the 20-frame trajectory (%s) differs from the frame computed alone"
                         % (name, order[bad[0]], label), {"layer": "a", "fn": name, "seq": label}))
        else:
            nontrivial += 1
    # (a2b) a second protein with pi-helical (i -> i+5) hydrogen bonds that come and go between frames (1am7, frames of the
    # repository's 51-frame trajectory): the secondary-structure / hydrogen-bond functions on every ordered pair of 6 frames
    if name in ("dssp", "kabsch_sander", "wernet_nilsson", "baker_hubbard(per frame)"):
        try:
            import mdtraj as md
            alt = md.load(os.path.join(repo, "tests/data/1am7_corrected.xtc"), top=os.path.join(repo, "tests/data/1am7_protein.pdb"))[[0, 5, 9, 20, 35, 50]]
        except Exception:  # noqa  (test data not there: layer skipped)
            alt = None
        if alt is not None:
            fn_alt = functions(alt)[name]
            alone_alt = [_b(fn_alt(alt[k])[0]) for k in range(alt.n_frames)]
            for seq in itertools.permutations(range(alt.n_frames), 2):
                n += 1
                res = fn_alt(alt[list(seq)])
                bad = [i for i in range(2) if len(res) != 2 or _b(res[i]) != alone_alt[seq[i]]]
                if bad:
                    viol.append(("history|%s|frame-depends-on-predecessors" % name,
                                 "%s: frame %d of 1am7 computed at position %d of sequence %s differs from the frame computed alone"
                                 % (name, seq[bad[0]], bad[0], list(seq)), {"layer": "a", "fn": name, "seq": ["1am7"] + list(seq)}))
                    break
            else:
                nontrivial += 1
    # (a3) block boundaries: 1100 frames (a 9-residue fragment of the 20 models, tiled with a small drift, cell changing
    # shape every frame) evaluated in ONE call versus in chunks of 137 frames: code that processes frames in blocks
    # (1024, 512, 256 ...) and mis-advances a pointer at a block boundary gives other numbers for the late frames
    if name in LONG_FUNCTIONS:
        small = _long_traj(repo, 1100)
        fn_s = functions(small[:4])[name] if name not in ("rmsd(parallel)", "rmsd(serial)", "rmsd(atom_indices)", "superpose",
                                                         "superpose(atom_indices)", "lprmsd") else None
        if fn_s is not None:
            n += 1
            whole = fn_s(small)
            parts = []
            for lo in range(0, small.n_frames, 137):
                parts += fn_s(small[lo:lo + 137])
            bad = [k for k in range(small.n_frames) if len(whole) != small.n_frames or _b(whole[k]) != _b(parts[k])]
            if bad:
                viol.append(("history|%s|frame-depends-on-its-position-in-a-long-trajectory" % name,
                             "%s: frame %d of a %d-frame trajectory differs from the same frame evaluated in a 137-frame chunk "
                             "(%d frames differ, first at %d)" % (name, bad[0], small.n_frames, len(bad), bad[0]),
                             {"layer": "a", "fn": name, "seq": "1100-frames-vs-chunks"}))
            else:
                nontrivial += 1
    distinct_alone = len(set(alone.values()))
    return viol, n, nontrivial, distinct_alone


LONG_FUNCTIONS = ("distances(opt=True,periodic=True)", "distances(opt=False,periodic=True)", "distances(opt=True,periodic=False)",
                  "displacements", "angles", "angles(periodic=False)", "dihedrals", "phi", "center_coordinates",
                  "shrake_rupley(atom)", "neighbors", "contacts", "rg", "drid", "gyration_tensor", "center_of_mass",
                  "kabsch_sander", "dssp", "rmsf-free: inertia_tensor")


def _long_traj(repo, n):
    import mdtraj as md
    t = md.load(os.path.join(repo, "tests/data/2EQQ.pdb"))
    t = t.atom_slice(t.topology.select("resid 0 to 19"))
    k = np.arange(n)
    xyz = t.xyz[k % t.n_frames] + (0.0005 * k)[:, None, None].astype(np.float32)
    L = np.column_stack([np.full(n, 2.9), np.full(n, 2.9), 2.6 + 0.001 * k])
    A = np.tile(np.array([80.0, 95.0, 110.0]), (n, 1))
    A[0::3] = 90.0
    return md.Trajectory(xyz.astype(np.float32), t.topology, unitcell_lengths=L, unitcell_angles=A)


# ------------------------------------------------------------------------------------------------ layer (b)

def _mc_inputs(seed):
    rng = np.random.RandomState(3 + seed)
    return rng


def _sasa_call(nf, na, nsp, rng):
    xyz = (rng.rand(nf, na, 3) * 0.35).astype(np.float32)
    radii = np.full(na, 0.2, np.float32)
    amap = (np.arange(na) // 2).astype(np.int32)      # two atoms per group: += on a shared group slot
    ng = int(amap.max()) + 1
    mask = np.ones(na, np.int32)

    def call(lib):
        out = np.zeros((nf, ng), np.float32)
        lib.seam_sasa(nf, na, xyz.ctypes.data_as(ctypes.c_void_p), radii.ctypes.data_as(ctypes.c_void_p), nsp,
                      amap.ctypes.data_as(ctypes.c_void_p), mask.ctypes.data_as(ctypes.c_void_p), ng,
                      out.ctypes.data_as(ctypes.c_void_p))
        return out.tobytes()
    return call


def _center_call(nf, na, rng):
    xyz0 = (rng.rand(nf, na, 3) * 3).astype(np.float32)

    def call(lib):
        xyz = xyz0.copy()
        tr = np.zeros(nf, np.float32)
        lib.seam_center(xyz.ctypes.data_as(ctypes.c_void_p), tr.ctypes.data_as(ctypes.c_void_p), nf, na)
        return xyz.tobytes() + tr.tobytes()
    return call


def _nlist_call(na, rng, box):
    xyz = (rng.rand(na, 3) * 1.5).astype(np.float32)
    bx = None if box is None else np.asarray(box, np.float32)

    def call(lib):
        counts = np.zeros(na, np.int32)
        flat = np.zeros(na * na, np.int32)
        lib.seam_neighborlist.restype = ctypes.c_int
        lib.seam_neighborlist.argtypes = [ctypes.c_void_p, ctypes.c_int, ctypes.c_float, ctypes.c_void_p, ctypes.c_void_p,
                                          ctypes.c_void_p, ctypes.c_int]
        n = lib.seam_neighborlist(xyz.ctypes.data, na, 0.7, None if bx is None else bx.ctypes.data, counts.ctypes.data,
                                  flat.ctypes.data, na * na)
        return counts.tobytes() + flat[:n].tobytes()
    return call


def _selftest_call():
    def call(lib):
        lib.seam_selftest_racy_counter.restype = ctypes.c_int
        return repr(lib.seam_selftest_racy_counter(3)).encode()
    return call


def _selftest_dyn_call(racy):
    def call(lib):
        if racy:
            lib.seam_selftest_racy_counter_dynamic.restype = ctypes.c_int
            return repr(lib.seam_selftest_racy_counter_dynamic(4)).encode()
        out = np.zeros(7, np.int32)
        lib.seam_selftest_dynamic_sum.restype = ctypes.c_int
        r = lib.seam_selftest_dynamic_sum(7, out.ctypes.data_as(ctypes.c_void_p))
        return repr(r).encode() + out.tobytes()
    return call


def mc_job(args):
    kind, params, T, bound, seed, repo = args
    from vlib import build
    from vlib.sched import driver
    so = build.build_kernlib("ompseam", repo, "mc")
    mc = driver.MC(so)
    rng = _mc_inputs(seed)
    if kind == "sasa":
        call = _sasa_call(*params, rng)
    elif kind == "center":
        call = _center_call(*params, rng)
    elif kind == "nlist":
        call = _nlist_call(params[0], rng, params[1])
    elif kind == "selftest-dynamic-racy":
        call = _selftest_dyn_call(True)
    elif kind == "selftest-dynamic-sum":
        call = _selftest_dyn_call(False)
    else:
        call = _selftest_call()
    ref = mc.run(1, [], call)["out"]
    judge = lambda r: None if r["out"] == ref else "output differs from the 1-thread result"
    stats, fails = driver.explore(mc, T, call, bound, judge)
    # cross-validation of the conflict reduction: EVERY instrumented access as a scheduling point, every single
    # preemption there (bound 1, brute force); must see the same set of outputs
    stats["all_points_executions"] = 0
    stats["all_points"] = 0
    if not kind.startswith("selftest"):
        r0 = mc.run(T, [], call, all_points=True)
        stats["all_points"] = int(r0["steps"])
        if r0["steps"] <= 20000:
            for i in range(len(r0["tid"])):
                for alt in range(T):
                    if r0["tid"][i] == 255 or alt == r0["tid"][i] or not (r0["enabled"][i] >> alt) & 1:
                        continue
                    rr = mc.run(T, [(i, alt)], call, all_points=True)
                    stats["all_points_executions"] += 1
                    m = "deadlock at a barrier" if rr["deadlock"] else judge(rr)
                    if m and len(fails) < 5:
                        fails.append(([(i, alt)], m + " [all-points mode]"))
    # replay determinism: every reported schedule is executed twice
    viol = []
    for sched, msg in fails:
        ap = "[all-points mode]" in msg
        a = mc.run(T, sched, call, all_points=ap)["out"]
        b = mc.run(T, sched, call, all_points=ap)["out"]
        det = "deterministic" if a == b else "NOT deterministic on replay"
        viol.append(("mc|%s|%s" % (kind, msg.split(" ")[0]), "%s%s T=%d schedule %s: %s (%s)" % (kind, params, T, sched, msg, det),
                     {"layer": "b", "kind": kind, "params": list(params), "T": T, "schedule": [[int(x[0]), int(x[1])] for x in sched],
                      "all_points": "[all-points mode]" in msg}))
    return kind, params, T, stats, viol


def mcmod_job(args):
    """Layer (b2): the prange loops of a Cython module, explored in a fresh interpreter (vlib/sched/mcmod_run.py)."""
    mod, repo, ov, bound, seed = args
    import json
    script = os.path.join(os.path.dirname(os.path.dirname(os.path.abspath(__file__))), "vlib", "sched", "mcmod_run.py")
    env = dict(os.environ, OMP_NUM_THREADS="1", PYTHONHASHSEED="0")
    p = subprocess.run([sys.executable, script, mod, repo, ov, str(bound), str(seed)], env=env, stdout=subprocess.PIPE,
                       stderr=subprocess.PIPE, text=True, timeout=3000)
    if p.returncode != 0:
        return mod, None, p.stderr[-600:]
    return mod, json.loads(p.stdout.strip().splitlines()[-1])["results"], ""


# ------------------------------------------------------------------------------------------------ layer (c)

_FREE_SCRIPT = r'''
import sys, hashlib
sys.path.insert(0, %(verif)r)
from vlib import overlay
overlay.install(%(ov)r, %(repo)r)
from props import C08
import numpy as np
base = C08._frames(%(repo)r)
import mdtraj as md
t = base[[0, 1, 2, 3, 2, 1, 0]]
F = C08.functions(base)
for name in sorted(F):
    r = F[name](t)
    print(name, hashlib.sha1(b"#".join(C08._b(x) for x in r)).hexdigest())
'''


def free_job(args):
    nthreads, schedule, dynamic, rep, repo, ov = args
    dyn, _, lim = dynamic.partition(";limit=")
    env = dict(os.environ, OMP_NUM_THREADS=str(nthreads), OMP_SCHEDULE=schedule, OMP_DYNAMIC=dyn, OMP_WAIT_POLICY="passive",
               PYTHONHASHSEED="0")
    if lim:
        env["OMP_THREAD_LIMIT"] = lim       # the team is SMALLER than omp_get_max_threads(): deterministic, unlike OMP_DYNAMIC
    code = _FREE_SCRIPT % dict(verif=os.path.dirname(os.path.dirname(os.path.abspath(__file__))), ov=ov, repo=repo)
    p = subprocess.run([sys.executable, "-c", code], env=env, stdout=subprocess.PIPE, stderr=subprocess.PIPE, text=True, timeout=600)
    if p.returncode != 0:
        return (nthreads, schedule, dynamic, rep), None, p.stderr[-400:]
    return (nthreads, schedule, dynamic, rep), dict(l.rsplit(" ", 1) for l in p.stdout.strip().splitlines()), ""


def run(ctx):
    # ---------------- (a)
    names = sorted(functions(_frames(ctx.repo)))
    outs = ctx.pmap(history_job, [(n, ctx.repo) for n in names])
    a_exec = a_nontriv = 0
    flat_fns = []
    for (viol, n, nt, da), name in zip(outs, names):
        ctx.report(viol)
        a_exec += n
        a_nontriv += nt
        if da < 2:
            flat_fns.append(name)
    # ---------------- (b)
    from vlib import build
    seam_ok = True
    try:
        from vlib.sched import driver as _drv
        _drv.MC(build.build_kernlib("ompseam", ctx.repo, "mc"))      # built once here; the workers find it in the cache
    except Exception as e:  # noqa  (kernel signature changed, or an OpenMP construct the green-thread runtime does not provide)
        seam_ok = False
        print("WARNING C08: the schedule-exploration seam could not be built/loaded against this tree (%s: %s); layer (b) skipped"
              % (type(e).__name__, str(e)[:200]))
        ctx.assume("layer (b) (schedule exploration of the hand-written OpenMP kernels) skipped: seam not buildable against this tree: %s" % str(e)[:160])
    bound = 2 if ctx.quick else 3
    jobs = [("selftest", (), 2, 1, ctx.seed, ctx.repo), ("selftest-dynamic-racy", (), 2, 1, ctx.seed, ctx.repo),
            ("selftest-dynamic-sum", (), 3, 2, ctx.seed, ctx.repo)] if seam_ok else []
    for T in ((2, 3) if seam_ok else ()):
        jobs += [("sasa", (2, 3, 4), T, bound, ctx.seed, ctx.repo), ("sasa", (3, 2, 3), T, bound, ctx.seed, ctx.repo),
                 ("sasa", (4, 2, 2), T, bound, ctx.seed, ctx.repo),
                 ("center", (3, 5), T, bound, ctx.seed, ctx.repo), ("center", (5, 4), T, bound, ctx.seed, ctx.repo),
                 ("nlist", (5, None), T, bound, ctx.seed, ctx.repo), ("nlist", (6, [2.0, 2.0, 2.0] + [0.0] * 6), T, bound, ctx.seed, ctx.repo)]
    b2jobs = [(m, ctx.repo, ctx.overlay, 1 if ctx.quick else 2, ctx.seed) for m in ("mdtraj._rmsd", "mdtraj.geometry.drid")]
    for m in ("mdtraj._rmsd", "mdtraj.geometry.drid"):
        try:
            build.build_mc_module(m, ctx.repo)          # built once here; the subprocesses find it in the cache
        except Exception as e:  # noqa  (reported per module by mcmod_job below as 'could not run')
            print("WARNING C08: instrumented build of %s failed: %s" % (m, str(e)[:160]))
    import concurrent.futures as cf
    b2pool = cf.ThreadPoolExecutor(2)
    b2futs = [b2pool.submit(mcmod_job, j) for j in b2jobs]        # run while the other layers proceed
    mouts = ctx.pmap(mc_job, jobs)
    b_exec = b_points = 0
    b_table = []
    selftest_caught = False
    for kind, params, T, stats, viol in mouts:
        if kind == "selftest":
            selftest_caught = bool(viol)
            b_table.append({"kernel": "selftest racy counter", "T": T, "executions": stats["executions"], "caught": selftest_caught})
            continue
        if kind == "selftest-dynamic-racy":
            b_table.append({"kernel": "selftest racy counter in a schedule(dynamic,1) loop", "T": T, "executions": stats["executions"], "caught": bool(viol)})
            if not viol:
                ctx.violation("mc|selftest-dynamic|not-caught", "the explorer did not find the seeded lost update inside a dynamically scheduled "
                              "loop: chunk hand-out is not being explored", {"layer": "b", "kind": "selftest-dynamic-racy"})
            continue
        ctx.report(viol)
        b_exec += stats["executions"]
        b_points += stats["points"]
        b_table.append({"kernel": kind, "params": list(params), "T": T, "bound": stats["bound"], "executions": stats["executions"],
                        "scheduling_points": stats["points"], "free_choices": stats["free_choices"],
                        "conflicting_granules": stats["conflicting_granules"], "distinct_outputs": stats["distinct_outputs"],
                        "all_instrumented_accesses": stats["all_points"], "all_points_bound1_executions": stats["all_points_executions"]})
        b_exec += stats["all_points_executions"]
    if seam_ok and not selftest_caught:
        ctx.violation("mc|selftest|not-caught", "the explorer did not find the seeded lost update in the harness self-test: "
                      "schedule exploration is not working", {"layer": "b", "kind": "selftest"})
    # ---------------- (b2) results
    b2_table = []
    for fut in b2futs:
        mod, results, err = fut.result()
        if results is None:
            # the harness could not run (build/link/import of the instrumented module): not a statement about the property
            print("WARNING C08: instrumented-module exploration of %s could not run (%s); layer (b2) skipped for it" % (mod, str(err)[:200]))
            ctx.assume("layer (b2) skipped for %s: %s" % (mod, str(err)[:160]))
            continue
        for r in results:
            if r.get("error"):
                ctx.violation("mcmod|%s|harness" % mod, "%s: %s" % (r["call"], r["error"]), {"layer": "b2", "module": mod, "call": r["call"]})
                continue
            b_exec += r["executions"]
            b_points += r["scheduling_points"]
            b2_table.append({k: r[k] for k in ("call", "T", "bound", "executions", "scheduling_points", "free_choices",
                                               "conflicting_granules", "distinct_outputs", "parallel_regions")})
            for f in r["fails"]:
                ctx.violation("mcmod|%s|%s|output" % (mod, r["call"].split(" ")[0]),
                              "%s T=%d schedule %s: %s (replay deterministic: %s)" % (r["call"], r["T"], f["schedule"], f["msg"], f["replay_deterministic"]),
                              {"layer": "b2", "module": mod, "call": r["call"], "T": r["T"], "schedule": f["schedule"]})
    # ---------------- (c)
    reps = 2 if ctx.quick else 5
    threads = [1, 2, 3, 5, 8, 16, 40]
    cfgs = [(n, s, d, r, ctx.repo, ctx.overlay) for n in threads for s, d in (("static", "false"), ("dynamic", "false"), ("guided", "true"))
            for r in range(reps)]
    if ctx.quick:
        cfgs = [c for c in cfgs if c[1] == "static" or c[0] in (2, 5, 40)]
    cfgs += [(n, s, "false;limit=%d" % k, 0, ctx.repo, ctx.overlay) for n, s, k in ((4, "static", 2), (16, "static", 3), (8, "dynamic", 1), (5, "guided", 4))]
    fouts = ctx.pmap(free_job, cfgs, procs=8)
    ref = None
    c_ok = 0
    for cfg, dig, err in fouts:
        if dig is None:
            ctx.violation("free|run-failed", "free-running pass failed for %s: %s" % (cfg, err), {"layer": "c", "cfg": list(cfg)})
            continue
        if ref is None:
            ref = (cfg, dig)
            continue
        diff = sorted(k for k in dig if dig[k] != ref[1].get(k))
        if diff:
            ctx.violation("free|%s|differs-between-thread-configurations" % diff[0],
                          "%s gives different bits for %s and %s" % (diff, ref[0], cfg), {"layer": "c", "cfg": list(cfg), "ref": list(ref[0])})
        else:
            c_ok += 1
    return "model_checking", {
        "states": b_exec, "transitions": b_points, "traces_validated_against_impl": b_exec + a_exec + len(fouts),
        "samples": b_table[:6] + [{"layer": "a", "function": "shrake_rupley(atom)", "sequence": [2, 0, 2]}],
        "exhaustive": True,
        "layer_a_functions": len(names), "layer_a_executions": a_exec, "layer_a_nontrivial_sequences": a_nontriv,
        "layer_a_functions_with_identical_frames(vacuous)": flat_fns,
        "layer_b": b_table, "layer_b_preemption_bound": bound, "layer_b2_cython_prange": b2_table, "selftest_lost_update_caught": selftest_caught,
        "layer_c_configurations": len(fouts), "layer_c_identical": c_ok,
        "rule": "states = schedules executed in (b); transitions = scheduling points of the default schedules; (a) every "
                "ordered selection with repetition of 1..3 of 4 frames per function; (c) every listed OMP configuration",
    }


def replay(ctx, rep):
    if rep["layer"] == "a":
        v = history_job((rep["fn"], ctx.repo))[0]
        hit = [x for x in v if x[2]["seq"] == rep["seq"]] or ([x for x in v] if isinstance(rep["seq"], str) else [])
        v2 = history_job((rep["fn"], ctx.repo))[0]
        assert bool(v) == bool(v2), "not deterministic"
        print("replay:", [x[1] for x in hit][:1])
        return not hit
    if rep["layer"] == "b":
        from vlib import build
        from vlib.sched import driver
        mc = driver.MC(build.build_kernlib("ompseam", ctx.repo, "mc"))
        rng = _mc_inputs(ctx.seed)
        kind, params = rep["kind"], tuple(tuple(p) if isinstance(p, list) else p for p in rep.get("params", []))
        call = {"sasa": lambda: _sasa_call(*params, rng), "center": lambda: _center_call(*params, rng),
                "nlist": lambda: _nlist_call(params[0], rng, list(params[1]) if params[1] else None),
                "selftest": _selftest_call}[kind]()
        ref = mc.run(1, [], call)["out"]
        s = [tuple(x) for x in rep.get("schedule", [])]
        if not rep.get("all_points"):
            # the reduced mode needs the conflict set of this kernel call: recompute it as the explorer does
            driver.explore(mc, rep.get("T", 2), call, 0, lambda r: None)
        a = mc.run(rep.get("T", 2), s, call, all_points=bool(rep.get("all_points")))["out"]
        b = mc.run(rep.get("T", 2), s, call, all_points=bool(rep.get("all_points")))["out"]
        assert a == b, "replay not deterministic"
        print("replay: output %s the 1-thread result" % ("equals" if a == ref else "differs from"))
        return a == ref
    if rep["layer"] == "b2":
        mod, results, err = mcmod_job((rep["module"], ctx.repo, ctx.overlay, 1 if ctx.quick else 2, ctx.seed))
        bad = [r for r in (results or []) if r.get("fails")]
        print("replay:", [(r["call"], r["fails"][0]["msg"]) for r in bad][:3] or err)
        return not bad and results is not None
    r = free_job(tuple(rep["cfg"][:4]) + (ctx.repo, ctx.overlay))
    r0 = free_job(tuple(rep["ref"][:4]) + (ctx.repo, ctx.overlay))
    return r[1] == r0[1]
