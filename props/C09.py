"""C09 — observables are invariant under rigid motion and lattice translation.

Metamorphic, complete enumeration of a designed finite product:
 (1) non-periodic: structures x rotations (24 cube rotations + generic ones; quick 9) x translations {0, 0.37, 10, 300} nm
     (float32 cancellation regime): every listed observable of the moved system must equal its value before the move —
     continuous ones within an explicit float32 error model that grows with |x| + |T|, discrete ones identically unless a
     float64 re-evaluation puts the differing decision within that margin of its threshold (excluded, counted).
 (2) periodic: a 3-molecule system in each cell of the menu; EVERY single-atom shift by n in {-2..2}^3 \\ {0} lattice
     vectors for every atom, and whole-system translations: every minimum-image observable unchanged.
"""
import itertools
import os

import numpy as np

MANIFEST = {
    "category": "exploration",
    "engine": "gridx",
    "technique": "exhaustive enumeration of (structure x rotation group x translation) and of every single-atom lattice shift, "
                 "metamorphic comparison under a float32 error model with float64 margin analysis for discrete outputs",
    "text": "Non-periodic: 2 structures (2EQQ model with hydrogens, ACE-ALA-NME) x 30 rotations (quick 9) x translations "
            "{0, 0.37, 10, 300} nm: distances, angles, dihedrals (sign and magnitude), RMSD to a co-moved reference, Rg, "
            "gyration-tensor eigenvalues, principal moments, mass-weighted Rg / inertia eigenvalues / centre-of-mass distance, residue contacts, DRID, Kabsch-Sander energies/pattern, DSSP, "
            "baker_hubbard and wernet_nilsson sets, neighbour sets, SASA (translation: float32 model; rotation: within the "
            "quadrature bound 2*4*pi*R^2/sqrt(n) per atom). Periodic: an 11-atom 3-molecule system in the cells of the menu "
            "(quick 6+unreduced, thorough all) x every single-atom shift by n in {-2..2}^3 (124 per atom) and whole-system "
            "translations {0.37, 10, 300 nm, half a cell vector}: minimum-image distances, angles, dihedrals, neighbours, "
            "neighbour list, contacts and hydrogen bonds unchanged. Exhaustive over these axes.",
    "note": "The float32 model: a moved coordinate carries an error of up to 4 eps32 (|x|+|T|); distances 16 eps32 (|x|+|T|), "
            "derived bounds for the other observables are in the code next to each comparison and the largest observed "
            "error/tolerance ratio is in the evidence. Discrete outputs that differ are re-evaluated in float64 and excused only "
            "if the decision lies within that margin of its threshold. Periodic shifts are within 2 cells.",
    "ref": "DESIGN.md §3 C09",
}

EPS = float(np.finfo(np.float32).eps)


def _copy(t, xyz=None):
    import mdtraj as md
    kw = {}
    if t.unitcell_lengths is not None:
        kw = dict(unitcell_lengths=t.unitcell_lengths.copy(), unitcell_angles=t.unitcell_angles.copy())
    return md.Trajectory((t.xyz if xyz is None else xyz).astype(np.float32).copy(), t.topology, **kw)


# ----------------------------------------------------------------------------------------------- observables

def _index_sets(top, seed):
    n = top.n_atoms
    rng = np.random.RandomState(17)
    heavy = np.array([a.index for a in top.atoms if a.element.symbol != "H"])
    pairs = np.array([rng.choice(n, 2, replace=False) for _ in range(60)])
    near = []
    for b in list(top.bonds)[:40]:
        near.append((b[0].index, b[1].index))
    pairs = np.vstack([pairs, np.array(near)]) if near else pairs
    # bonded angle / dihedral paths from the bond graph (well conditioned)
    nb = {i: set() for i in range(n)}
    for b in top.bonds:
        nb[b[0].index].add(b[1].index)
        nb[b[1].index].add(b[0].index)
    trip, quad = [], []
    for j in range(n):
        for i, k in itertools.combinations(sorted(nb[j]), 2):
            trip.append((i, j, k))
    for (i, j, k) in trip:
        for l in sorted(nb[k] - {j, i}):
            quad.append((i, j, k, l))
    trip = np.array(trip[:: max(1, len(trip) // 60)][:60])
    quad = np.array(quad[:: max(1, len(quad) // 60)][:60])
    return dict(pairs=pairs, trip=trip, quad=quad, heavy=heavy)


def observe(t, ref, ix, periodic):
    """All observables of trajectory t (1..F frames).  Returns dict of arrays / python objects."""
    import mdtraj as md
    import warnings
    warnings.simplefilter("ignore")
    o = {}
    o["distances"] = md.compute_distances(t, ix["pairs"], periodic=periodic)
    if len(ix["trip"]):
        o["angles"] = md.compute_angles(t, ix["trip"], periodic=periodic)
    if len(ix["quad"]):
        o["dihedrals"] = md.compute_dihedrals(t, ix["quad"], periodic=periodic)
    if not periodic:
        o["rmsd"] = md.rmsd(_copy(t), _copy(ref), 0)
        o["rg"] = md.compute_rg(t)
        # mass-weighted variants (explicit mass vector that does not average to 1): a centre computed with another
        # normalisation than the weights cancels only at the origin
        masses = np.array([a.element.mass for a in t.topology.atoms])
        o["rg_masses"] = md.compute_rg(t, masses=masses)
        o["inertia_eig"] = np.sort(np.linalg.eigvalsh(md.compute_inertia_tensor(t)), axis=1)
        com = md.compute_center_of_mass(t)
        o["com_to_atom0"] = np.linalg.norm(t.xyz[:, 0, :].astype(np.float64) - com, axis=1)
        o["gyration_eig"] = np.sort(np.linalg.eigvalsh(md.compute_gyration_tensor(t)), axis=1)
        o["principal_moments"] = md.principal_moments(t)
        o["drid"] = md.compute_drid(t, atom_indices=ix["heavy"][:25])
        ks = md.kabsch_sander(t)
        o["ks"] = [m.toarray() for m in ks]
        try:
            o["dssp"] = md.compute_dssp(t, simplified=False)
        except Exception:  # noqa (no protein residues)
            o["dssp"] = None
        o["sasa"] = md.shrake_rupley(t, n_sphere_points=960)
        o["wn"] = [np.asarray(x) for x in md.wernet_nilsson(t, periodic=False)]
    nres = t.topology.n_residues
    cp = [[i, j] for i in range(nres) for j in range(i + 1, nres)][:40]
    o["contacts"] = md.compute_contacts(t, cp, scheme="closest-heavy", periodic=periodic)[0] if cp else np.zeros((t.n_frames, 0))
    # exclude_water=False: in the small periodic system the acceptor of the one designed hydrogen bond is a water oxygen
    o["bh"] = [md.baker_hubbard(t[f], freq=0.0, periodic=periodic, exclude_water=False) for f in range(t.n_frames)]
    q = ix["heavy"][:3]
    o["neighbors"] = [np.asarray(x) for x in md.compute_neighbors(t, ix["cutoff"], q, periodic=periodic)]
    if periodic:
        o["neighborlist"] = [[np.sort(np.asarray(x)) for x in md.compute_neighborlist(t, ix["cutoff"], frame=f, periodic=True)]
                             for f in range(t.n_frames)]
    else:
        # voxel sizes of the neighbour list depend on the bounding box along the laboratory axes: several cutoffs
        o["nlist_np"] = {c: [[np.sort(np.asarray(x)) for x in md.compute_neighborlist(t, c, frame=f, periodic=False)]
                             for f in range(t.n_frames)] for c in ix["nlist_cutoffs"]}
    return o


# ----------------------------------------------------------------------------------------------- comparison

class Cmp:
    def __init__(self, tag, rep):
        self.viol = []
        self.tag = tag
        self.rep = rep
        self.n = 0
        self.nontrivial = 0
        self.excluded = 0
        self.worst = {}

    def cont(self, name, a, b, tol, case):
        a, b = np.asarray(a, float), np.asarray(b, float)
        self.n += a.size
        if a.shape != b.shape:
            self.viol.append(("%s|%s|shape" % (self.tag, name), "%s: shapes %s vs %s (%s)" % (name, a.shape, b.shape, case), dict(self.rep, case=case)))
            return
        if a.size == 0:
            return
        e = np.abs(a - b) / tol
        w = float(np.nanmax(e))
        self.worst[name] = max(self.worst.get(name, 0.0), w)
        if w > 1:
            i = np.unravel_index(np.nanargmax(e), e.shape)
            self.viol.append(("%s|%s|changed" % (self.tag, name), "%s changed from %.7g to %.7g (allowed %.3g) under %s"
                              % (name, a[i], b[i], float(np.broadcast_to(tol, a.shape)[i]), case), dict(self.rep, case=case)))
        else:
            self.nontrivial += 1

    def bad(self, name, text, case):
        self.viol.append(("%s|%s|changed" % (self.tag, name), "%s under %s" % (text, case), dict(self.rep, case=case)))


def _angle64(x, i, j, k, disp=None):
    a = x[i] - x[j] if disp is None else disp(x[j], x[i])
    b = x[k] - x[j] if disp is None else disp(x[j], x[k])
    return np.degrees(np.arccos(np.clip(np.dot(a, b) / np.linalg.norm(a) / np.linalg.norm(b), -1, 1)))


def compare(c, o0, o1, f0, f1, x0, td, ix, case, periodic, mic_d=None, radii=None, rotated=False):
    """Compare observables of frame f0 of o0 with frame f1 of o1.  td = distance tolerance (nm) for this case."""
    dmin = 0.09                                                  # shortest bonded distance in the structures (nm)
    ta = 4 * td / dmin                                           # angle tolerance (rad): two bond vectors, each off by <= td
    c.cont("distances", o0["distances"][f0], o1["distances"][f1], td, case)
    if "angles" in o0:
        c.cont("angles", o0["angles"][f0], o1["angles"][f1], ta, case)
    if "dihedrals" in o0:
        d = o1["dihedrals"][f1] - o0["dihedrals"][f0]
        d = (d + np.pi) % (2 * np.pi) - np.pi
        c.cont("dihedrals", np.zeros_like(d), d, 8 * td / dmin, case)
    c.cont("contacts", o0["contacts"][f0], o1["contacts"][f1], td, case)
    if not periodic:
        scale = np.abs(x0 - x0.mean(0)).max()
        c.cont("rmsd", o0["rmsd"][f0], o1["rmsd"][f1], 2 * td + 64 * EPS * scale, case)
        c.cont("rg", o0["rg"][f0], o1["rg"][f1], td, case)
        c.cont("rg_masses", o0["rg_masses"][f0], o1["rg_masses"][f1], 2 * td, case)
        mtot = 12.0 * len(x0)
        c.cont("inertia_eig", o0["inertia_eig"][f0], o1["inertia_eig"][f1], 8 * mtot * scale * td + 1e-6, case)
        c.cont("com_to_atom0", o0["com_to_atom0"][f0], o1["com_to_atom0"][f1], 2 * td, case)
        c.cont("gyration_eig", o0["gyration_eig"][f0], o1["gyration_eig"][f1], 4 * scale * td, case)
        c.cont("principal_moments", o0["principal_moments"][f0], o1["principal_moments"][f1], 4 * scale * td, case)
        # DRID: moments of 1/d, d >= ~0.1 nm: |d(1/d)| <= td / d^2
        c.cont("drid", o0["drid"][f0], o1["drid"][f1], 3 * td / dmin ** 2 + 1e-6, case)
        # SASA
        s0, s1 = o0["sasa"][f0], o1["sasa"][f1]
        if rotated:
            tol = 2 * 4 * np.pi * radii ** 2 / np.sqrt(960.0) + 1e-6
        else:
            # translation only: the same points relative to each atom; a point flips only if it lies within td of a
            # neighbour's surface: allow 1% of the points of an atom (960 points) + float32
            tol = 0.01 * 4 * np.pi * radii ** 2 + 1e-6
        c.cont("sasa", s0, s1, tol, case)
        # Kabsch-Sander
        k0, k1 = o0["ks"][f0], o1["ks"][f1]
        mE = 1200.0 * td + 1e-4
        both = (k0 != 0) & (k1 != 0)
        if both.any():
            c.cont("ks-energies", k0[both], k1[both], mE, case)
        diff = np.argwhere((k0 != 0) != (k1 != 0))
        ks_same = len(diff) == 0
        for (a, d_) in diff:
            e = k0[a, d_] if k0[a, d_] != 0 else k1[a, d_]
            col = np.concatenate([k0[:, d_][k0[:, d_] != 0], k1[:, d_][k1[:, d_] != 0]])
            near_thr = abs(e + 0.5) < mE
            near_rank = any(abs(e - v) < 2 * mE for v in col if v != e)
            if near_thr or near_rank:
                c.excluded += 1
            else:
                c.bad("ks-pattern", "Kabsch-Sander bond acceptor %d -> donor %d (E=%.4f) appears/disappears" % (a, d_, e), case)
        # DSSP: identical unless the H-bond pattern is fragile or a CA bend is within margin of 70 degrees
        if o0["dssp"] is not None:
            if ks_same and not ix.get("bend_fragile", lambda m: False)(np.degrees(ta)):
                if not np.array_equal(o0["dssp"][f0], o1["dssp"][f1]):
                    w = np.nonzero(o0["dssp"][f0] != o1["dssp"][f1])[0]
                    c.bad("dssp", "DSSP code of residue %d changed %s -> %s" % (w[0], o0["dssp"][f0][w[0]], o1["dssp"][f1][w[0]]), case)
                else:
                    c.nontrivial += 1
            else:
                c.excluded += 1
        _cmp_sets(c, "wernet_nilsson", o0["wn"][f0], o1["wn"][f1], lambda tr: _wn_margin(x0, tr, td, ta), case)
    _cmp_sets(c, "baker_hubbard", o0["bh"][f0], o1["bh"][f1], lambda tr: _bh_margin(x0, tr, td, ta, mic_d), case)
    # neighbours
    a, b = set(o0["neighbors"][f0].tolist()), set(o1["neighbors"][f1].tolist())
    c.n += 1
    for at in a ^ b:
        q = ix["heavy"][:3]
        dd = min((np.linalg.norm(x0[at] - x0[qq]) if mic_d is None else mic_d(x0[qq], x0[at])) for qq in q if qq != at)
        if abs(dd - ix["cutoff"]) < 2 * td:
            c.excluded += 1
        else:
            c.bad("neighbors", "atom %d (distance %.6f, cutoff %.3f) enters/leaves the neighbour set" % (at, dd, ix["cutoff"]), case)
    if not (a ^ b):
        c.nontrivial += 1
    if not periodic:
        for cut, lists0 in o0["nlist_np"].items():
            n0, n1 = lists0[f0], o1["nlist_np"][cut][f1]
            c.n += 1
            clean = True
            for i, (u, v) in enumerate(zip(n0, n1)):
                for at in set(u.tolist()) ^ set(v.tolist()):
                    dd = np.linalg.norm(x0[i] - x0[at])
                    if abs(dd - cut) < 2 * td:
                        c.excluded += 1
                    else:
                        clean = False
                        c.bad("neighborlist(non-periodic)", "pair (%d,%d) at %.6f nm enters/leaves the neighbour list (cutoff %.3f)" % (i, at, dd, cut), case)
            if clean:
                c.nontrivial += 1
    if periodic:
        n0, n1 = o0["neighborlist"][f0], o1["neighborlist"][f1]
        for i, (u, v) in enumerate(zip(n0, n1)):
            for at in set(u.tolist()) ^ set(v.tolist()):
                dd = mic_d(x0[i], x0[at])
                if abs(dd - ix["cutoff"]) < 2 * td:
                    c.excluded += 1
                else:
                    c.bad("neighborlist", "pair (%d,%d) at %.6f nm enters/leaves the neighbour list (cutoff %.3f)" % (i, at, dd, ix["cutoff"]), case)


def _cmp_sets(c, name, s0, s1, margin_ok, case):
    a = set(map(tuple, np.asarray(s0).reshape(-1, 3).tolist()))
    b = set(map(tuple, np.asarray(s1).reshape(-1, 3).tolist()))
    c.n += 1
    if a == b:
        c.nontrivial += 1
        return
    for tr in a ^ b:
        if margin_ok(tr):
            c.excluded += 1
        else:
            c.bad(name, "%s triplet %s appears/disappears" % (name, tr), case)


def _bh_margin(x, tr, td, ta, mic_d):
    d, h, a = tr
    dist = np.linalg.norm(x[h] - x[a]) if mic_d is None else mic_d(x[h], x[a])
    if mic_d is None:
        ang = _angle64(x, d, h, a)
    else:
        ang = _angle64(x, d, h, a, disp=lambda p, q: mic_d(p, q, vec=True))
    return abs(dist - 0.25) < 2 * td or abs(ang - 120.0) < np.degrees(ta) + 1e-3


def _wn_margin(x, tr, td, ta):
    d, h, a = tr
    r = np.linalg.norm(x[d] - x[a])
    delta = _angle64(x, h, d, a)
    cut = 0.33 - 0.000044 * delta ** 2
    return abs(r - cut) < 2 * td + 2 * 0.000044 * delta * np.degrees(ta) + 1e-6


# ----------------------------------------------------------------------------------------------- non-periodic

def nonperiodic_job(args):
    sname, rot_idx, quick, seed, repo = args
    import mdtraj as md
    from vlib import grids
    if sname == "2EQQ":
        full = md.load(os.path.join(repo, "tests/data/2EQQ.pdb"))
    else:
        full = md.load(os.path.join(repo, "tests/data/native.pdb"))
        full = full.join(_copy(full, full.xyz * np.array([1.0, 1.02, 0.97]) + 0.01))
    t0 = _copy(full[0])
    ref0 = _copy(full[1])
    x0 = t0.xyz[0].astype(np.float64)
    ix = _index_sets(t0.topology, seed)
    ix["cutoff"] = 0.5
    ix["nlist_cutoffs"] = [0.45, 0.55, 0.65, 0.8, 1.0, 1.25]
    radii = np.array([{"H": 0.12, "C": 0.17, "N": 0.155, "O": 0.152, "S": 0.18}.get(a.element.symbol, 0.17) + 0.14 for a in t0.topology.atoms])
    ca = [a.index for a in t0.topology.atoms if a.name == "CA"]
    bends = np.array([_angle64(x0, ca[i - 2], ca[i], ca[i + 2]) for i in range(2, len(ca) - 2)]) if len(ca) > 4 else np.zeros(0)
    # DSSP bend: 180 - angle(CA[i-2]-CA[i], CA[i+2]-CA[i])' > 70  <=> angle between (i - (i-2)) and ((i+2) - i)
    kappas = np.array([np.degrees(np.arccos(np.clip(np.dot(x0[ca[i]] - x0[ca[i - 2]], x0[ca[i + 2]] - x0[ca[i]]) /
                       np.linalg.norm(x0[ca[i]] - x0[ca[i - 2]]) / np.linalg.norm(x0[ca[i + 2]] - x0[ca[i]]), -1, 1)))
                       for i in range(2, len(ca) - 2)]) if len(ca) > 4 else np.zeros(0)
    ix["bend_fragile"] = lambda m: bool(len(kappas)) and bool((np.abs(kappas - 70.0) < m + 1e-3).any())
    o0 = observe(t0, ref0, ix, False)
    rots = grids.rotations(quick, seed)
    R = rots[rot_idx]
    direction = np.array([0.36, -0.48, 0.8])
    c = Cmp("rigid|%s" % sname, {"kind": "rigid", "structure": sname, "rotation": rot_idx})
    for T in (0.0, 0.37, 10.0, 300.0):
        cen = x0.mean(0)
        mv = lambda x: ((x - cen) @ R.T + cen + T * direction)
        t1 = _copy(t0, mv(x0)[None])
        r1 = _copy(ref0, mv(ref0.xyz[0].astype(np.float64))[None])
        o1 = observe(t1, r1, ix, False)
        td = 16 * EPS * (np.abs(x0).max() + T + 1.0)
        rotated = not np.allclose(R, np.eye(3))
        compare(c, o0, o1, 0, 0, x0, td, ix, "rotation #%d, translation %g nm" % (rot_idx, T), False, radii=radii, rotated=rotated)
    if rot_idx == 0 and sname == "2EQQ":
        # a LARGE system (30 000 atoms in a 10 nm cube) far from the origin: centring must bring the centroid to the origin
        # wherever the system sits.  With the mean accumulated in double the residual is rounding of the stored float32
        # coordinates (<= ~1 ulp of the distance from the origin); sums accumulated in float32 lose it for 1e4+ atoms.
        n_big = 30000
        u = np.array([[grids.halton(i + 1 + 13 * seed, b) for b in (2, 3, 5)] for i in range(n_big)]) * 10.0
        btop = md.Topology()
        bch = btop.add_chain()
        bres = btop.add_residue("BIG", bch)
        for _ in range(n_big):
            btop.add_atom("C", md.element.carbon, bres)
        for Tv in ([0.0, 0.0, 0.0], [300.0, 0.0, 0.0], [-200.0, 250.0, 150.0], [123.0, -321.0, 217.0]):
            big = md.Trajectory((u + np.array(Tv))[None].astype(np.float32), btop)
            big.center_coordinates()
            resid = float(np.abs(big.xyz[0].astype(np.float64).mean(0)).max())
            tol = 4 * float(np.spacing(np.float32(np.abs(Tv).max() + 10.0)))
            c.n += 1
            c.worst["center-large-system"] = max(c.worst.get("center-large-system", 0.0), resid / tol)
            if resid > tol:
                c.viol.append(("rigid|large-system|center_coordinates|centroid-depends-on-position",
                               "30000 atoms translated by %s nm: centroid after center_coordinates() is %.3g nm from the origin (allowed %.3g)"
                               % (Tv, resid, tol), {"kind": "rigid", "structure": "2EQQ", "rotation": 0}))
            else:
                c.nontrivial += 1
    return c.viol, c.n, c.nontrivial, c.excluded, c.worst


# ----------------------------------------------------------------------------------------------- periodic

def _periodic_system(widths):
    """11 atoms: two waters (O,H,H) and CH3-NH-C=O like 5-atom chain with an N-H donor and O acceptor; returns
    (topology, coordinates in nm) with the whole system smaller than half the smallest width."""
    import mdtraj as md
    E = md.element
    top = md.Topology()
    ch = top.add_chain()
    s = min(1.0, 0.45 * widths.min() / 0.9)
    xyz = []
    for w in range(2):
        r = top.add_residue("HOH", ch)
        o = top.add_atom("O", E.oxygen, r)
        h1 = top.add_atom("H1", E.hydrogen, r)
        h2 = top.add_atom("H2", E.hydrogen, r)
        top.add_bond(o, h1)
        top.add_bond(o, h2)
        base = np.array([0.05 + 0.32 * w, 0.1, 0.12 * w])
        xyz += [base, base + [0.0957, 0.0, 0.0], base + [-0.024, 0.0927, 0.0]]
    r = top.add_residue("ALA", ch)
    n = top.add_atom("N", E.nitrogen, r)
    h = top.add_atom("H", E.hydrogen, r)
    ca = top.add_atom("CA", E.carbon, r)
    c_ = top.add_atom("C", E.carbon, r)
    o = top.add_atom("O", E.oxygen, r)
    for a, b in ((n, h), (n, ca), (ca, c_), (c_, o)):
        top.add_bond(a, b)
    # N-H points at the first water's oxygen (H...O ~ 0.2 nm): a hydrogen bond well inside the criteria
    xyz += [np.array([0.05, 0.1, 0.30]), np.array([0.05, 0.1, 0.20]), np.array([0.12, 0.2, 0.38]), np.array([0.25, 0.22, 0.36]),
            np.array([0.33, 0.14, 0.40])]
    x = np.array(xyz) * s
    return top, x, s


def periodic_job(args):
    cell, quick, seed = args
    import mdtraj as md
    from vlib.refmodels import mic
    V = cell["vectors"]
    widths = __import__("vlib.grids", fromlist=["x"]).cell_widths(V)
    top, x0, s = _periodic_system(widths)
    x0 = x0 + 0.3 * V.sum(0)          # somewhere inside the cell
    n = len(x0)
    ix = _index_sets(top, seed)
    ix["pairs"] = np.array(list(itertools.combinations(range(n), 2)))
    ix["cutoff"] = float(min(0.3 * s + 0.05, 0.45 * widths.min()))
    L, A = cell["lengths"], cell["angles"]

    def traj(X):
        # frame 0 is a decoy with an ORTHORHOMBIC cell of the same lengths (its results are not used): code that
        # takes a per-trajectory decision from the first frame's cell shape is exposed by the frames that follow
        X = np.concatenate([np.asarray(X[:1]), np.asarray(X)])
        F = len(X)
        Ls = np.array([L] * F)
        As = np.array([[90.0, 90.0, 90.0]] + [list(A)] * (F - 1))
        return md.Trajectory(np.asarray(X, np.float32), top, unitcell_lengths=Ls, unitcell_angles=As)

    def mic_d(p, q, vec=False):
        d, best, _n = mic.min_image(np.asarray(q, float) - np.asarray(p, float), V, 3)
        return best if vec else float(d)

    t0 = traj([x0])
    o0 = observe(t0, None, ix, True)
    shifts = [np.array(sft) for sft in itertools.product(range(-2, 3), repeat=3) if any(sft)]
    c = Cmp("lattice|%s" % cell["name"].split("+")[0] + ("+unreduced" if not cell["reduced"] else ""),
            {"kind": "lattice", "cell": cell["name"]})
    # every single-atom shift, all atoms: frames of one trajectory per atom
    for a in range(n):
        X = np.repeat(x0[None], len(shifts), axis=0)
        for f, sft in enumerate(shifts):
            X[f, a] = x0[a] + sft @ V
        o1 = observe(traj(X), None, ix, True)
        td = 16 * EPS * (np.abs(X).max() + 1.0)
        for f, sft in enumerate(shifts):
            compare(c, o0, o1, 1, f + 1, x0, td, ix, "atom %d shifted by %s cell vectors" % (a, sft.tolist()), True, mic_d=mic_d)
    # whole-system translations
    direction = np.array([0.36, -0.48, 0.8])
    moves = [0.37 * direction, 10 * direction, 300 * direction, 0.5 * V[0] + 0.25 * V[2], -1.5 * V[1]]
    X = np.array([x0 + m for m in moves])
    o1 = observe(traj(X), None, ix, True)
    for f, m in enumerate(moves):
        td = 16 * EPS * (np.abs(X[f]).max() + 1.0) * (1 + 0)  # wrapping a coordinate of size |T| costs eps32 |T|
        compare(c, o0, o1, 1, f + 1, x0, td, ix, "whole system translated by %s nm" % np.round(m, 3).tolist(), True, mic_d=mic_d)
    return c.viol, c.n, c.nontrivial, c.excluded, c.worst


def run(ctx):
    from vlib import grids
    nrot = len(grids.rotations(ctx.quick, ctx.seed))
    jobs = [(s, r, ctx.quick, ctx.seed, ctx.repo) for s in ("2EQQ", "native") for r in range(nrot)]
    outs = ctx.pmap(nonperiodic_job, jobs)
    cells = grids.cell_menu(quick=ctx.quick)
    pouts = ctx.pmap(periodic_job, [(c, ctx.quick, ctx.seed) for c in cells])
    n = nt = ex = 0
    worst = {}
    for v, a, b, e, w in list(outs) + list(pouts):
        ctx.report(v)
        n += a
        nt += b
        ex += e
        for k, x in w.items():
            worst[k] = max(worst.get(k, 0.0), x)
    return "exploration", {
        "evaluations": n, "distinct_nontrivial": nt,
        "rule": "one comparison per (observable, structure, rotation, translation) and per (observable, cell, atom, lattice "
                "shift); counted non-trivial when the comparison was made and passed; discrete differences excused only "
                "after a float64 margin check",
        "samples": [{"structure": "2EQQ", "rotation": 3, "translation_nm": 300.0},
                    {"cell": cells[-1]["name"], "atom": 7, "shift": [-2, 1, 0]}],
        "exhaustive": True, "excluded_within_margin": ex,
        "max_err_over_tol": {k: round(v, 4) for k, v in sorted(worst.items())},
        "axes": {"rotations": nrot, "translations_nm": [0, 0.37, 10, 300], "cells": [c["name"] for c in cells],
                 "lattice_shifts_per_atom": 124, "atoms": 11},
    }


def replay(ctx, rep):
    from vlib import grids
    if rep["kind"] == "rigid":
        a = nonperiodic_job((rep["structure"], rep["rotation"], ctx.quick, ctx.seed, ctx.repo))[0]
        b = nonperiodic_job((rep["structure"], rep["rotation"], ctx.quick, ctx.seed, ctx.repo))[0]
    else:
        cell = [c for c in grids.cell_menu(quick=False) if c["name"] == rep["cell"]][0]
        a = periodic_job((cell, ctx.quick, ctx.seed))[0]
        b = periodic_job((cell, ctx.quick, ctx.seed))[0]
    print("replay:", [x[1] for x in a][:3])
    assert [x[0] for x in a] == [x[0] for x in b], "not deterministic"
    return not [x for x in a if x[2].get("case") == rep.get("case")] if rep.get("case") else not a
