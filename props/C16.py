"""C16 — derived descriptors equal their defining (documented) formulas; returned labels index their values.

Complete enumeration of a finite product: designed structures x frames x the option axes of every descriptor
family, each returned entry recomputed in float64 from the label it is returned with (vlib/refmodels/desc_*).
"""
import itertools
import math
import warnings

import numpy as np

MANIFEST = {
    "category": "exploration",
    "engine": "gridx",
    "technique": "complete enumeration of a designed finite product of structures and options against independent "
                 "float64 closed-form oracles, every returned entry recomputed from its label",
    "text": "Structures {hand-built 3-chain system with GLY, N-terminal H1-3, C-terminal OXT, ACE/NME caps without CA, "
            "Na+/Cl-, waters, in an orthorhombic per-frame-varying cell, a triclinic cell, no cell, without hydrogens, "
            "45 nm from the origin; fragments of 2EQQ.pdb and 1vii_sustiva_water.pdb; 48 waters} x 3 frames x "
            "compute_contacts {5 schemes x ('all' x ignore_nonprotein, 4 explicit pair lists incl. adjacent, reversed, "
            "repeated, inter-chain, cap/ion/water residues) x periodic x soft_min (off, beta 20, 5, 2)} + squareform; "
            "centre of mass (select strings)/geometry; compute_rg x 4 mass vectors; gyration/inertia tensors, principal "
            "moments, asphericity, acylindricity, relative shape anisotropy; density x mass vectors; compute_rdf x "
            "r_range x bin_width/n_bins x periodic x opt x pair sets and compute_rdf_t; compute_drid x atom subsets "
            "(sorted, unsorted, bond-cutting); directors/nematic order x {chains, residues, explicit groups}; dipole "
            "moments (incl. ion/water systems spread over a small triclinic cell so that residue origins are reached through periodic images), static dielectric, isothermal compressibility; the same descriptors on topology objects EDITED IN PLACE after a first round of calls (elements; a residue renamed), argument arrays must come back unmodified, one topology with residue atoms interleaved in index order; the three Karplus J-couplings x coefficient sets. "
            "Quick: 7 structures, reduced RDF/soft-min axes; thorough: all 11 structures, the hand-built system in the 6 cells of the shared cell menu (contacts), and all axes. Oracle: the "
            "documented closed form in float64 on the same float32 coordinates, masses and cell (minimum image by "
            "brute force over images); tolerance from a float32/float64 error model per quantity. Right level: the "
            "defects the property names (offset bookkeeping, bin conventions, normalisation) are functions of a few "
            "discrete axes, which are enumerated completely.",
    "note": "Bounded to the listed structures (<= 233 atoms, 3 frames). Where a docstring gives no formula the cited "
            "paper / in-source comment is used and named in desc_oracles.py (RDF normalisation, DRID, dielectric, "
            "kappa_T, Rg). Not judged (counted): residue pairs whose scheme designates no atom, soft-min overflow of "
            "float32 exp (documented caveat), inter-chain pairs under contacts='all', whether terminal OXT/H1-3 belong to "
            "the side chain (library predicate pinned by test_selection; both readings accepted), skewed-cell distances beyond "
            "half the cell width, degenerate inertia tensors, kappa_T's estimator (ddof 0 or 1), rdf_t period_length. "
            "Element masses, Residue.is_protein and Topology.select are inputs (C04/C12). thermal_expansion_alpha_P "
            "raises NotImplementedError and is not covered.",
    "ref": "DESIGN.md §3 C16, §2.4",
}

from vlib.refmodels import desc_oracles as do
from vlib.refmodels import desc_structs as ds

EPS32 = do.EPS32
EPS64 = do.EPS64
FLT_LOGMAX = math.log(float(np.finfo(np.float32).max))

_G = {"repo": None, "seed": 0, "traj": {}, "tab": {}, "x64": {}, "vec": {}, "dm": {}}

SCHEMES = ["ca", "closest", "closest-heavy", "sidechain", "sidechain-heavy"]


# =========================================================================================================
# shared state (built in the parent before fork)


def _md():
    import mdtraj as md
    return md


def _load(name):
    if name not in _G["traj"]:
        md = _md()
        if "@" in name:
            t = _edited(md, ds.get(md, _G["repo"], name.split("@")[0], _G["seed"]), rename=name.endswith("@renamed"))
        else:
            t = ds.get(md, _G["repo"], name, _G["seed"])
        _G["traj"][name] = t
        _G["tab"][name] = ds.table(t)
        _G["x64"][name] = t.xyz.astype(np.float64)
        _G["vec"][name] = None if t.unitcell_vectors is None else t.unitcell_vectors.astype(np.float64)
    return _G["traj"][name]


def _edited(md, t, rename=False):
    """The SAME Trajectory/Topology objects after a first round of descriptor calls and an in-place edit of the
    topology (elements -> masses, one residue name -> is_protein): every topology reachable by editing is a
    topology of the property, and anything remembered from the first round (masses, selections, residue classes,
    pair lists) must not survive the edit.  The oracle tables are built AFTER the edit."""
    with warnings.catch_warnings():
        warnings.simplefilter("ignore")
        for call in (lambda: md.compute_center_of_mass(t), lambda: md.compute_center_of_mass(t, select="protein"),
                     lambda: md.compute_center_of_geometry(t), lambda: md.compute_rg(t), lambda: md.compute_inertia_tensor(t),
                     lambda: md.compute_gyration_tensor(t), lambda: md.density(t), lambda: md.compute_drid(t),
                     lambda: md.compute_directors(t), lambda: md.compute_nematic_order(t),
                     lambda: t.topology.select("protein and sidechain"), lambda: t.topology.select("mass > 13"),
                     lambda: [md.compute_contacts(t, contacts="all", scheme=sc) for sc in SCHEMES],
                     lambda: md.compute_contacts(t, contacts="all", scheme="closest-heavy", ignore_nonprotein=False),
                     lambda: (md.compute_phi(t), md.compute_psi(t)), lambda: md.Trajectory(t.xyz.copy(), t.topology).center_coordinates(mass_weighted=True)):
            try:
                call()
            except Exception:  # noqa: BLE001  (a descriptor undefined for this structure: nothing to remember)
                pass
    swap = {"CB": md.element.nitrogen, "O": md.element.sulfur, "OW": md.element.sulfur}
    for a in t.topology.atoms:
        if a.name in swap and a.residue.index % 2 == 0:
            a.element = swap[a.name]
    prot = [r for r in t.topology.residues if r.is_protein and r.name not in ("ACE", "NME")]
    if rename and len(prot) >= 5:      # separate variant: a residue name is part of Topology.__hash__, an element is not
        prot[len(prot) // 2].name = "LIG"       # a mid-chain residue becomes non-protein
    return t


def _dmat(name, periodic):
    """All-pairs float64 distance matrices per frame (minimum image by brute force when periodic and a cell exists)."""
    _load(name)
    vec = _G["vec"][name]
    per = bool(periodic and vec is not None)
    key = (name, per)
    if key not in _G["dm"]:
        x = _G["x64"][name]
        out = []
        for f in range(x.shape[0]):
            if per:
                from vlib.refmodels import mic
                out.append(mic.mic_distance_matrix(x[f], vec[f], R=2 if np.allclose(vec[f], np.diag(np.diag(vec[f]))) else 3))
            else:
                d = x[f][:, None, :] - x[f][None, :, :]
                out.append(np.sqrt((d * d).sum(-1)))
        _G["dm"][key] = np.array(out)
    return _G["dm"][key]


def _half_width(name, f):
    from vlib import grids
    vec = _G["vec"][name]
    if vec is None:
        return np.inf
    v = vec[f]
    if np.allclose(v, np.diag(np.diag(v))):
        return np.inf           # orthorhombic: the float32 kernel is exact minimum image at any distance (C05)
    return 0.5 * grids.cell_widths(v).min()


class Res:
    """Per-job accumulator returned by the workers."""

    def __init__(self, job):
        self.job = job
        self.evals = 0
        self.calls = 0
        self.nontriv = set()
        self.excluded = {}
        self.ratio = {}
        self.records = []
        self.sample = None
        self.notes = {}

    def excl(self, why, n=1):
        self.excluded[why] = self.excluded.get(why, 0) + n

    def note(self, k, n=1):
        self.notes[k] = self.notes.get(k, 0) + n

    def cmp(self, desc, got, want, tol):
        """|got - want| <= tol elementwise; records the margin; returns the worst ratio."""
        got = np.asarray(got, np.float64)
        want = np.asarray(want, np.float64)
        tol = np.broadcast_to(np.asarray(tol, np.float64), want.shape)
        err = np.abs(got - want)
        with np.errstate(divide="ignore", invalid="ignore"):
            r = np.where(tol > 0, err / tol, np.where(err == 0, 0.0, np.inf))
        r = np.where(np.isnan(got) | np.isnan(want), np.inf, r)
        self.evals += int(want.size)
        worst = float(r.max()) if r.size else 0.0
        if worst <= 1.0:
            self.ratio[desc] = max(self.ratio.get(desc, 0.0), worst)
        return worst

    def viol(self, sig, detail):
        fam, struct, opts = self.job
        if struct == "ilv":
            sig += "|interleaved-residues"
        self.records.append((sig, "%s %s %s: %s" % (fam, struct, opts, detail),
                             {"job": [fam, struct, opts], "seed": _G["seed"], "sig": sig}))

    def pack(self):
        return dict(job=self.job, evals=self.evals, calls=self.calls, nontriv=len(self.nontriv), excluded=self.excluded,
                    ratio=self.ratio, records=self.records, sample=self.sample, notes=self.notes)


# =========================================================================================================
# compute_contacts + squareform


def contact_lists(tab):
    """Explicit residue-pair lists (empty when the structure is too small for one)."""
    n = len(tab["residues"])
    P = [r["i"] for r in tab["residues"] if r["prot"]]
    e1 = [(i, i + 1) for i in range(min(6, n - 1))] + [(i, i + 2) for i in range(min(3, n - 2))]
    e1 += [(0, n - 1), (1, n - 2), (n - 3, 2)]
    e2 = [(n - 1 - k, k) for k in range(4)] + [(4, 1), (4, 1)] + ([(7, 12)] if n > 12 else [])
    # BOTH orientations of a pair in one list (what itertools.product(group, group) of the docstring idiom produces)
    if n > 5:
        e2 += [(1, 3), (3, 1), (5, 2), (2, 5)]
    e3 = []
    if len(P) >= 4:
        e3 = [(P[i], P[i + 1]) for i in range(min(4, len(P) - 1))]
        e3 += [(P[0], P[-1]), (P[-1], P[2]), (P[1], P[-2]), (P[3], P[1])]
        if len(P) >= 6:
            e3 += [(P[len(P) // 2], P[len(P) // 2 + 1])]
    Q = [r["i"] for r in tab["residues"] if r["prot"] and r["name"] != "GLY" and has_ca_tab(tab, r["i"])]
    e4 = []
    if len(Q) >= 3:
        e4 = [(Q[i], Q[i + 1]) for i in range(len(Q) - 1)] + [(Q[-1], Q[0]), (Q[len(Q) // 2], Q[1])]
    return {"E1": e1, "E2": e2, "E3": e3, "E4": e4}


def has_ca_tab(tab, ri):
    return do.has_ca(tab, ri)


def _contacts_jobs(structs, quick):
    jobs = []
    betas = [None, 20, 5.0] if quick else [None, 20, 5.0, 2]
    for s in structs:
        for scheme in SCHEMES:
            for spec in ("all+ign", "all-ign", "E1", "E2", "E3", "E4"):
                for periodic in ((True,) if s.startswith("pepc_") else (True, False)):
                    jobs.append(("contacts", s, dict(scheme=scheme, contacts=spec, periodic=periodic, betas=betas)))
    return jobs


def _contacts(job):
    md = _md()
    fam, name, o = job
    R = Res(job)
    traj = _load(name)
    tab = _G["tab"][name]
    scheme, spec, periodic = o["scheme"], o["contacts"], o["periodic"]
    D = _dmat(name, periodic)
    nF = traj.n_frames
    memb = {fl: do.membership(tab, scheme, fl) for fl in ("lib", "strict")}
    vec = _G["vec"][name]
    per = bool(periodic and vec is not None)
    Lsum = 0.0 if not per else float(np.abs(vec).sum(axis=(1, 2)).max())
    if spec.startswith("all"):
        ign = spec == "all+ign"
        arg = "all"
        same, inter = do.all_pairs_documented(tab, ign)
        req = None
    else:
        ign = True
        req = contact_lists(tab)[spec]
        if not req:
            R.excl("structure too small for this explicit pair list")
            return R.pack()
        arg = [list(p) for p in req] if spec == "E2" else np.array(req)      # array-like: list of lists / ndarray

    for beta in o["betas"]:
        kw = dict(contacts=arg, scheme=scheme, ignore_nonprotein=ign, periodic=periodic)
        if beta is not None:
            kw["soft_min"] = True
            if beta != 20:
                kw["soft_min_beta"] = beta     # beta == 20 exercises the documented default
        tag = "soft" if beta is not None else "min"
        R.calls += 1
        # which pairs does the documentation define a value for?
        cand = list(same) if req is None else list(req)
        if scheme == "ca":
            cand_def = [p for p in cand if len(memb["lib"][p[0]]) == 1 and len(memb["lib"][p[1]]) == 1]
            multi = [p for p in cand if len(memb["lib"][p[0]]) > 1 or len(memb["lib"][p[1]]) > 1]
            undefined_call = bool(multi)
        else:
            undefined_call = any(len(memb["lib"][a]) == 0 or len(memb["lib"][b]) == 0 for a, b in cand)
        try:
            with warnings.catch_warnings():
                warnings.simplefilter("ignore")
                try:
                    dist, pairs = md.compute_contacts(traj, **kw)
                except ValueError as e:
                    lacking = req is not None and any(not (do.has_ca(tab, a) and do.has_ca(tab, b)) for a, b in req)
                    if not (scheme == "ca" and isinstance(arg, np.ndarray) and lacking and "truth value" in str(e)):
                        raise
                    # documented: such pairs are ignored (with a warning); the ndarray is compared with the string "all"
                    if beta is None:
                        R.viol("contacts|ca|raised|ndarray-contacts-with-a-residue-lacking-CA",
                               "contacts given as ndarray incl. a residue without CA: raised ValueError: %s (documented: the pair "
                               "is ignored)" % e)
                    kw["contacts"] = arg.tolist()       # same request as a list of lists: judged below
                    dist, pairs = md.compute_contacts(traj, **kw)
        except Exception as e:  # noqa: BLE001
            msg = "%s: %s" % (type(e).__name__, e)
            if req is None and not cand and "No acceptable residue pairs" in str(e):
                R.note("all: no acceptable pairs (documented error)")
                continue
            if scheme == "ca" and not [p for p in cand if do.has_ca(tab, p[0]) and do.has_ca(tab, p[1])]:
                R.excl("ca: no requested pair has an alpha carbon on both sides (empty result undocumented): raised")
                continue
            if undefined_call:
                R.excl("call raised for a pair whose scheme designates no atoms (documentation silent)")
                continue
            R.viol("contacts|%s|raised" % scheme, "raised %s" % msg)
            continue
        pairs = np.asarray(pairs).reshape(-1, 2)
        dist = np.asarray(dist)
        # ---- labels --------------------------------------------------------------------------------
        got_pairs = [tuple(int(v) for v in p) for p in pairs]
        if req is None:
            bad = [p for p in got_pairs if not (p[1] - p[0] >= 3)]
            if bad:
                R.viol("contacts|%s|labels|all-returns-neighbour-pairs" % scheme, "pairs with j-i<3 returned: %s" % bad[:5])
            if ign:
                noca = [p for p in got_pairs if not (do.has_ca(tab, p[0]) and do.has_ca(tab, p[1]))]
                if noca:
                    R.viol("contacts|%s|labels|ignore_nonprotein-returns-residue-without-CA" % scheme, str(noca[:5]))
            exp_same = same if scheme != "ca" else [p for p in same if do.has_ca(tab, p[0]) and do.has_ca(tab, p[1])]
            gs = set(got_pairs)
            missing = [p for p in exp_same if p not in gs]
            extra = [p for p in got_pairs if p not in set(exp_same) and p not in set(inter)]
            if missing or extra or len(gs) != len(got_pairs):
                R.viol("contacts|%s|labels|all-pair-set" % scheme,
                       "missing %s extra %s dup %d" % (missing[:5], extra[:5], len(got_pairs) - len(gs)))
            n_inter = len([p for p in got_pairs if p in set(inter)])
            R.excl("inter-chain pairs under 'all' (docstring ambiguous; candidates, not judged)", len(inter))
            R.note("inter-chain pairs returned by 'all'", n_inter)
        else:
            exp = list(req) if scheme != "ca" else [p for p in req if do.has_ca(tab, p[0]) and do.has_ca(tab, p[1])]
            if got_pairs != exp:
                R.viol("contacts|%s|labels|explicit-pairs-not-mirrored" % scheme, "got %s want %s" % (got_pairs[:8], exp[:8]))
        if dist.shape != (nF, len(got_pairs)):
            R.viol("contacts|%s|shape" % scheme, "distances %s for %d pairs" % (dist.shape, len(got_pairs)))
            continue
        # ---- values: every entry recomputed from its label ---------------------------------------
        for k, (ra, rb) in enumerate(got_pairs):
            ml_a, ml_b = memb["lib"][ra], memb["lib"][rb]
            if not ml_a or not ml_b:
                if beta is None and np.isfinite(dist[:, k]).any():
                    # a finite number cannot be "the minimum over the atom pairs the scheme designates" when it
                    # designates none (the unchanged code raises for such a request; nan/inf would not be judged)
                    R.viol("contacts|%s|value|min|distance-reported-for-pair-without-designated-atoms" % scheme,
                           "pair (%d,%d): the scheme designates no atom pair, yet distance %r is returned" % (ra, rb, float(dist[0, k])))
                else:
                    R.excl("entry for a pair whose scheme designates no atoms (documentation silent)", nF)
                continue
            ms_a, ms_b = memb["strict"][ra], memb["strict"][rb]
            for f in range(nF):
                sub = D[f][np.ix_(ml_a, ml_b)]
                hw = _half_width(name, f)
                if beta is None:
                    want = sub.min()
                    if want >= hw:
                        R.excl("skewed cell: minimum beyond half the cell width (C05 scope)")
                        continue
                    tol = 8 * EPS32 * (want + Lsum)
                else:
                    if sub.max() >= hw:
                        R.excl("skewed cell: a designated pair beyond half the cell width (C05 scope)")
                        continue
                    if sub.min() <= 0 or beta / sub.min() > FLT_LOGMAX - math.log(sub.size) - 0.1:
                        R.excl("soft_min: exp(beta/d) overflows float32 (documented caveat)")
                        continue
                    want = do.soft_min(sub.ravel(), beta)
                    tol = 8 * EPS32 * (sub.min() + Lsum) + 8 * EPS32 * want
                got = float(dist[f, k])
                differs = (ms_a != ml_a or ms_b != ml_b) and ms_a and ms_b
                want2 = None
                if scheme.startswith("sidechain") and differs:
                    sub2 = D[f][np.ix_(ms_a, ms_b)]
                    want2 = sub2.min() if beta is None else do.soft_min(sub2.ravel(), beta)
                if want2 is None:
                    r = R.cmp("contacts:%s:%s" % (scheme, tag), got, want, tol)
                else:           # two readings of "side chain": the margin statistic takes the better-matching one
                    r = abs(got - want) / tol
                    rb_ = min(r, abs(got - want2) / tol)
                    R.evals += 1
                    if rb_ <= 1.0:
                        dk = "contacts:%s:%s" % (scheme, tag)
                        R.ratio[dk] = max(R.ratio.get(dk, 0.0), rb_)
                key = (k, ra, rb, f, tag, beta)
                if sub.size >= 2:
                    R.nontriv.add(key)
                if R.sample is None and sub.size >= 4:
                    R.sample = dict(call="compute_contacts(%s, contacts=%s, scheme=%s, periodic=%s, soft_min_beta=%s)" % (
                        name, spec, scheme, periodic, beta), label=[ra, rb], frame=f, n_atom_pairs=int(sub.size),
                        got=got, oracle=float(want), tol=float(tol))
                generic = False
                if want2 is None:
                    generic = r > 1.0
                else:
                    # the two readings of "side chain" differ for this pair; a value matching neither is a bookkeeping error
                    if abs(got - want2) <= tol:
                        if r > 1.0:
                            R.note("side-chain entries equal to the value WITHOUT terminal OXT/H1-3 (chemical reading only)")
                    elif r <= 1.0:
                        # Atom.is_sidechain ("name not in {C,CA,N,O,HA,H}", pinned by tests/test_selection.py::test_sidechain)
                        # counts terminal OXT/H1-3 as side chain; the contact docstring does not define "side chain":
                        # either reading is accepted, the occurrence is recorded
                        R.excl("side-chain entry equals the value with terminal OXT/H1-3 counted as side chain "
                               "(library predicate; chemical reading differs; not judged)")
                    else:
                        generic = True
                if generic:
                    R.viol("contacts|%s|value|%s|label-does-not-index-its-value" % (scheme, tag),
                           "pair %s frame %d got %.7g oracle %.7g tol %.2g (n atom pairs %d)" % (
                               (ra, rb), f, got, want, tol, sub.size))
        # ---- squareform ------------------------------------------------------------------------------
        if len(got_pairs):
            cm = md.geometry.squareform(dist, pairs)
            nres = max(max(p) for p in got_pairs) + 1
            ok = cm.shape == (nF, nres, nres)
            if ok:
                # every entry of the map is a value the pair {a, b} was returned with (a pair may be listed more than once
                # and in both orientations; which of its values lands in the map is not specified), all others are zero
                vals = {}
                for k, (a, b) in enumerate(got_pairs):
                    vals.setdefault((min(a, b), max(a, b)), []).append(dist[:, k])
                rest = cm.copy()
                for (a, b), cand in vals.items():
                    for (i, j) in ((a, b), (b, a)):
                        col = cm[:, i, j]
                        hit = np.zeros(nF, bool)
                        for v in cand:
                            hit |= (col == v) | (np.isnan(col) & np.isnan(v))
                        ok = ok and bool(hit.all())
                        rest[:, i, j] = 0
                ok = ok and not np.any(rest)
                R.evals += int(cm.size)
            if not ok:
                R.viol("contacts|squareform", "contact map differs from distances scattered by residue_pairs")
    return R.pack()


# =========================================================================================================
# centres, Rg, tensors, shape

SELECTS = [None, "protein", "name CA", "water", "resid 1 to 3", "not protein"]


def _subset(tab, sel):
    A = tab["atoms"]
    if sel is None:
        return [a["i"] for a in A]
    if sel == "protein":
        return [a["i"] for a in A if a["prot"]]
    if sel == "not protein":
        return [a["i"] for a in A if not a["prot"]]
    if sel == "name CA":
        return [a["i"] for a in A if a["name"] == "CA"]
    if sel == "water":
        return [a["i"] for a in A if a["rn"] in ("HOH", "WAT", "SOL", "H2O")]
    if sel == "resid 1 to 3":
        return [a["i"] for a in A if 1 <= a["res"] <= 3]
    raise ValueError(sel)


def _mass_vectors(tab):
    n = len(tab["atoms"])
    el = np.array([a["mass"] for a in tab["atoms"]])
    return {"none": None, "element": el, "ramp": 1.0 + np.arange(n, dtype=float) ** 2 / n, "equal": np.full(n, 12.011)}


def _centres(job):
    md = _md()
    fam, name, o = job
    R = Res(job)
    traj = _load(name)
    tab = _G["tab"][name]
    X = _G["x64"][name]
    m_all = np.array([a["mass"] for a in tab["atoms"]])
    for sel in SELECTS:
        idx = _subset(tab, sel)
        if not idx:
            R.excl("empty selection")
            continue
        R.calls += 1
        got = md.compute_center_of_mass(traj) if sel is None else md.compute_center_of_mass(traj, select=sel)
        want = np.array([do.center_of_mass(X[f][idx], m_all[idx]) for f in range(len(X))])
        S = np.abs(X[:, idx]).max()
        tol = 4 * len(idx) * EPS64 * S
        if got.shape != want.shape or R.cmp("center_of_mass", got, want, tol) > 1:
            R.viol("com|select=%s" % ("none" if sel is None else "string"), "select=%r got %s want %s" % (sel, got[0], want[0]))
        R.nontriv.add(("com", sel))
        if sel is not None:       # the same atoms as an atom subset of the trajectory
            got2 = md.compute_center_of_mass(traj.atom_slice(idx))
            if R.cmp("center_of_mass", got2, want, tol) > 1:
                R.viol("com|atom_slice", "select=%r" % sel)
            gotg = md.compute_center_of_geometry(traj.atom_slice(idx))
        else:
            gotg = md.compute_center_of_geometry(traj)
            R.sample = dict(call="compute_center_of_mass(%s)" % name, frame=0, got=got[0].tolist(), oracle=want[0].tolist())
        wantg = X[:, idx].mean(1)
        if R.cmp("center_of_geometry", gotg, wantg, tol) > 1:
            R.viol("cog", "subset %r got %s want %s" % (sel, gotg[0], wantg[0]))
        R.nontriv.add(("cog", sel))
    return R.pack()


def _rg(job):
    md = _md()
    fam, name, o = job
    R = Res(job)
    traj = _load(name)
    tab = _G["tab"][name]
    X = _G["x64"][name]
    n = X.shape[1]
    for mname, m_given in _mass_vectors(tab).items():
        # the subset call receives a VIEW of the caller's float64 mass vector and comes first, the whole-system call then
        # receives the parent vector itself: the oracle works from a private copy, so a callee that writes into its
        # argument is seen both as a changed argument and as a wrong second result
        m = None if m_given is None else m_given.copy()
        for sub in ("subset", "all"):
            idx = list(range(n)) if sub == "all" else list(range(1, n, 2))
            t = traj if sub == "all" else traj.atom_slice(idx)
            mm = None if m is None else m[idx]
            R.calls += 1
            arg = None if m_given is None else (m_given if sub == "all" else m_given[1::2])
            got = md.compute_rg(t) if arg is None else md.compute_rg(t, masses=arg)
            if arg is not None and not np.array_equal(m_given, m):
                R.viol("rg|masses|argument-modified", "compute_rg(masses=%s %s) wrote into the caller's mass vector" % (mname, sub))
                m_given = m.copy()
            for f in range(len(X)):
                x = X[f][idx]
                want = do.rg_standard(x, mm)
                Xmax = np.abs(x).max()
                c = x.mean(0) if mm is None else do.center_of_mass(x, mm)
                Rmax = np.sqrt(((x - c) ** 2).sum(1).max())
                dmu = len(idx) * EPS32 * Xmax          # float32 accumulation of the centre
                tol = 8 * EPS32 * (want + Xmax * Rmax / want) + 2 * dmu * dmu / want + (2 * dmu * Rmax / want if mm is not None else 0)
                r = R.cmp("rg:%s" % mname, got[f], want, tol)
                R.nontriv.add((mname, sub, f))
                if R.sample is None and mname == "element":
                    R.sample = dict(call="compute_rg(%s, masses=element masses)" % name, frame=f, got=float(got[f]),
                                    oracle_about_center_of_mass=float(want))
                if r > 1:
                    alt = do.rg_about_centroid(x, mm) if mm is not None else None
                    if alt is not None and abs(got[f] - alt) <= tol:
                        R.viol("rg|masses|weighted-distances-from-unweighted-centroid",
                               "masses=%s %s frame %d: got %.7g = sqrt(sum m|r - mean(r)|^2/sum m); radius of gyration about the "
                               "centre of mass %.7g" % (mname, sub, f, got[f], want))
                    else:
                        R.viol("rg|%s|value" % ("masses" if mm is not None else "nomasses"),
                               "masses=%s %s frame %d got %.7g want %.7g tol %.2g" % (mname, sub, f, got[f], want, tol))
    return R.pack()


def _shape(job):
    md = _md()
    fam, name, o = job
    R = Res(job)
    traj0 = _load(name)
    tab = _G["tab"][name]
    X0 = _G["x64"][name]
    n0 = X0.shape[1]
    m0 = np.array([a["mass"] for a in tab["atoms"]])
    fns = {"asphericity": md.asphericity, "acylindricity": md.acylindricity,
           "relative_shape_antisotropy": md.relative_shape_antisotropy}
    for sub in ("all", "subset", "protein"):
        idx = {"all": list(range(n0)), "subset": list(range(0, n0, 3)), "protein": _subset(tab, "protein")}[sub]
        if len(idx) < 4:
            R.excl("fewer than 4 atoms")
            continue
        traj = traj0 if sub == "all" else traj0.atom_slice(idx)
        X = X0[:, idx]
        m = m0[idx]
        n = len(idx)
        Xmax = np.abs(X).max()
        R.calls += 6
        # gyration tensor: documented form looked up from the docstring of the tree under test
        ml = do.math_line(md.compute_gyration_tensor.__doc__)
        form = do.SHAPE_FORMS["compute_gyration_tensor"].get(ml)
        if form is None:
            R.note("compute_gyration_tensor: docstring formula not recognised, cited NIST form used")
        S = np.array([do.gyration_tensor(X[f], True) for f in range(len(X))])
        gotS = md.compute_gyration_tensor(traj)
        tolS = 8 * n * EPS64 * Xmax ** 2
        R.nontriv.add(("gyr", sub))
        if R.cmp("gyration_tensor", gotS, S, tolS) > 1:
            R.viol("shape|compute_gyration_tensor|value", "%s: got[0]=%s want[0]=%s" % (sub, gotS[0].tolist(), S[0].tolist()))
        elif form is not None and form[0] == "docstring-literal":
            R.evals += 1
            R.viol("shape|compute_gyration_tensor|docstring-formula-omits-1/N",
                   "%s: returned tensor = (1/N) sum_i r_i r_i^T about the centroid (the cited NIST definition), but the "
                   "docstring formula reads S_xy = sum_i r_x r_y (no 1/N): trace %.6g vs documented %.6g" % (
                       sub, np.trace(gotS[0]), np.trace(gotS[0]) * n))
        if sub == "all":
            R.sample = dict(call="compute_gyration_tensor(%s)" % name, frame=0, got=gotS[0].tolist(), oracle=S[0].tolist())
        lam = np.array([np.linalg.eigvalsh(s) for s in S])
        gotl = md.principal_moments(traj)
        R.nontriv.add(("pm", sub))
        if R.cmp("principal_moments", gotl, lam, 2 * tolS) > 1:
            R.viol("shape|principal_moments|%s" % ("order" if np.allclose(np.sort(gotl, 1), lam, atol=1e-9) else "value"),
                   "%s: got %s want ascending %s" % (sub, gotl[0], lam[0]))
        for fn, f in fns.items():
            got = f(traj)
            std = np.array([do.SHAPE_STANDARD[fn](l) for l in lam])
            ml = do.math_line(f.__doc__)
            form = do.SHAPE_FORMS[fn].get(ml)
            scale = lam.max() if fn != "relative_shape_antisotropy" else 1.0
            tol = 16 * tolS / (lam.sum(1).min() if fn == "relative_shape_antisotropy" else 1.0) + 8 * EPS64 * scale
            R.nontriv.add((fn, sub))
            if form is None:
                R.note("%s: docstring formula not recognised, standard definition used" % fn)
                want = std
            else:
                want = np.array([form[1](l) for l in lam])
            if R.cmp(fn, got, want, tol) > 1:
                if form is not None and form[0] == "docstring-literal" and np.all(np.abs(got - std) <= tol):
                    R.viol("shape|%s|docstring-formula-differs-from-returned-value" % fn,
                           "%s: returns lambda_3^2 - (lambda_1^2+lambda_2^2)/2 = %.6g, docstring formula %r gives %.6g" % (
                               sub, got[0], ml, want[0]))
                else:
                    R.viol("shape|%s|value" % fn, "%s: got %s want %s" % (sub, got[:2], want[:2]))
        # inertia tensor
        I = np.array([do.inertia_tensor(X[f], m) for f in range(len(X))])
        gotI = md.compute_inertia_tensor(traj)
        R.nontriv.add(("inertia", sub))
        if R.cmp("inertia_tensor", gotI, I, 8 * n * EPS64 * m.max() * Xmax ** 2) > 1:
            R.viol("order|compute_inertia_tensor|value", "%s: got[0]=%s want[0]=%s" % (sub, gotI[0].tolist(), I[0].tolist()))
    return R.pack()


# =========================================================================================================
# density, dipole, dielectric, kappa_T


def _charges(tab):
    q = []
    for a in tab["atoms"]:
        if a["rn"] in ("HOH", "WAT"):
            q.append(-0.834 if a["el"] == "O" else 0.417)
        elif a["rn"] in ("NA", "CL"):
            q.append(1.0 if a["rn"] == "NA" else -1.0)
        else:
            q.append({"N": -0.42, "H": 0.27, "C": 0.51, "O": -0.57, "S": -0.11}.get(a["el"], 0.0) + 0.013 * ((a["i"] % 7) - 3))
    return np.array(q)


def _thermo(job):
    md = _md()
    from mdtraj.geometry import thermodynamic_properties as tp
    fam, name, o = job
    R = Res(job)
    traj = _load(name)
    tab = _G["tab"][name]
    X = _G["x64"][name]
    vec = _G["vec"][name]
    nF, n = X.shape[:2]
    m_el = np.array([a["mass"] for a in tab["atoms"]])
    if vec is not None:
        V = np.array([abs(np.linalg.det(v)) for v in vec])
        for mname, m_given in _mass_vectors(tab).items():
            R.calls += 1
            m = None if m_given is None else m_given.copy()
            got = md.density(traj) if m is None else md.density(traj, masses=m_given)
            if m is not None and not np.array_equal(m_given, m):
                R.viol("density|masses|argument-modified", "density(masses=%s) wrote into the caller's mass vector" % mname)
            want = (m_el if m is None else m).sum() / V * do.DA_PER_NM3_IN_KG_PER_M3
            tol = (8 * EPS32 + 2e-7) * want
            R.nontriv.add(("density", mname))
            if R.cmp("density", got, want, tol) > 1:
                R.viol("density|%s" % ("masses" if m is not None else "element-masses"), "got %s want %s kg/m^3" % (got, want))
            if m is None:
                R.sample = dict(call="density(%s)" % name, got=got.tolist(), oracle_kg_per_m3=want.tolist())
    else:
        R.excl("no unit cell: density/dielectric/kappa undefined")
    # dipole moments (documented construction; charges x positions)
    first = np.array([tab["residues"][a["res"]]["atoms"][0] for a in tab["atoms"]])
    for qname in ("model", "neutral-waters-only"):
        q = _charges(tab)
        if qname == "neutral-waters-only":
            q = np.where([a["rn"] in ("HOH", "WAT") for a in tab["atoms"]], q, 0.0)
            if not np.any(q):
                R.excl("no water")
                continue
        R.calls += 1
        got = tp.dipole_moments(traj, q)
        want = np.array([do.dipole(X[f], q, first, None if vec is None else vec[f]) for f in range(nF)])
        Lsum = 0.0 if vec is None else float(np.abs(vec).sum(axis=(1, 2)).max())
        ext = np.abs(X - X[:, :1]).max()
        tolM = 8 * EPS32 * np.abs(q).sum() * (ext + Lsum)
        R.nontriv.add(("dipole", qname))
        r = R.cmp("dipole_moments", got, want, tolM)
        if r > 1:
            if np.all(np.abs(got + want) <= tolM):
                R.evals += 0
                R.viol("dipole|sign-inverted", "charges=%s frame 0: got %s, sum_i q_i r_i = %s" % (qname, got[0], want[0]))
            else:
                R.viol("dipole|value", "charges=%s frame 0: got %s want %s" % (qname, got[0], want[0]))
        if vec is not None:
            T = 298.15
            R.calls += 1
            gote = tp.static_dielectric(traj, q, T)
            wante = do.static_dielectric(want, V, T)
            K = (do.E_CHARGE * 1e-9) ** 2 / (3 * do.EPS0 * V.mean() * 1e-27 * do.KB * T)
            sig = np.sqrt(((want - want.mean(0)) ** 2).sum(1).mean())
            tole = (wante - 1) * (do.CODATA_REL + 8 * EPS32) + K * (4 * sig * tolM * np.sqrt(3) + 3 * tolM ** 2)
            R.nontriv.add(("dielectric", qname))
            if R.cmp("static_dielectric", gote, wante, tole) > 1:
                R.viol("dielectric|value", "charges=%s got %.9g want %.9g" % (qname, gote, wante))
    if vec is not None:
        T = 300.0
        R.calls += 1
        gotk = tp.isothermal_compressability_kappa_T(traj, T)
        dV = 8 * EPS32 * V.max()
        hit = None
        for ddof in (0, 1):
            wk = do.kappa_T(V, T, ddof)
            Kk = 1e-27 / (do.KB * T) * 1e5 / V.mean()
            tolk = wk * (do.CODATA_REL + 8 * EPS32) + Kk * (4 * np.std(V) * dV + dV * dV) * nF / max(nF - ddof, 1)
            if abs(gotk - wk) <= tolk:
                hit = ddof
                R.ratio["kappa_T"] = max(R.ratio.get("kappa_T", 0.0), abs(gotk - wk) / tolk if tolk > 0 else 0.0)
        R.evals += 1
        if np.std(V) > 0:
            R.nontriv.add(("kappa",))
        if hit is None:
            R.viol("kappa_T|value", "got %.9g; <dV^2>/(kB T <V>) = %.9g (ddof 0) / %.9g (ddof 1) bar^-1" % (
                gotk, do.kappa_T(V, T, 0), do.kappa_T(V, T, 1)))
        else:
            R.note("kappa_T matches the fluctuation formula with ddof=%d (estimator not documented; not judged)" % hit)
    return R.pack()


# =========================================================================================================
# RDF


def _pairsets(tab):
    A = tab["atoms"]
    ox = [a["i"] for a in A if a["el"] == "O"]
    hy = [a["i"] for a in A if a["el"] == "H"]
    heavy = [a["i"] for a in A if a["el"] != "H"]
    ps = {"O-O": list(itertools.combinations(ox[:40], 2)),
          "O-H": [(o, h) for o in ox[:12] for h in hy[:30]],
          "few+dup": [(heavy[0], heavy[5]), (heavy[5], heavy[0]), (heavy[2], heavy[9]), (heavy[2], heavy[9]), (heavy[1], heavy[3])]}
    return {k: np.array(v) for k, v in ps.items()}


def _rdf_settings(quick):
    rr = [None, (0.2, 0.8), (0.0, 0.6), (0.1, 0.7), (0.25, 2.0)]
    bins = [("bin_width", 0.1), ("bin_width", 0.2), ("bin_width", 0.05), ("n_bins", 7), ("n_bins", 1), ("both", (0.1, 5)), ("default", None)]
    if not quick:
        rr += [(0.0, 0.3), (0.3, 0.9), (1.0, 1.5)]
        bins += [("bin_width", 0.3), ("bin_width", 0.025), ("n_bins", 13)]
    return rr, bins


def _dec_ratio(r0, r1, width):
    """(r1 - r0) / width in exact decimal arithmetic on the literals; the integer if it is one, else None."""
    from fractions import Fraction
    q = (Fraction(repr(float(r1))) - Fraction(repr(float(r0)))) / Fraction(repr(float(width)))
    return int(q) if q.denominator == 1 else None


def _rdf(job):
    md = _md()
    fam, name, o = job
    R = Res(job)
    traj = _load(name)
    tab = _G["tab"][name]
    vec = _G["vec"][name]
    pairs = _pairsets(tab)[o["pairs"]]
    periodic, opt = o["periodic"], o["opt"]
    D = _dmat(name, periodic)
    nF = traj.n_frames
    dist = np.array([D[f][pairs[:, 0], pairs[:, 1]] for f in range(nF)])
    V = np.array([abs(np.linalg.det(v)) for v in vec])
    Lsum = float(np.abs(vec).sum(axis=(1, 2)).max()) if periodic else 0.0
    rr_list, bin_list = _rdf_settings(o["quick"])
    for rr in rr_list:
        for bkind, bval in bin_list:
            kw = dict(periodic=periodic, opt=opt)
            r0, r1 = (0.0, 1.0) if rr is None else rr
            if rr is not None:
                kw["r_range"] = rr
            width = 0.005
            nb = None
            if bkind == "bin_width":
                kw["bin_width"] = width = bval
            elif bkind == "n_bins":
                kw["n_bins"] = nb = bval
            elif bkind == "both":
                kw["bin_width"], kw["n_bins"] = bval
                nb = bval[1]                  # documented: n_bins overrides bin_width
            R.calls += 1
            r, g = md.compute_rdf(traj, pairs, **kw)
            r = np.asarray(r)
            g = np.asarray(g)
            key = (rr, bkind, str(bval))
            # (1) number of bins
            if nb is None:
                nb_doc = _dec_ratio(r0, r1, width)
                if nb_doc is None:
                    R.excl("range is not a whole multiple of bin_width (bin count undocumented)")
                elif len(r) != nb_doc:
                    R.evals += 1
                    R.viol("rdf|bin_width|n_bins=int((r1-r0)/bin_width)-truncates-below-the-whole-multiple",
                           "r_range=%s bin_width=%s: %d bins of width %.6g returned, the range holds exactly %d bins of the "
                           "documented width" % (rr, width, len(r), (r1 - r0) / max(len(r), 1), nb_doc))
                else:
                    R.evals += 1
            elif len(r) != nb:
                R.viol("rdf|n_bins|count", "n_bins=%s -> %d bins" % (nb, len(r)))
            n = len(r)
            if n == 0 or g.shape != r.shape:
                R.viol("rdf|shape", "r %s g %s" % (r.shape, g.shape))
                continue
            # (2) labels: centres of the n equal bins of r_range
            edges = do.rdf_edges((r0, r1), n)
            cent = 0.5 * (edges[1:] + edges[:-1])
            if R.cmp("rdf:r", r, cent, 4 * EPS64 * max(r1, 1.0)) > 1:
                R.viol("rdf|r-labels-are-not-bin-centres", "%s: r[:3]=%s centres[:3]=%s" % (kw, r[:3], cent[:3]))
                continue
            # (3) values: counts in the bins the labels name / (N_pairs * sum_f 1/V_f * shell volume)
            margin = 8 * EPS32 * (r1 + Lsum) + 4 * EPS64
            lo, amb = do.rdf_counts(dist, edges, margin)
            norm = len(pairs) * np.sum(1.0 / V) * do.shell_volumes(edges)
            glo, ghi = lo / norm, (lo + amb) / norm
            tol = 8 * EPS32 * ghi + 1e-300
            bad = (g < glo - tol) | (g > ghi + tol)
            R.evals += n
            R.excl("distances within the float32 margin of a bin edge (ambiguous count, interval-checked)", int(amb.sum()))
            with np.errstate(divide="ignore", invalid="ignore"):
                mid = np.where(amb == 0, np.abs(g - glo) / tol, 0.0)
            if not bad.any():
                R.ratio["rdf:g"] = max(R.ratio.get("rdf:g", 0.0), float(mid.max()))
            if lo.sum() > 0 and n >= 1:
                R.nontriv.add(key)
            if R.sample is None and n > 2 and lo.sum() > 0:
                b = int(np.argmax(lo))
                R.sample = dict(call="compute_rdf(%s, %s pairs, %s)" % (name, o["pairs"], kw), bin=b, r=float(r[b]),
                                got=float(g[b]), oracle=float(glo[b]), count=int(lo[b]))
            if bad.any():
                b = int(np.nonzero(bad)[0][0])
                R.viol("rdf|g-values|shell-normalisation-or-binning", "%s: bin %d r=%.4g got %.7g want [%.7g, %.7g] (count %d)" % (
                    kw, b, r[b], g[b], glo[b], ghi[b], lo[b]))
    return R.pack()


def _rdf_t(job):
    md = _md()
    fam, name, o = job
    R = Res(job)
    traj = _load(name)
    tab = _G["tab"][name]
    vec = _G["vec"][name]
    X = _G["x64"][name]
    base = _pairsets(tab)[o["pairs"]]
    # both orders of every pair: the docstring does not say which atom of a pair is taken at which time
    pairs = np.vstack([base, base[:, ::-1]])
    periodic = o["periodic"]
    nF = traj.n_frames
    times = np.array([[0, 0], [0, 1], [1, 2], [2, 0], [1, 1], [2, 2]])
    V = np.array([abs(np.linalg.det(v)) for v in vec])
    const_cell = np.allclose(vec, vec[0])
    if periodic and not const_cell:
        R.excl("periodic g(r,t) with a varying cell (which frame's cell applies is C05's subject)")
        return R.pack()
    Lsum = float(np.abs(vec).sum(axis=(1, 2)).max()) if periodic else 0.0
    for rr, nb in [((0.0, 1.0), 10), ((0.2, 1.4), 6)]:
        for selfc in (False, True):
            for ncp in (100000, 37):
                R.calls += 1
                r, g = md.compute_rdf_t(traj, pairs, times, r_range=rr, n_bins=nb, self_correlation=selfc,
                                        periodic=periodic, n_concurrent_pairs=ncp)
                edges = do.rdf_edges(rr, nb)
                cent = 0.5 * (edges[1:] + edges[:-1])
                if np.shape(r) != (nb,) or np.shape(g) != (len(times), nb) or R.cmp("rdf_t:r", r, cent, 4 * EPS64 * rr[1]) > 1:
                    R.viol("rdf_t|labels", "r=%s" % (np.asarray(r)[:3],))
                    continue
                allp = pairs
                if selfc:
                    u = np.unique(pairs)
                    allp = np.vstack([np.stack([u, u], 1), pairs])
                margin = 8 * EPS32 * (rr[1] + Lsum) + 4 * EPS64
                for ti, (t0, t1) in enumerate(times):
                    d = X[t1][allp[:, 1]] - X[t0][allp[:, 0]]
                    if periodic:
                        from vlib.refmodels import mic
                        dd, _b, _n = mic.min_image(d, vec[0], 2)
                    else:
                        dd = np.sqrt((d * d).sum(1))
                    lo, amb = do.rdf_counts(dd, edges, margin)
                    # in-source normalisation (the docstring gives none): N_pairs / period_length * sum_f 1/V_f * shell
                    norm = len(allp) / float(nF) * np.sum(1.0 / V) * do.shell_volumes(edges)
                    glo, ghi = lo / norm, (lo + amb) / norm
                    tol = 8 * EPS32 * ghi + 16 * EPS64 * ghi + 1e-300
                    bad = (g[ti] < glo - tol) | (g[ti] > ghi + tol)
                    R.evals += nb
                    R.excl("distances within the float32 margin of a bin edge (ambiguous count, interval-checked)", int(amb.sum()))
                    if lo.sum() > 0:
                        R.nontriv.add((rr, nb, selfc, ncp, ti))
                    if bad.any():
                        b = int(np.nonzero(bad)[0][0])
                        R.viol("rdf_t|g-values|%s" % ("chunked" if ncp < len(allp) else "one-chunk"),
                               "times %s self=%s bin %d got %.7g want [%.7g, %.7g]" % ((t0, t1), selfc, b, g[ti][b], glo[b], ghi[b]))
                        break
                # docstring: g(r, 0) equals the time-independent g(r)  (judged without the self term)
                if not selfc and ncp == 100000:
                    rs, gs = md.compute_rdf(traj, pairs, r_range=rr, n_bins=nb, periodic=periodic)
                    g0 = np.mean([g[ti] for ti, (a, b) in enumerate(times) if a == b], axis=0)
                    if R.cmp("rdf_t:g(r,0)==g(r)", g0, gs, 16 * EPS32 * np.abs(gs) + 1e-300) > 1:
                        R.viol("rdf_t|g(r,0)!=g(r)", "mean over frames of g(r,(f,f)) %s vs compute_rdf %s" % (g0[:4], gs[:4]))
                if R.sample is None:
                    R.sample = dict(call="compute_rdf_t(%s, %s both orders, times=%s, r_range=%s, n_bins=%d)" % (
                        name, o["pairs"], times.tolist(), rr, nb), g_row0=np.asarray(g[0]).tolist())
    return R.pack()


# =========================================================================================================
# DRID


def _drid(job):
    md = _md()
    fam, name, o = job
    R = Res(job)
    traj = _load(name)
    tab = _G["tab"][name]
    X = _G["x64"][name]
    n = X.shape[1]
    heavy = [a["i"] for a in tab["atoms"] if a["el"] != "H"]
    subsets = {"none": None, "every3": list(range(0, n, 3)), "heavy-reversed": heavy[::-1],
               "interleaved": list(range(1, n, 2))[::-1][:40] + list(range(0, min(n, 30), 2)),
               "five": [heavy[7], heavy[2], heavy[11], heavy[3], heavy[5]]}
    for sname, ai in subsets.items():
        R.calls += 1
        got = md.compute_drid(traj) if ai is None else md.compute_drid(traj, atom_indices=np.array(ai))
        idx = list(range(n)) if ai is None else ai
        if got.shape != (len(X), 3 * len(idx)):
            R.viol("drid|shape", "%s: %s" % (sname, got.shape))
            continue
        got = got.reshape(len(X), len(idx), 3)
        for f in range(len(X)):
            ora = do.drid(X[f], idx, tab["bonds"])
            for k, w in enumerate(ora):
                if w is None:
                    R.excl("atom without non-bonded partner in the set")
                    continue
                delta = 4 * EPS32 * w["xmax"]                 # float32 squared distance -> error of each 1/d
                t_mu = delta + 8 * EPS64 * w["xmax"]
                t_m3 = 8 * delta * max(w["m2"], delta * w["rng"]) + 64 * EPS64 * w["xmax"] ** 3
                r1 = R.cmp("drid:mean", got[f, k, 0], w["mu"], t_mu)
                r2 = R.cmp("drid:sqrt-m2", got[f, k, 1], w["nu"], t_mu)
                r3 = R.cmp("drid:m3", got[f, k, 2] ** 3, w["m3"], t_m3)
                if w["n"] >= 3:
                    R.nontriv.add((sname, f, k))
                if max(r1, r2, r3) > 1:
                    which = "mean" if r1 > 1 else ("second" if r2 > 1 else "third")
                    R.viol("drid|%s-moment|%s" % (which, "all-atoms" if ai is None else "atom_indices"),
                           "%s frame %d slot %d (atom %d, %d partners): got %s want (%.8g, %.8g, %.8g)" % (
                               sname, f, k, idx[k], w["n"], got[f, k].tolist(), w["mu"], w["nu"], w["xi"]))
                    break
        if R.sample is None:
            w = do.drid(X[0], idx, tab["bonds"])[1]
            R.sample = dict(call="compute_drid(%s, atom_indices=%s)" % (name, sname), atom=idx[1], partners=w["n"],
                            got=got[0, 1].tolist(), oracle=[w["mu"], w["nu"], w["xi"]])
    return R.pack()


# =========================================================================================================
# directors / nematic order


def _order(job):
    md = _md()
    fam, name, o = job
    R = Res(job)
    traj = _load(name)
    tab = _G["tab"][name]
    X = _G["x64"][name]
    m = np.array([a["mass"] for a in tab["atoms"]])
    chains = {}
    for r in tab["residues"]:
        chains.setdefault(r["chain"], []).extend(r["atoms"])
    groups = {"chains": [chains[c] for c in sorted(chains)],
              "residues": [r["atoms"] for r in tab["residues"]],
              "big-residues": [r["atoms"] for r in tab["residues"] if len(r["atoms"]) >= 3],
              "custom": [list(range(0, 5)), list(range(5, 12)), [20, 14, 17, 30], list(range(31, 31 + 9))]}
    for gname, gl in groups.items():
        arg = gname if gname in ("chains", "residues") else [[int(i) for i in g] for g in gl]
        R.calls += 1
        with warnings.catch_warnings():
            warnings.simplefilter("ignore")
            try:
                dirs = md.compute_directors(traj, indices=arg)
                s2 = md.compute_nematic_order(traj, indices=arg)
            except Exception as e:  # noqa: BLE001
                if any(len(g) < 2 for g in gl):
                    R.excl("group of one atom (inertia tensor is zero): raised")
                    continue
                R.viol("order|raised", "%s: %s: %s" % (gname, type(e).__name__, e))
                continue
        if dirs.shape != (len(X), len(gl), 3):
            R.viol("order|directors|shape", "%s %s" % (gname, dirs.shape))
            continue
        for f in range(len(X)):
            want_dirs = []
            tol_ang = 0.0
            degenerate = False
            unsorted_bad = False
            for k, g in enumerate(gl):
                e, gap, scale = do.director(X[f][g], m[g])
                floor = 64 * len(g) * EPS64 * m[g].sum() * np.abs(X[f][g]).max() ** 2     # rounding level of the tensor itself
                if len(g) < 2 or scale <= floor or gap / scale < 1e-6:
                    R.excl("degenerate inertia tensor (no unique smallest eigenvalue): director not judged")
                    degenerate = True
                    continue
                tol = 64 * len(g) * EPS64 * scale / gap + 64 * EPS64
                tol_ang = max(tol_ang, tol)
                want_dirs.append(e)
                gd = np.real(dirs[f, k])
                sgn = 1.0 if np.dot(gd, e) >= 0 else -1.0        # n and -n are the same director (documented)
                r = R.cmp("directors", gd * sgn, e, tol)
                R.nontriv.add((gname, f, k))
                if r > 1:
                    if list(g) != sorted(g):
                        unsorted_bad = True
                        R.viol("order|directors|unsorted-group-indices",
                               "%s frame %d group %s (not ascending): got %s want +-%s; the sub-trajectory pairs the coordinates "
                               "in the given order with the masses in ascending order" % (gname, f, list(g), gd, e))
                    else:
                        R.viol("order|directors|value", "%s frame %d group %d: got %s want +-%s" % (gname, f, k, gd, e))
            if degenerate:
                R.excl("nematic order with a degenerate group: not judged")
                continue
            want, w = do.nematic(want_dirs)
            tol = 6 * tol_ang + 16 * EPS64
            got = s2[f]
            R.nontriv.add((gname, f, "S2"))
            if R.cmp("nematic_order", np.real(got), want, tol) > 1 or abs(np.imag(got)) > tol:
                R.viol("order|nematic|unsorted-group-indices" if unsorted_bad else "order|nematic|value", "%s frame %d: got %r want %.12g" % (gname, f, got, want))
            if R.sample is None and gname == "chains":
                R.sample = dict(call="compute_nematic_order(%s, 'chains')" % name, frame=f, got=float(np.real(got)), oracle=float(want))
        if np.iscomplexobj(s2):
            R.note("compute_nematic_order returned a complex array (documented dtype float64; imaginary parts zero)")
    return R.pack()


# =========================================================================================================
# J couplings


def _jcoup(job):
    md = _md()
    fam, name, o = job
    R = Res(job)
    traj = _load(name)
    tab = _G["tab"][name]
    X = _G["x64"][name]
    A = tab["atoms"]
    fns = {"HN_HA": md.compute_J3_HN_HA, "HN_C": md.compute_J3_HN_C, "HN_CB": md.compute_J3_HN_CB}
    for (kind, model), (a, b, c, phi0) in do.KARPLUS.items():
        for default in ((False, True) if model == "Bax2007" else (False,)):
            R.calls += 1
            idx, J = fns[kind](traj) if default else fns[kind](traj, model=model)
            idx = np.asarray(idx)
            if idx.ndim != 2 or idx.shape[1] != 4 or np.shape(J) != (len(X), len(idx)):
                R.viol("J|shape", "%s %s: indices %s J %s" % (kind, model, idx.shape, np.shape(J)))
                continue
            for k, q in enumerate(idx):
                at = [A[int(i)] for i in q]
                names = [x["name"] for x in at]
                ok = names == ["C", "N", "CA", "C"] and at[1]["res"] == at[2]["res"] == at[3]["res"] == at[0]["res"] + 1 \
                    and len({x["chain"] for x in at}) == 1
                if not ok:
                    R.viol("J|labels|not-a-phi-quadruplet", "%s: indices[%d]=%s names %s" % (kind, k, q.tolist(), names))
                    continue
                for f in range(len(X)):
                    phi, rho = do.dihedral(*[X[f][int(i)] for i in q])
                    want = do.karplus(phi, a, b, c, phi0)
                    Xmax = np.abs(X[f][q]).max()
                    tphi = 16 * EPS32 * (Xmax / rho + np.pi)
                    tol = (2 * abs(a) + abs(b)) * tphi + 8 * EPS32 * (abs(a) + abs(b) + abs(c))
                    R.nontriv.add((kind, model, k, f))
                    if R.cmp("J3_%s:%s" % (kind, model), J[f, k], want, tol) > 1:
                        R.viol("J|%s|%s|value" % (kind, model), "phi quadruplet %s frame %d: got %.7g want %.7g (phi=%.5f rad)" % (
                            q.tolist(), f, J[f, k], want, phi))
            if R.sample is None and len(idx):
                phi, _rho = do.dihedral(*[X[0][int(i)] for i in idx[0]])
                R.sample = dict(call="compute_J3_%s(%s, model=%s)" % (kind, name, model), indices=idx[0].tolist(),
                                phi_rad=float(phi), got=float(J[0, 0]), oracle=float(do.karplus(phi, a, b, c, phi0)))
    return R.pack()


# =========================================================================================================

WORKERS = {"contacts": _contacts, "centres": _centres, "rg": _rg, "shape": _shape, "thermo": _thermo, "rdf": _rdf,
           "rdf_t": _rdf_t, "drid": _drid, "order": _order, "jcoupling": _jcoup}


def _run_job(job):
    try:
        return WORKERS[job[0]](job)
    except Exception as e:  # noqa: BLE001  (a crash of the check itself or of mdtraj on a defined input)
        import traceback
        R = Res(job)
        R.viol("%s|exception" % job[0], "%s: %s\n%s" % (type(e).__name__, e, traceback.format_exc()[-1500:]))
        return R.pack()


def _jobs(quick):
    if quick:
        structs = ["pep", "pep_tri", "pep_heavy", "frag_2EQQ", "frag_1vii"]
    else:
        structs = [s for s in ds.STRUCTS if not s.startswith("wat")]
    structs = structs + (["pep@edited", "pep@renamed"] if quick else
                         ["pep@edited", "pep@renamed", "frag_1vii@edited", "frag_1vii@renamed", "frag_2EQQ@edited"])
    cstructs = list(structs)
    if not quick:
        from vlib import grids
        cstructs += ["pepc_" + c["name"] for c in grids.cell_menu(quick=True, unreduced=False)]
    jobs = _contacts_jobs(cstructs, quick)
    simple = structs + ["wat", "watc"]
    for s in simple:
        for fam in ("centres", "rg", "shape", "thermo", "drid", "order"):
            jobs.append((fam, s, {}))
    for s in ("ions_tri", "ions_ortho"):      # residue origins reached through a periodic image (dipoles), whole-cell spread
        for fam in ("thermo", "centres", "rg"):
            jobs.append((fam, s, {}))
    for fam in ("centres", "shape"):             # atoms of different residues alternating in index order
        jobs.append((fam, "ilv", {}))
    for s in [x for x in simple if not x.startswith("wat")]:
        jobs.append(("jcoupling", s, {}))
    for s in (["wat", "frag_1vii"] if quick else ["wat", "watc", "frag_1vii", "pep"]):
        for ps in ("O-O", "O-H", "few+dup"):
            for periodic in (True, False):
                for opt in ((True,) if quick and ps != "O-O" else (True, False)):
                    jobs.append(("rdf", s, dict(pairs=ps, periodic=periodic, opt=opt, quick=quick)))
    for s in (["watc"] if quick else ["watc", "wat", "frag_1vii"]):
        for ps in ("O-O", "few+dup"):
            for periodic in (True, False):
                jobs.append(("rdf_t", s, dict(pairs=ps, periodic=periodic)))
    return jobs


def _prepare(ctx_repo, seed, jobs):
    _G["repo"] = ctx_repo
    _G["seed"] = seed
    for name in sorted({j[1] for j in jobs}):
        _load(name)
    for fam, name, o in jobs:
        if fam in ("contacts", "rdf"):
            _dmat(name, o["periodic"])


def run(ctx):
    jobs = _jobs(ctx.quick)
    _prepare(ctx.repo, ctx.seed, jobs)
    # longest first so the pool drains evenly
    order = sorted(range(len(jobs)), key=lambda i: (jobs[i][0] not in ("rdf", "rdf_t", "contacts"), i))
    res = ctx.pmap(_run_job, [jobs[i] for i in order])
    fam = {}
    ratio = {}
    excluded = {}
    notes = {}
    samples = []
    evals = nontriv = 0
    for r in res:
        f = fam.setdefault(r["job"][0], dict(jobs=0, calls=0, entries_compared=0, distinct_nontrivial=0))
        f["jobs"] += 1
        f["calls"] += r["calls"]
        f["entries_compared"] += r["evals"]
        f["distinct_nontrivial"] += r["nontriv"]
        evals += r["evals"]
        nontriv += r["nontriv"]
        for k, v in r["ratio"].items():
            ratio[k] = max(ratio.get(k, 0.0), v)
        for k, v in r["excluded"].items():
            excluded[k] = excluded.get(k, 0) + v
        for k, v in r["notes"].items():
            notes[k] = notes.get(k, 0) + v
        if r["sample"] is not None and sum(1 for s in samples if s["family"] == r["job"][0]) < 1:
            samples.append(dict(family=r["job"][0], structure=r["job"][1], **r["sample"]))
        ctx.report(r["records"])
    ctx.assume("element masses, Residue.is_protein, Topology.select and the stored float32 coordinates/cell vectors are inputs")
    ctx.assume("formulas not spelled out in a docstring are taken from the cited paper or the in-source comment (desc_oracles.py)")
    cov = {
        "evaluations": evals, "distinct_nontrivial": nontriv, "exhaustive": True,
        "rule": "full product structures x frames x option axes per descriptor family (axis lists below); an evaluation is "
                "one returned entry compared with the float64 closed form recomputed from the label it is returned with; "
                "distinct non-trivial = distinct (job, label, frame) entries, counted per job with a set, that involve "
                ">= 2 designated atom pairs (contacts), >= 3 partners (DRID), a populated histogram (RDF), a "
                "non-degenerate tensor (directors), or a non-empty atom set (others)",
        "samples": samples,
        "per_family": fam,
        "jobs": len(jobs),
        "max_err_over_tol": {k: round(v, 4) for k, v in sorted(ratio.items())},
        "max_err_over_tol_overall": round(max(ratio.values()) if ratio else 0.0, 4),
        "excluded_or_not_judged": excluded,
        "observations": notes,
        "structures": sorted({j[1] for j in jobs}),
        "axes": {"contact_schemes": SCHEMES, "contacts": ["all+ignore_nonprotein", "all", "E1 (ndarray)", "E2 (list)", "E3", "E4"],
                 "periodic": [True, False], "soft_min_beta": [None, 20, 5.0] + ([] if ctx.quick else [2]),
                 "com_select": SELECTS, "mass_vectors": ["none", "element", "ramp", "equal"],
                 "rdf_r_range": [str(x) for x in _rdf_settings(ctx.quick)[0]],
                 "rdf_bins": [str(x) for x in _rdf_settings(ctx.quick)[1]], "rdf_pairs": ["O-O", "O-H", "few+dup"],
                 "drid_atom_indices": ["none", "every3", "heavy-reversed", "interleaved", "five"],
                 "order_indices": ["chains", "residues", "big-residues", "custom"],
                 "karplus": ["%s/%s" % k for k in do.KARPLUS]},
        "tolerance_model": "float32 paths: |d| <= c*eps32*S (contacts c=8, S=d+sum|cell|; Rg c=8, S=Rg+Xmax*Rmax/Rg; "
                           "DRID c=4 on 1/d; J c=16 on phi, S=Xmax/rho+pi; RDF edge margin c=8, S=r_max+sum|cell|; "
                           "volumes c=8); float64 paths: c*n*eps64*S (COM c=4,S=Xmax; tensors c=8,S=Xmax^2)",
    }
    return "exploration", cov


def replay(ctx, rep):
    job = (rep["job"][0], rep["job"][1], rep["job"][2])
    obs = []
    for _ in range(2):
        for k in ("traj", "tab", "x64", "vec", "dm"):
            _G[k] = {}
        _prepare(ctx.repo, int(rep.get("seed", 0)), [job])
        r = _run_job(job)
        obs.append(sorted((s, d) for s, d, _r in r["records"]))
    print("replay 1:", [s for s, _d in obs[0]][:6])
    print("replay 2:", [s for s, _d in obs[1]][:6])
    assert obs[0] == obs[1], "replay is not deterministic"
    for s, d in [x for x in obs[0] if x[0] == rep.get("sig")][:3]:
        print("  ", d[:400])
    return not any(s == rep.get("sig") for s, _d in obs[0])
