"""C19 — incremental writing equals one-shot writing, ragged writes are refused, flushed frames survive a kill.

(a) every composition of n frames into successive write() calls (all 2^(n-1) ordered partitions) x streaming
    format x {cell, no cell} x {time, no time}: after close the file must load equal to the one-shot file;
(b) at every position >= 1 of every composition one ragged write (atom count +-1, cell added/dropped, time
    added/dropped): it must raise, and after close the file must load with exactly the frames accepted before;
(c) for h5, nc, dcd, xtc: the writing process is SIGKILLed right after the k-th write (+ flush where the file
    object has one), for every k of every composition: the file must load with exactly those frames.
    Kill points between a write and its flush are executed and recorded, not judged.
"""
import itertools
import os
import shutil
import signal

import numpy as np

MANIFEST = {
    "category": "fault_enumeration",
    "engine": "histx+crashx",
    "technique": "exhaustive enumeration of write histories (all ordered partitions, one ragged write at every position) "
                 "and of every post-flush crash point, executed for real with SIGKILL, against an accepted-frames model",
    "text": "All 16 ordered partitions of 5 frames (thorough: n = 1..5) into write calls x 11 streaming formats (+ HDF5 append "
            "mode on an existing file and on a name that does not exist yet) x {cell, no cell} x {time, no time} are written through the real file objects and compared after close "
            "with the one-shot file (frames, times, cells, loaded with mdtraj). Cells also change SHAPE per frame (rectangular/sheared) where the format stores angles. One ragged write of each kind at every "
            "position of every partition must raise and leave a file holding exactly the accepted frames; then the caller closes, retries the same write (must be refused again) or continues with the well-formed writes (must equal one-shot). For HDF5, NetCDF, "
            "DCD, XTC and HDF5 append mode every (partition, k) crash point after write+flush is executed in a forked child that SIGKILLs itself; "
            "the parent must load exactly the k-prefix. Exhaustive over the stated histories and crash points.",
    "note": "Process kill, not power loss (page cache survives). DCD has no flush(): judged after write() returns, as its "
            "reporter uses it. Crash points before the flush are recorded only. OpenMM reporters are reached through the file "
            "objects they drive. 4 atoms, 5 frames.",
    "ref": "DESIGN.md §3 C19, §2.8",
}

FORMATS = ["h5", "nc", "dcd", "xtc", "trr", "mdcrd", "xyz", "lammpstrj", "gro", "pdb", "dtr"]
CRASH_FORMATS = ["h5", "nc", "dcd", "xtc"]
HAS_TIME_ARG = {"h5", "nc", "xtc", "trr", "gro", "dtr"}
NO_CELL_FORMATS = {"xyz"}            # the writer has no cell argument
NEEDS_CELL = {"lammpstrj", "dtr"}    # the writer requires a cell
NEEDS_TOP = {"xtc", "trr", "dcd", "nc", "mdcrd", "lammpstrj", "xyz", "dtr"}
N = 5


def _traj(n_atoms, cell, seed, n=N):
    import mdtraj as md
    rng = np.random.RandomState(11 + seed)
    top = md.Topology()
    ch = top.add_chain()
    for i in range(n_atoms):
        r = top.add_residue("ALA", ch)
        top.add_atom("CA", md.element.carbon, r)
    xyz = np.round(rng.rand(n, n_atoms, 3) * 2 + 0.1, 3).astype(np.float32)
    kw = {}
    if cell:
        ang = np.full((n, 3), 90.0)
        if cell == "mixed":      # variable-cell run: the cell SHAPE changes, frames 1, 3, ... are sheared, the others rectangular
            ang[1::2] = [80.0, 95.0, 70.0]
        kw = dict(unitcell_lengths=np.round(np.full((n, 3), 4.0) + 0.125 * np.arange(n)[:, None], 3), unitcell_angles=ang)
    return md.Trajectory(xyz, top, time=np.arange(n) * 2.0 + 1.0, **kw)


def compositions(n):
    """All ordered partitions of n as lists of block sizes."""
    out = []
    for cuts in itertools.product((0, 1), repeat=n - 1):
        blocks, cur = [], 1
        for c in cuts:
            if c:
                blocks.append(cur)
                cur = 1
            else:
                cur += 1
        blocks.append(cur)
        out.append(blocks)
    return out


def _load(path, fmt, top):
    import mdtraj as md
    if fmt in NEEDS_TOP:
        return md.load(path, top=top)
    return md.load(path)


def _summary(t):
    return (t.n_frames, t.n_atoms, t.xyz.tobytes(), np.asarray(t.time, float).tobytes(),
            None if t.unitcell_lengths is None else (t.unitcell_lengths.tobytes(), t.unitcell_angles.tobytes()))


def _diff(a, b):
    if a.n_frames != b.n_frames:
        return "n_frames %d vs %d" % (a.n_frames, b.n_frames)
    if a.n_atoms != b.n_atoms:
        return "n_atoms %d vs %d" % (a.n_atoms, b.n_atoms)
    if not np.array_equal(a.xyz, b.xyz):
        return "coordinates differ"
    if not np.array_equal(np.asarray(a.time, float), np.asarray(b.time, float)):
        return "times %s vs %s" % (np.asarray(a.time).tolist(), np.asarray(b.time).tolist())
    if (a.unitcell_lengths is None) != (b.unitcell_lengths is None):
        return "cell present %s vs %s" % (a.unitcell_lengths is not None, b.unitcell_lengths is not None)
    f32 = lambda x: np.asarray(x, np.float32)      # a slice of a loaded trajectory holds its cell as float32
    if a.unitcell_lengths is not None and not (np.array_equal(f32(a.unitcell_lengths), f32(b.unitcell_lengths))
                                               and np.array_equal(f32(a.unitcell_angles), f32(b.unitcell_angles))):
        return "unit cells differ"
    return None


def _write_history(path, fmt, traj, blocks, cell, time, mode="w", ragged=None, crash_after=None, flush_each=False,
                   crash_before_flush=False):
    """Perform the writes.  ragged = (position index, kind).  Returns (accepted_frames, ragged_outcome)."""
    import mdtraj as md
    from vlib.refmodels import writers
    f = md.open(path, mode) if mode != "w" else md.open(path, "w", force_overwrite=True)
    lo = 0
    accepted = 0
    outcome = None
    try:
        for bi, b in enumerate(blocks):
            if ragged is not None and ragged[0] == bi and outcome is None:
                kind = ragged[1]
                after = ragged[2] if len(ragged) > 2 else "close"

                def bad_write():
                    if kind in ("atoms+1", "atoms-1", "atoms=1"):
                        # atoms=1: a one-atom array is what an array library would silently broadcast over all atoms
                        other = _traj({"atoms+1": traj.n_atoms + 1, "atoms-1": traj.n_atoms - 1, "atoms=1": 1}[kind], cell, 99)
                        writers.write_block(f, fmt, other, lo, lo + b, with_cell=cell, with_time=time, first=(bi == 0))
                    elif kind == "cell-drop":
                        writers.write_block(f, fmt, traj, lo, lo + b, with_cell=False, with_time=time, first=(bi == 0))
                    elif kind in ("cell-add", "late-cell"):
                        other = _traj(traj.n_atoms, True, 98)
                        other.xyz[:] = traj.xyz
                        writers.write_block(f, fmt, other, lo, lo + b, with_cell=True, with_time=time, first=(bi == 0))
                    elif kind == "time-drop":
                        writers.write_block(f, fmt, traj, lo, lo + b, with_cell=cell, with_time=False, first=(bi == 0))
                    elif kind == "time-add":
                        writers.write_block(f, fmt, traj, lo, lo + b, with_cell=cell, with_time=True, first=(bi == 0))

                try:
                    bad_write()
                    outcome = "accepted"
                except Exception as e:  # noqa
                    outcome = "refused:%s" % type(e).__name__
                if outcome == "accepted" or after == "close":
                    break
                if after == "retry":
                    # the caller repeats the refused call: it must be refused again
                    try:
                        bad_write()
                        outcome = "accepted-on-retry"
                    except Exception as e:  # noqa
                        pass
                    break
                # after == "continue": the refused call must have had no effect, the remaining well-formed writes go on
            writers.write_block(f, fmt, traj, lo, lo + b, with_cell=cell, with_time=time, first=(bi == 0))
            lo += b
            accepted = lo
            if crash_after is not None and crash_after == bi and crash_before_flush:
                os.kill(os.getpid(), signal.SIGKILL)
            if flush_each or crash_after is not None:
                writers.flush(f)
            if crash_after is not None and crash_after == bi:
                os.kill(os.getpid(), signal.SIGKILL)
    finally:
        f.close()
    return accepted, outcome


def _fmt_jobs(quick):
    jobs = []
    for fmt in FORMATS + ["h5-append", "h5-afresh"]:
        base = fmt.split("-")[0]
        cells = [True] if base in NEEDS_CELL else ([False] if base in NO_CELL_FORMATS else [True, False])
        times = [True, False] if base in HAS_TIME_ARG and base != "dtr" else [True]   # dtr requires times
        if base in ("h5", "nc", "dcd", "xtc", "trr", "gro", "lammpstrj", "dtr"):     # formats that store the angles per frame
            cells = cells + ["mixed"]
        for cell, time in itertools.product(cells, times):
            jobs.append((fmt, cell, time))
    return jobs


def incremental_job(args):
    fmt, cell, time, ns, seed, scratch = args
    base = fmt.split("-")[0]
    d = os.path.join(scratch, "a_%s_%s_%s" % (fmt, cell, time))
    shutil.rmtree(d, ignore_errors=True)
    os.makedirs(d)
    viol = []
    n_exec = 0
    ok = set()
    ragged_stats = {}
    try:
        for n in ns:
            traj = _traj(4, cell, seed)[:n]
            top = traj.topology
            one = os.path.join(d, "one." + base)
            _write_history(one, base, traj, [n], cell, time)
            ref = _load(one, base, top)
            # the one-shot file itself must hold what was written (sanity of the reference, judged by C01 in depth)
            for blocks in compositions(n):
                n_exec += 1
                p = os.path.join(d, "inc." + base)
                if os.path.isdir(p):
                    shutil.rmtree(p)
                elif os.path.exists(p):
                    os.remove(p)
                rep = {"kind": "incremental", "fmt": fmt, "cell": cell, "time": time, "n": n, "blocks": blocks}
                tag = "%s|cell=%s|time=%s" % (fmt, cell, time)
                try:
                    if fmt == "h5-append":
                        # first block with mode 'w', close, remaining blocks each with a fresh handle in mode 'a'
                        _write_history(p, base, traj, blocks[:1], cell, time)
                        lo = blocks[0]
                        for b in blocks[1:]:
                            _write_history(p, base, traj[lo:lo + b], [b], cell, time, mode="a")
                            lo += b
                    elif fmt == "h5-afresh":
                        # one handle in mode 'a' on a name that does not exist yet (append mode creating the file)
                        _write_history(p, base, traj, blocks, cell, time, mode="a")
                    else:
                        _write_history(p, base, traj, blocks, cell, time)
                    got = _load(p, base, top)
                    dif = _diff(got, ref)
                except Exception as e:  # noqa
                    dif = "raised %s: %s" % (type(e).__name__, str(e)[:160])
                if dif and len(blocks) > 1:
                    viol.append((tag + "|incremental!=one-shot|" + dif.split(" ")[0], "%s written as %s: %s" % (fmt, blocks, dif), rep))
                elif not dif:
                    ok.add((n, tuple(blocks)))
                # ---- (b) ragged writes at every position >= 1
                if fmt == "h5-append":
                    continue
                kinds = ["atoms+1", "atoms-1", "atoms=1"]
                # cell presence is per-file state for these; PDB holds one CRYST1 header (later cell arguments are
                # ignored, the file cannot become ragged), xyz has no cell, lammpstrj/dtr always need one
                if base in ("h5", "nc", "dcd", "xtc", "trr", "mdcrd", "gro"):
                    kinds.append("cell-drop" if cell else "cell-add")
                if base == "pdb" and not cell:
                    # PDB holds ONE CRYST1 header: a cell supplied with a later model cannot be stored for that model alone.
                    # Whether the writer refuses it or ignores it is its choice; the frames accepted without a cell must not
                    # come back WITH one (judged below as 'late-cell')
                    kinds.append("late-cell")
                # time is optional per file for these; xtc/trr/dtr always store a time (nothing ragged can result)
                if base in ("h5", "nc", "gro"):
                    kinds.append("time-drop" if time else "time-add")
                for pos in range(1, len(blocks)):
                    for kind, after in itertools.product(kinds, ("close", "retry", "continue")):
                        n_exec += 1
                        if os.path.isdir(p):
                            shutil.rmtree(p)
                        elif os.path.exists(p):
                            os.remove(p)
                        rep2 = dict(rep, kind="ragged", ragged=[pos, kind, after])
                        rtag = "%s|ragged=%s|cell=%s|time=%s" % (fmt, kind, cell, time)
                        if after != "close":
                            rtag += "|then=" + after
                        try:
                            accepted, outcome = _write_history(p, base, traj, blocks, cell, time, ragged=(pos, kind, after),
                                                               mode="a" if fmt == "h5-afresh" else "w")
                        except Exception as e:  # noqa
                            what = "close after refused write" if after != "continue" else "a well-formed write (or close) after a refused write"
                            viol.append((rtag + "|close-raised", "%s raised %s: %s (blocks %s, refused at %d)" % (what, type(e).__name__, str(e)[:120], blocks, pos), rep2))
                            continue
                        ragged_stats[outcome.split(":")[0]] = ragged_stats.get(outcome.split(":")[0], 0) + 1
                        if kind == "late-cell":
                            try:
                                got = _load(p, base, top)
                                ok_frames = got.n_frames in (accepted, accepted + blocks[pos]) or after == "continue"
                                if got.unitcell_lengths is not None or not ok_frames:
                                    viol.append((rtag + "|late-cell-changes-earlier-frames", "a cell supplied with a later model (%s): the file now loads with "
                                                 "cell %s for all %d frames, the first %d were written without one" % (
                                                     outcome, None if got.unitcell_lengths is None else got.unitcell_lengths[0].tolist(), got.n_frames, accepted), rep2))
                                else:
                                    ok.add((n, tuple(blocks), pos, kind, after))
                            except Exception as e:  # noqa
                                viol.append((rtag + "|after-late-cell|file-no-longer-loads", "%s: %s" % (type(e).__name__, str(e)[:120]), rep2))
                            continue
                        if outcome.startswith("accepted"):
                            viol.append((rtag + "|not-refused", "%s %s a write that makes the file ragged (%s at block %d of %s)" % (
                                fmt, "accepted" if outcome == "accepted" else "refused once but accepted on the second attempt", kind, pos, blocks), rep2))
                            continue
                        try:
                            got = _load(p, base, top)
                            dif = _diff(got, ref[:accepted])
                        except Exception as e:  # noqa
                            dif = "file no longer loads: %s: %s" % (type(e).__name__, str(e)[:140])
                        if dif:
                            viol.append((rtag + "|after-refusal|" + dif.split(":")[0].split(" ")[0],
                                         "after a refused %s write (%d frames accepted, blocks %s): %s" % (kind, accepted, blocks, dif), rep2))
                        else:
                            ok.add((n, tuple(blocks), pos, kind, after))
    finally:
        shutil.rmtree(d, ignore_errors=True)
    return viol, n_exec, len(ok), ragged_stats


def crash_job(args):
    fmt, cell, ns, seed, scratch = args
    from vlib.iso import isolated
    append = fmt.endswith("-append")       # HDF5 append mode: an earlier session wrote and closed the first block
    fmt = fmt.split("-")[0]
    d = os.path.join(scratch, "k_%s_%s_%s" % (fmt, cell, append))
    shutil.rmtree(d, ignore_errors=True)
    os.makedirs(d)
    viol = []
    n_exec = 0
    ok = 0
    unjudged = {}
    try:
        for n in ns:
            traj = _traj(4, cell, seed)[:n]
            top = traj.topology
            for blocks in compositions(n):
                if append and len(blocks) < 2:
                    continue
                for k in range(len(blocks) - (1 if append else 0)):
                    for before_flush in (False, True):
                        n_exec += 1
                        p = os.path.join(d, "c." + fmt)
                        if os.path.exists(p):
                            os.remove(p)
                        if append:
                            b0 = blocks[0]
                            _write_history(p, fmt, traj, [b0], cell, True)                 # session 1: written and closed
                            st, val = isolated(lambda: _write_history(p, fmt, traj[b0:], blocks[1:], cell, True, mode="a",
                                                                      crash_after=k, crash_before_flush=before_flush), 60)
                            want = b0 + sum(blocks[1:k + 2])
                        else:
                            st, val = isolated(lambda: _write_history(p, fmt, traj, blocks, cell, True, crash_after=k,
                                                                      crash_before_flush=before_flush), 60)
                            want = sum(blocks[:k + 1])
                        rep = {"kind": "crash", "fmt": fmt + ("-append" if append else ""), "cell": cell, "n": n, "blocks": blocks,
                               "k": k, "before_flush": before_flush}
                        if st != "crash":
                            viol.append(("%s|crash|harness" % fmt, "child did not die by SIGKILL: %s %s" % (st, val), rep))
                            continue
                        try:
                            got = _load(p, fmt, top)
                            dif = _diff(got, traj_loaded_prefix(fmt, traj, top, want, cell, d))
                        except Exception as e:  # noqa
                            dif = "file does not load: %s: %s" % (type(e).__name__, str(e)[:140])
                        if before_flush:
                            key = "survived" if not dif else "lost:" + dif.split(":")[0][:40]
                            unjudged[key] = unjudged.get(key, 0) + 1
                            continue
                        if dif:
                            viol.append(("%s|crash-after-flush|cell=%s|%s" % (rep["fmt"], cell, dif.split(":")[0].split(" ")[0]),
                                         "killed after write %d (+flush) of %s: expected %d frames on disk: %s" % (k + 1, blocks, want, dif), rep))
                        else:
                            ok += 1
    finally:
        shutil.rmtree(d, ignore_errors=True)
    return viol, n_exec, ok, unjudged


_PREFIX_CACHE = {}


def traj_loaded_prefix(fmt, traj, top, m, cell, d):
    """What a cleanly written and closed file of the first m frames loads as (reference for crash images)."""
    key = (fmt, m, cell, traj.n_frames)
    if key not in _PREFIX_CACHE:
        p = os.path.join(d, "ref_%d.%s" % (m, fmt))
        _write_history(p, fmt, traj[:m], [m], cell, True)
        _PREFIX_CACHE[key] = _load(p, fmt, top)
        os.remove(p)
    return _PREFIX_CACHE[key]


def run(ctx):
    ns = [N] if ctx.quick else [1, 2, 3, 4, 5]
    jobs = [(f, c, t, ns, ctx.seed, ctx.scratch) for f, c, t in _fmt_jobs(ctx.quick)]
    cjobs = [(f, c, ns, ctx.seed, ctx.scratch) for f in CRASH_FORMATS + ["h5-append"] for c in (True, False)]
    outs = ctx.pmap(incremental_job, jobs)
    couts = ctx.pmap(crash_job, cjobs)
    n_exec = ok = 0
    rstats = {}
    for v, n, k, rs in outs:
        ctx.report(v)
        n_exec += n
        ok += k
        for a, b in rs.items():
            rstats[a] = rstats.get(a, 0) + b
    crash_exec = crash_ok = 0
    unj = {}
    for v, n, k, u in couts:
        ctx.report(v)
        crash_exec += n
        crash_ok += k
        for a, b in u.items():
            unj[a] = unj.get(a, 0) + b
    return "fault_enumeration", {
        "evaluations": n_exec + crash_exec, "distinct_nontrivial": ok + crash_ok,
        "rule": "every ordered partition of n frames x format x cell x time; one ragged write of each kind at every "
                "position >= 1; every crash point (partition, k, before/after flush) for h5/nc/dcd/xtc executed by SIGKILL; "
                "counted when the loaded file equals the model (one-shot file / accepted prefix)",
        "samples": [{"fmt": "nc", "blocks": [2, 1, 2], "ragged": [1, "time-drop"]},
                    {"fmt": "xtc", "blocks": [1, 3, 1], "crash_after_write": 2}],
        "exhaustive": True,
        "write_histories_executed": n_exec, "crash_points_executed": crash_exec,
        "crash_points_judged_ok": crash_ok, "ragged_outcomes": rstats,
        "crash_before_flush_outcomes(recorded,not judged)": unj,
        "axes": {"formats": FORMATS + ["h5-append"], "crash_formats": CRASH_FORMATS, "n": ns,
                 "ragged_kinds": ["atoms+1", "atoms-1", "atoms=1", "cell-drop/add", "time-drop/add"]},
    }


def replay(ctx, rep):
    def once():
        if rep["kind"] == "crash":
            v = crash_one(ctx, rep)
        else:
            v = hist_one(ctx, rep)
        return v
    a, b = once(), once()
    print("replay 1:", a)
    print("replay 2:", b)
    assert a == b, "replay not deterministic"
    return a is None


def hist_one(ctx, rep):
    fmt = rep["fmt"]
    base = fmt.split("-")[0]
    traj = _traj(4, rep["cell"], ctx.seed)[:rep["n"]]
    d = os.path.join(ctx.scratch, "rp")
    shutil.rmtree(d, ignore_errors=True)
    os.makedirs(d)
    one = os.path.join(d, "one." + base)
    p = os.path.join(d, "inc." + base)
    _write_history(one, base, traj, [rep["n"]], rep["cell"], rep["time"])
    ref = _load(one, base, traj.topology)
    blocks = rep["blocks"]
    if rep["kind"] == "incremental":
        try:
            if fmt == "h5-append":
                _write_history(p, base, traj, blocks[:1], rep["cell"], rep["time"])
                lo = blocks[0]
                for b in blocks[1:]:
                    _write_history(p, base, traj[lo:lo + b], [b], rep["cell"], rep["time"], mode="a")
                    lo += b
            else:
                _write_history(p, base, traj, blocks, rep["cell"], rep["time"])
            return _diff(_load(p, base, traj.topology), ref)
        except Exception as e:  # noqa
            return "raised %s" % type(e).__name__
    rg = tuple(rep["ragged"])
    try:
        accepted, outcome = _write_history(p, base, traj, blocks, rep["cell"], rep["time"], ragged=rg)
    except Exception as e:  # noqa
        return "close raised %s" % type(e).__name__
    if outcome.startswith("accepted"):
        return "not refused"
    try:
        return _diff(_load(p, base, traj.topology), ref[:accepted])
    except Exception as e:  # noqa
        return "file no longer loads: %s" % type(e).__name__


def crash_one(ctx, rep):
    from vlib.iso import isolated
    append = rep["fmt"].endswith("-append")
    fmt = rep["fmt"].split("-")[0]
    traj = _traj(4, rep["cell"], ctx.seed)[:rep["n"]]
    d = os.path.join(ctx.scratch, "rpc")
    shutil.rmtree(d, ignore_errors=True)
    os.makedirs(d)
    p = os.path.join(d, "c." + fmt)
    blocks = rep["blocks"]
    if append:
        _write_history(p, fmt, traj, blocks[:1], rep["cell"], True)
        st, val = isolated(lambda: _write_history(p, fmt, traj[blocks[0]:], blocks[1:], rep["cell"], True, mode="a",
                                                  crash_after=rep["k"], crash_before_flush=rep["before_flush"]), 60)
        want = blocks[0] + sum(blocks[1:rep["k"] + 2])
    else:
        st, val = isolated(lambda: _write_history(p, fmt, traj, blocks, rep["cell"], True, crash_after=rep["k"],
                                                  crash_before_flush=rep["before_flush"]), 60)
        want = sum(blocks[:rep["k"] + 1])
    try:
        return _diff(_load(p, fmt, traj.topology), traj_loaded_prefix(fmt, traj, traj.topology, want, rep["cell"], d))
    except Exception as e:  # noqa
        return "file does not load: %s" % type(e).__name__
