"""histx: explicit-state exploration of operation histories on real objects against a reference model.

A *spec* object provides
    initials()            -> list of initial-state names
    model(init)           -> fresh reference model:  .enabled() -> [op], .apply(op) -> expected, .key() -> hashable
    real(init)            -> fresh real object:      .apply(op) -> observation, .close()
    compare(op, exp, got) -> None | str (mismatch description)
    sig(init, hist, i, mismatch) -> signature string for known-finding matching
Ops are json-able tuples.  A state is the history that reaches it; the real object is rebuilt by
replaying the history (live objects are not copied).

Two exhaustive searches:
  * all_histories(depth): every op sequence of exactly `depth` ops (shorter where nothing is enabled), no
    state merging at all;
  * bfs_closure(max_depth): breadth-first over model states with de-duplication by model.key(), every
    transition executed on the real object from a representative (shortest) history.
Each execution checks every step, not only the last.
"""
import hashlib
import json
from collections import deque

from vlib.runner import Watchdog


def _digest(obj):
    return hashlib.sha1(json.dumps(obj, sort_keys=True, default=repr).encode()).hexdigest()[:16]


def run_history(spec, init, hist, horizon_s=20.0):
    """Execute hist on a fresh real object and a fresh model.  Returns (violation|None, outcome digest)."""
    m = spec.model(init)
    obs = []
    try:
        with Watchdog(horizon_s):
            r = spec.real(init)
            try:
                for i, op in enumerate(hist):
                    exp = m.apply(op)
                    try:
                        got = r.apply(op)
                    except Watchdog.Timeout:
                        raise
                    except Exception as e:  # an in-range op must not raise
                        got = ("EXC", type(e).__name__, str(e)[:200])
                    mis = spec.compare(op, exp, got)
                    obs.append(spec.summ(got) if hasattr(spec, "summ") else None)
                    if mis is not None:
                        sig = spec.sig(init, hist, i, mis)
                        detail = "init=%s history=%s step=%d op=%s: %s" % (init, hist[: i + 1], i, op, mis)
                        return (sig, detail, {"init": init, "history": hist[: i + 1]}), _digest(obs)
            finally:
                try:
                    r.close()
                except Exception:
                    pass
    except Watchdog.Timeout:
        sig = spec.sig(init, hist, len(obs), "horizon")
        return (sig, "init=%s history=%s did not finish within %.0fs (livelock/hang)" % (init, hist, horizon_s),
                {"init": init, "history": hist}), "hang"
    return None, _digest(obs)


def gen_histories(spec, init, depth):
    """All maximal op sequences of length <= depth, model-driven (the model decides what is in range)."""
    out = []

    def rec(hist):
        m = spec.model(init)
        for op in hist:
            m.apply(op)
        ops = m.enabled() if len(hist) < depth else []
        if not ops:
            out.append(list(hist))
            return
        for op in ops:
            rec(hist + [op])

    rec([])
    return out


def _run_chunk(args):
    spec, init, hists = args
    res = []
    outcomes = set()
    steps = 0
    for h in hists:
        v, d = run_history(spec, init, h)
        outcomes.add(d)
        steps += len(h)
        if v:
            res.append(v)
    return res, outcomes, steps, len(hists)


def all_histories(ctx, spec, depth, chunk=200):
    """Unmerged enumeration.  Returns stats dict; violations are reported to ctx."""
    jobs = []
    n_hist = 0
    sample = []
    for init in spec.initials():
        hs = gen_histories(spec, init, depth)
        n_hist += len(hs)
        if hs:
            sample.append({"init": init, "history": hs[len(hs) // 2]})
        for i in range(0, len(hs), chunk):
            jobs.append((spec, init, hs[i:i + chunk]))
    outs = ctx.pmap(_run_chunk, jobs)
    outcomes = set()
    steps = 0
    for res, oc, st, _n in outs:
        ctx.report(res)
        outcomes |= oc
        steps += st
    return {"histories": n_hist, "steps": steps, "distinct_outcomes": len(outcomes), "depth": depth,
            "samples": sample[:4]}


def _bfs_one(args):
    spec, init, max_depth = args
    m0 = spec.model(init)
    seen = {m0.key(): []}
    frontier = deque([[]])
    transitions = 0
    viols = []
    maxd = 0
    capped = False
    bad = set()
    while frontier:
        hist = frontier.popleft()
        m = spec.model(init)
        for op in hist:
            m.apply(op)
        for op in m.enabled():
            h2 = hist + [op]
            transitions += 1
            v, _d = run_history(spec, init, h2)
            if v:
                viols.append(v)
                continue  # do not explore beyond a state where model and implementation already disagree
            m2 = spec.model(init)
            for o in h2:
                m2.apply(o)
            k = m2.key()
            if k not in seen:
                if max_depth is not None and len(h2) > max_depth:
                    capped = True
                    continue
                seen[k] = h2
                maxd = max(maxd, len(h2))
                frontier.append(h2)
    return {"init": init, "states": len(seen), "transitions": transitions, "max_depth": maxd,
            "depth_capped": capped, "violations": viols,
            "sample": max(seen.values(), key=len)}


def bfs_closure(ctx, spec, max_depth=None):
    outs = ctx.pmap(_bfs_one, [(spec, init, max_depth) for init in spec.initials()])
    states = transitions = 0
    maxd = 0
    capped = False
    samples = []
    for o in outs:
        ctx.report(o["violations"])
        states += o["states"]
        transitions += o["transitions"]
        maxd = max(maxd, o["max_depth"])
        capped = capped or o["depth_capped"]
        samples.append({"init": o["init"], "history": o["sample"]})
    return {"states": states, "transitions": transitions, "max_depth": maxd, "depth_capped": capped,
            "samples": samples[:4]}
