"""gridx: designed finite input alphabets shared by the numeric checks (DESIGN §2.4).

Everything here is deterministic.  `seed` only shifts the phase of a low-discrepancy jitter, so every
seed names a different but equally complete finite space.
"""
import itertools

import numpy as np

EPS32 = float(np.finfo(np.float32).eps)


def lengths_angles_to_vectors(a, b, c, alpha, beta, gamma):
    """float64, standard orientation (a along x, b in xy-plane); angles in degrees."""
    al, be, ga = np.deg2rad([alpha, beta, gamma])
    av = np.array([a, 0.0, 0.0])
    bv = np.array([b * np.cos(ga), b * np.sin(ga), 0.0])
    cx = c * np.cos(be)
    cy = c * (np.cos(al) - np.cos(be) * np.cos(ga)) / np.sin(ga)
    cz2 = c * c - cx * cx - cy * cy
    cv = np.array([cx, cy, np.sqrt(max(cz2, 0.0))])
    return np.array([av, bv, cv])


def cell_valid(alpha, beta, gamma):
    al, be, ga = np.deg2rad([alpha, beta, gamma])
    v = 1 - np.cos(al) ** 2 - np.cos(be) ** 2 - np.cos(ga) ** 2 + 2 * np.cos(al) * np.cos(be) * np.cos(ga)
    return v > 1e-3


# name -> (lengths, angles)
_CELLS = [
    ("cubic3", (3.0, 3.0, 3.0), (90, 90, 90)),
    ("ortho234", (2.0, 3.0, 4.0), (90, 90, 90)),
    ("mono110", (3.0, 3.5, 4.0), (90, 110, 90)),
    ("mono_a75", (3.0, 3.5, 4.0), (75, 90, 90)),          # alpha is the ONLY skewed angle (c has a y component only)
    ("hex60", (3.0, 3.0, 4.0), (90, 90, 60)),
    ("hex120", (3.0, 3.0, 4.0), (90, 90, 120)),
    ("truncoct", (3.0, 3.0, 3.0), (109.4712190, 109.4712190, 109.4712190)),
    ("rhombdod_a", (3.0, 3.0, 3.0), (60, 60, 90)),
    ("rhombdod_b", (3.0, 3.0, 3.0), (90, 60, 60)),
    ("tric_75_100_115", (3.0, 3.4, 3.8), (75, 100, 115)),
    ("tric_45_60_75", (3.0, 3.0, 3.0), (45, 60, 75)),
    ("tric_135_100_110", (3.0, 3.2, 3.5), (135, 100, 110)),
    ("ortho116", (1.5, 1.5, 9.0), (90, 90, 90)),
    ("ortho611", (9.0, 1.5, 1.5), (90, 90, 90)),
    ("tric116", (1.5, 1.5, 9.0), (80, 95, 70)),
]


def cell_menu(quick=False, unreduced=True):
    """List of dicts: name, vectors (3x3 float64, rows a,b,c), lengths, angles, reduced(bool), ortho(bool).

    Unreduced variants describe the *same lattice* with integer multiples of earlier vectors added
    (b += a, c += a - b ...), which keeps a along x / b in the xy-plane so the lengths/angles description
    stays exact."""
    out = []
    names = ["cubic3", "ortho234", "mono110", "mono_a75", "hex60", "truncoct", "tric_75_100_115"] if quick else [c[0] for c in _CELLS]
    for name, L, A in _CELLS:
        if name not in names:
            continue
        assert cell_valid(*A), name
        v = lengths_angles_to_vectors(*L, *A)
        out.append(dict(name=name, vectors=v, lengths=np.array(L, float), angles=np.array(A, float),
                        reduced=True, ortho=all(abs(x - 90) < 1e-9 for x in A)))
        if unreduced and not all(abs(x - 90) < 1e-9 for x in A):
            u = v.copy()
            u[1] = v[1] + v[0]
            u[2] = v[2] + v[0] - v[1]
            Lu, Au = vectors_to_lengths_angles(u)
            out.append(dict(name=name + "+unreduced", vectors=u, lengths=Lu, angles=Au, reduced=False, ortho=False))
    return out


def vectors_to_lengths_angles(v):
    a, b, c = v
    L = np.array([np.linalg.norm(a), np.linalg.norm(b), np.linalg.norm(c)])
    ang = lambda x, y: np.degrees(np.arccos(np.clip(np.dot(x, y) / np.linalg.norm(x) / np.linalg.norm(y), -1, 1)))
    return L, np.array([ang(b, c), ang(a, c), ang(a, b)])


def cell_widths(v):
    """Perpendicular widths of the cell (distance between opposite faces), float64."""
    a, b, c = v
    vol = abs(np.dot(a, np.cross(b, c)))
    return np.array([vol / np.linalg.norm(np.cross(b, c)), vol / np.linalg.norm(np.cross(c, a)),
                     vol / np.linalg.norm(np.cross(a, b))])


def cube_rotations():
    """The 24 proper rotations of the cube (signed permutation matrices with det +1)."""
    out = []
    for perm in itertools.permutations(range(3)):
        for signs in itertools.product((1, -1), repeat=3):
            m = np.zeros((3, 3))
            for i, (p, s) in enumerate(zip(perm, signs)):
                m[i, p] = s
            if np.linalg.det(m) > 0:
                out.append(m)
    return out


def generic_rotations(n=6, seed=0):
    """n deterministic generic rotations (from a Halton sequence of quaternions)."""
    out = []
    for k in range(n):
        u = np.array([halton(k + 1 + 7 * seed, b) for b in (2, 3, 5)])
        q = np.array([np.sqrt(1 - u[0]) * np.sin(2 * np.pi * u[1]), np.sqrt(1 - u[0]) * np.cos(2 * np.pi * u[1]),
                      np.sqrt(u[0]) * np.sin(2 * np.pi * u[2]), np.sqrt(u[0]) * np.cos(2 * np.pi * u[2])])
        x, y, z, w = q
        out.append(np.array([[1 - 2 * (y * y + z * z), 2 * (x * y - z * w), 2 * (x * z + y * w)],
                             [2 * (x * y + z * w), 1 - 2 * (x * x + z * z), 2 * (y * z - x * w)],
                             [2 * (x * z - y * w), 2 * (y * z + x * w), 1 - 2 * (x * x + y * y)]]))
    return out


def _quick_cube_subset():
    """Identity, all three axis half-turns (q0 = 0: the degenerate cases of quaternion-based superposition), two
    diagonal half-turns, two quarter turns and one 120-degree turn."""
    out, seen = [], {}
    for m in cube_rotations():
        ang = int(round(np.degrees(np.arccos(np.clip((np.trace(m) - 1) / 2, -1, 1)))))
        axis_aligned = int(np.abs(np.diag(m)).sum()) >= 1 and ang in (90, 180) and np.count_nonzero(np.diag(m) == 1) == 1
        key = (ang, axis_aligned)
        limit = {(0, False): 1, (180, True): 3, (180, False): 2, (90, True): 2, (120, False): 1}.get(key, 0)
        if seen.get(key, 0) < limit:
            seen[key] = seen.get(key, 0) + 1
            out.append(m)
    return out


def rotations(quick=False, seed=0):
    return (_quick_cube_subset() if quick else cube_rotations()) + generic_rotations(3 if quick else 6, seed)


def halton(i, base):
    f, r = 1.0, 0.0
    while i > 0:
        f /= base
        r += f * (i % base)
        i //= base
    return r


def jitter(n, dim=3, scale=1.0, seed=0):
    """(n, dim) deterministic low-discrepancy points in [-scale/2, scale/2)."""
    primes = [2, 3, 5, 7, 11, 13][:dim]
    return np.array([[halton(i + 1 + 101 * seed, p) - 0.5 for p in primes] for i in range(n)]) * scale


def frac_grid(lo=-2.5, hi=2.5, step=0.25):
    """All fractional displacement triples on the grid."""
    ax = np.arange(lo, hi + 1e-9, step)
    return np.array(list(itertools.product(ax, repeat=3)))
