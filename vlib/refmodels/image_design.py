"""C11: designed molecular systems, scatter enumerations and float64 geometry helpers for the re-imaging checks.

A *system* is (n_atoms, molecules as atom-index tuples, bonds as index pairs in the order they are added to the
Topology, base geometry in units of the bond length, fractional position of each molecule's centroid).
"""
import itertools

import numpy as np

from vlib import grids

IMAGES = np.array(list(itertools.product((-1, 0, 1), repeat=3)), dtype=np.int64)          # 27
NONZERO = np.array([s for s in IMAGES if np.any(s != 0)], dtype=np.int64)                  # 26


_RC = {}


def needed_R(V, key=None):
    """Smallest search radius R in {1, 2, 3} for which mic.min_image (which centres its search on the rounded
    fractional displacement) returns the same distance as R = 4 on a 17^3 grid covering the whole residual cube
    [-0.5, 0.5]^3 of fractional displacements.  The candidate set relative to the residual is the same for every
    displacement, so this measures the radius the cell needs; it only saves time, the oracle stays brute force."""
    from vlib.refmodels import mic
    if key is not None and key in _RC:
        return _RC[key]
    ax = np.linspace(-0.5, 0.5, 17)
    fr = np.array(list(itertools.product(ax, repeat=3)))
    disp = fr @ np.asarray(V, np.float64)
    ref = np.concatenate([mic.min_image(disp[a:a + 1024], V, 4)[0] for a in range(0, len(disp), 1024)])
    out = 4
    for R in (1, 2, 3):
        d = np.concatenate([mic.min_image(disp[a:a + 2048], V, R)[0] for a in range(0, len(disp), 2048)])
        if np.all(np.abs(d - ref) <= 1e-12):
            out = R
            break
    if key is not None:
        _RC[key] = out
    return out


def _needed_R_job(a):
    return needed_R(a[1])


def measure_radii(ctx, menu, stored_vectors):
    """Fill the radius cache for every menu cell (parallel, before the main fork). stored_vectors(cell) -> 3x3."""
    todo = [(c["name"], np.asarray(stored_vectors(c), np.float64)) for c in menu if c["name"] not in _RC]
    for (name, _v), R in zip(todo, ctx.pmap(_needed_R_job, todo)):
        _RC[name] = R
    return dict(_RC)


def _rot(seed):
    return grids.generic_rotations(1, seed)[0]


def _chain3():
    a = np.deg2rad(68.0)
    return np.array([[0, 0, 0], [1, 0, 0], [1 + np.cos(a), np.sin(a), 0.0]])


def _ring3():
    return np.array([[0, 0, 0], [1, 0, 0], [0.5, 0.86, 0.1]])


def _star4():
    # centre first, three arms of unit length, roughly tetrahedral
    return np.array([[0, 0, 0], [1, 0, 0], [-0.33, 0.94, 0], [-0.33, -0.47, 0.82]])


def _path4():
    return np.array([[0, 0, 0], [1, 0, 0], [1.35, 0.93, 0], [2.2, 1.1, 0.55]])


# non-anchor molecule templates: (geometry in bond lengths, bonds)
W_TEMPLATES = {
    "chain3": (_chain3, [(0, 1), (1, 2)]),
    "ring3": (_ring3, [(0, 1), (1, 2), (0, 2)]),
    "star4": (_star4, [(0, 1), (0, 2), (0, 3)]),
    "path4": (_path4, [(0, 1), (1, 2), (2, 3)]),
}
# where the non-anchor molecule's centroid ends up after the anchor has been centred: on the x, y, z face of the
# brick cell and on its corner (mask m: centroid = cell centre - 0.5*m*diag)
PLACEMENTS = [(1, 0, 0), (0, 1, 0), (0, 0, 1), (1, 1, 1)]
FACE6 = np.array([[1, 0, 0], [-1, 0, 0], [0, 1, 0], [0, -1, 0], [0, 0, 1], [0, 0, -1]], dtype=np.int64)


def relabelled_systems(quick):
    """Anchor A (3-chain, explicit anchor) + one non-anchor molecule W in EVERY permutation of W's atom order, W placed so
    that it straddles a cell face / the cell corner once the anchor is centred; image_molecules is called with its
    default other_molecules (from Topology.find_molecules()).  Plus a 16-atom system (4-star + W + 9 ions = 11
    molecules) for the fully default call with guessed anchors."""
    out = []
    gA = _chain3()
    for wname, (gfun, wb) in W_TEMPLATES.items():
        gW = gfun()
        nW = len(gW)
        for perm in itertools.permutations(range(nW)):
            for order in (("after",) if quick or nW > 3 else ("after", "before")):
                n = 3 + nW
                offA, offW = (0, 3) if order == "after" else (nW, 0)
                A = tuple(offA + i for i in range(3))
                W = tuple(offW + perm[t] for t in range(nW))            # template atom t -> global index W[t]
                geom = np.zeros((n, 3))
                geom[list(A)] = gA
                geom[list(W)] = gW
                bonds = [(A[0], A[1]), (A[1], A[2])] + [(W[a], W[b]) for a, b in wb]
                out.append(dict(name="aw-%s/lab=%s/%s" % (wname, "".join(map(str, perm)), order), n=n,
                                mols=[A, tuple(sorted(W))], bonds=bonds, geom=geom,
                                centres=np.array([[0.5, 0.5, 0.5], [0.5, 0.5, 0.5]]), small=False, anchors=[0],
                                placements=PLACEMENTS, wmol=1, light=True))
    gS, gW = _star4(), _chain3()
    for perm in itertools.permutations(range(3)):
        n = 16
        A = (0, 1, 2, 3)
        W = tuple(4 + perm[t] for t in range(3))
        geom = np.zeros((n, 3))
        geom[list(A)] = gS
        geom[list(W)] = gW
        bonds = [(0, 1), (0, 2), (0, 3), (W[0], W[1]), (W[1], W[2])]
        cen = [[0.5, 0.5, 0.5], [0.5, 0.5, 0.5]] + [[(0.1 + 0.23 * k) % 1, (0.2 + 0.31 * k) % 1, (0.85 - 0.17 * k) % 1]
                                                     for k in range(9)]
        out.append(dict(name="guess16-chain3/lab=%s" % "".join(map(str, perm)), n=n,
                        mols=[A, tuple(sorted(W))] + [(i,) for i in range(7, 16)], bonds=bonds, geom=geom,
                        centres=np.array(cen), small=False, anchors="guess", placements=PLACEMENTS, wmol=1, light=True))
    return out


TINY_CELLS = [
    ("tiny-ortho-a", (0.50, 0.50, 0.52), (90, 90, 90)),
    ("tiny-ortho-b", (0.45, 0.45, 0.60), (90, 90, 90)),
    ("tiny-ortho-c", (0.40, 0.55, 0.70), (90, 90, 90)),
    ("tiny-mono", (0.45, 0.60, 0.50), (90, 110, 90)),
    ("tiny-hex", (0.50, 0.50, 0.60), (90, 90, 60)),
    ("tiny-tric", (0.50, 0.55, 0.60), (80, 100, 70)),
]


def tiny_cells(quick):
    """Cells with edges 0.4-0.7 nm (crystal-like), orthorhombic and triclinic; thorough: also unreduced forms."""
    out = []
    for name, L, A in TINY_CELLS:
        v = grids.lengths_angles_to_vectors(*L, *A)
        ortho = all(abs(x - 90) < 1e-9 for x in A)
        out.append(dict(name=name, vectors=v, lengths=np.array(L, float), angles=np.array(A, float), reduced=True,
                        ortho=ortho, tiny=True))
        if not quick and not ortho:
            u = v.copy()
            u[1] = v[1] + v[0]
            u[2] = v[2] + v[0] - v[1]
            Lu, Au = grids.vectors_to_lengths_angles(u)
            out.append(dict(name=name + "+unreduced", vectors=u, lengths=Lu, angles=Au, reduced=False, ortho=False, tiny=True))
    return out


def walk_order(n, bonds, root="low"):
    """A valid placement order for make_whole: rows (placed atom, atom to place) of a breadth-first walk over every
    molecule, started from its lowest ("low") or highest ("high") atom index; ring-closing bonds are left out."""
    adj = [[] for _ in range(n)]
    for a, b in bonds:
        adj[a].append(b)
        adj[b].append(a)
    placed = [False] * n
    rows = []
    order = range(n) if root == "low" else range(n - 1, -1, -1)
    for r in order:
        if placed[r] or not adj[r]:
            continue
        placed[r] = True
        queue = [r]
        while queue:
            nxt = []
            for a in queue:
                for b in (sorted(adj[a]) if root == "low" else sorted(adj[a], reverse=True)):
                    if not placed[b]:
                        placed[b] = True
                        rows.append((a, b))
                        nxt.append(b)
            queue = nxt
    return np.asarray(rows, dtype=np.int32).reshape(-1, 2)


def components(n, bonds):
    """Connected components of the bond graph (union-find), as a set of frozensets of atom indices."""
    parent = list(range(n))

    def find(a):
        while parent[a] != a:
            parent[a] = parent[parent[a]]
            a = parent[a]
        return a
    for a, b in bonds:
        ra, rb = find(a), find(b)
        if ra != rb:
            parent[max(ra, rb)] = min(ra, rb)
    comp = {}
    for i in range(n):
        comp.setdefault(find(i), set()).add(i)
    return {frozenset(c) for c in comp.values()}


def all_graphs(nmax):
    """Every labelled simple graph on 1..nmax atoms: (n, edge list)."""
    for n in range(1, nmax + 1):
        edges = list(itertools.combinations(range(n), 2))
        for mask in range(1 << len(edges)):
            yield n, [e for k, e in enumerate(edges) if mask >> k & 1]


def multi_anchor_systems(quick):
    """Two and three ANCHOR molecules that contain hydrogens (real element types), every order of the explicit anchor
    list, plus guessed anchors (enough ions that guess_anchor_molecules picks exactly the bonded molecules); the scatter
    is every placement of the non-first molecules in the images {-1,0,1}^3 relative to the first (molshift)."""
    out = []
    a = np.deg2rad(104.0)
    xh2 = np.array([[0, 0, 0], [1, 0, 0], [np.cos(a), np.sin(a), 0.0]])              # X H H
    ch3 = _star4()                                                                  # C H H H
    xh = np.array([[0, 0, 0], [0, 0.8, 0.6]])
    cA, cB, cC = [0.3, 0.35, 0.4], [0.62, 0.55, 0.5], [0.45, 0.72, 0.3]

    def ions(k, start):
        return [[(0.08 + 0.19 * i) % 1, (0.12 + 0.37 * i) % 1, (0.9 - 0.23 * i) % 1] for i in range(start, start + k)]

    def build(name, mols_geo, n_ions, anchors):
        n = sum(len(g) for g, _e, _b, _c in mols_geo) + n_ions
        geom = np.zeros((n, 3))
        elements, mols, bonds, centres = [], [], [], []
        k = 0
        for g, el, bl, cen in mols_geo:
            idx = tuple(range(k, k + len(g)))
            geom[list(idx)] = g
            elements += el
            mols.append(idx)
            bonds += [(k + x, k + y) for x, y in bl]
            centres.append(cen)
            k += len(g)
        for i, cen in enumerate(ions(n_ions, 3)):
            mols.append((k,))
            elements.append("Na")
            centres.append(cen)
            k += 1
        out.append(dict(name=name, n=n, mols=mols, bonds=bonds, geom=geom, centres=np.array(centres, float), small=False,
                        anchors=anchors, elements=elements, molshift=list(range(1, len(mols_geo))), light=True))

    A = (xh2, ["O", "H", "H"], [(0, 1), (0, 2)], cA)
    B = (ch3, ["C", "H", "H", "H"], [(0, 1), (0, 2), (0, 3)], cB)
    C = (xh, ["N", "H"], [(0, 1)], cC)
    Hf = (xh2[[1, 2, 0]], ["H", "H", "O"], [(0, 2), (1, 2)], cB)                      # hydrogens first, heavy atom last
    for order in itertools.permutations(range(2)):
        build("anch2/order=%s" % "".join(map(str, order)), [A, B], 1, list(order))
    build("anch2-HHO/order=01", [A, Hf], 1, [0, 1])
    for order in itertools.permutations(range(3)):
        if quick and order not in ((0, 1, 2), (1, 2, 0), (2, 0, 1)):      # quick: each molecule is the first anchor once
            continue
        build("anch3/order=%s" % "".join(map(str, order)), [A, B, C], 1, list(order))
        out[-1]["face7_quick"] = order != (0, 1, 2)      # quick: complete 27^2 for one order, 7^2 face placements for the others
    build("anch2/guessed", [A, B], 18, "guess")              # 20 molecules -> both bonded molecules are anchors
    if not quick:
        build("anch3/guessed", [A, B, C], 27, "guess")       # 30 molecules
    return out


def systems(quick):
    """name -> list of variants; each variant dict(name, n, mols, bonds(list in insertion order), geom (n,3), centres (per mol, fractional), small(bool))."""
    out = []

    def add(name, n, mols, bonds, geom, centres, small, anchors=None):
        out.append(dict(name=name, n=n, mols=[tuple(m) for m in mols], bonds=[tuple(b) for b in bonds],
                        geom=np.asarray(geom, float), centres=np.asarray(centres, float), small=small,
                        anchors=anchors))

    c = [[0.5, 0.5, 0.5]]
    add("diatomic", 2, [(0, 1)], [(0, 1)], [[0, 0, 0], [1, 0, 0]], c, True)
    # 3-chain: every labelling of the middle atom x every permutation of the bond list
    g = _chain3()
    for centre in (0, 1, 2):
        ends = [i for i in range(3) if i != centre]
        geom = np.zeros((3, 3))
        geom[ends[0]], geom[centre], geom[ends[1]] = g[0], g[1], g[2]
        bl = [(ends[0], centre), (centre, ends[1])]
        for pi, perm in enumerate(itertools.permutations(bl)):
            add("chain3/centre=%d/perm=%d" % (centre, pi), 3, [(0, 1, 2)], perm, geom, c, True)
    # 3-ring: every permutation (and both orientations of the pair are normalised by add_bond)
    for pi, perm in enumerate(itertools.permutations([(0, 1), (1, 2), (0, 2)])):
        add("ring3/perm=%d" % pi, 3, [(0, 1, 2)], perm, _ring3(), c, True)
    # branched 4-atom star: every labelling of the centre x every permutation of the 3 bonds
    g = _star4()
    for centre in ((0, 3) if quick else (0, 1, 2, 3)):
        arms = [i for i in range(4) if i != centre]
        geom = np.zeros((4, 3))
        geom[centre] = g[0]
        for k, a in enumerate(arms):
            geom[a] = g[k + 1]
        bl = [(centre, a) for a in arms]
        for pi, perm in enumerate(itertools.permutations(bl)):
            add("star4/centre=%d/perm=%d" % (centre, pi), 4, [(0, 1, 2, 3)], perm, geom, c, False)
    # two molecules + one ion; A = 3-chain, B = diatomic; two labellings x every permutation of the 3 bonds
    gA = _chain3()
    gB = np.array([[0, 0, 0], [0, 0.8, 0.6]])
    cen = [[0.3, 0.35, 0.4], [0.72, 0.6, 0.55], [0.15, 0.8, 0.2]]
    for lab, (A, B, I) in (("blocked", ((0, 1, 2), (3, 4), (5,))), ("interleaved", ((0, 2, 4), (1, 3), (5,)))):
        geom = np.zeros((6, 3))
        geom[list(A)] = gA
        geom[list(B)] = gB
        bl = [(A[0], A[1]), (A[1], A[2]), (B[0], B[1])]
        for pi, perm in enumerate(itertools.permutations(bl)):
            if quick and pi not in (0, 5):
                continue
            for anch in ("A", "AB"):
                add("mix6/%s/perm=%d/anchors=%s" % (lab, pi, anch), 6, [A, B, I], perm, geom, cen, False,
                    anchors=[0] if anch == "A" else [0, 1])
    # the same plus 8 more ions: 11 molecules, so that Topology.guess_anchor_molecules() selects something
    A, B = (0, 1, 2), (3, 4)
    geom = np.zeros((14, 3))
    geom[list(A)] = gA
    geom[list(B)] = gB
    cen14 = cen + [[(0.1 + 0.23 * k) % 1, (0.2 + 0.31 * k) % 1, (0.85 - 0.17 * k) % 1] for k in range(8)]
    add("mix14/guessed", 14, [A, B] + [(i,) for i in range(5, 14)], [(0, 1), (1, 2), (3, 4)], geom, cen14, False,
        anchors="guess")
    out[-1]["face6_quick"] = True          # quick tier: the 6 face images instead of all 26 for this 14-atom system
    return out + relabelled_systems(quick) + multi_anchor_systems(quick)


def merge_order(bonds_sorted):
    """True iff walking the bonds in this order and moving only the second atom of each bond must break an earlier
    bond for some scatter: some bond joins two already-started components through an atom that was seen before."""
    comp = {}
    seen = set()

    def find(a):
        while comp.get(a, a) != a:
            a = comp[a]
        return a
    bad = False
    for a1, a2 in bonds_sorted:
        r1, r2 = find(a1), find(a2)
        if a2 in seen and r1 != r2:
            bad = True
        comp[r2] = r1
        seen.add(a1)
        seen.add(a2)
    return bad


def side_of_bond(n, bonds, bond):
    """Atoms on the atom2 side of `bond` when it is cut, or None if the bond is in a ring."""
    adj = {i: set() for i in range(n)}
    for a, b in bonds:
        if (a, b) != bond and (b, a) != bond:
            adj[a].add(b)
            adj[b].add(a)
    todo, side = [bond[1]], {bond[1]}
    while todo:
        x = todo.pop()
        for y in adj[x]:
            if y not in side:
                side.add(y)
                todo.append(y)
    if bond[0] in side:
        return None
    return sorted(side)


def scatters(sysv, full):
    """Integer image assignment per atom, shape (F, n, 3).  Small molecules (<= 3 atoms): `full` -> every assignment of
    {-1,0,1}^3 per atom (27^n); else atom 0 fixed and every assignment for the other atoms (27^(n-1): every relative
    image configuration).  Larger systems: the identity, every
    single-atom scatter, every cut of a single (non-ring) bond with either side moved, every single-molecule shift.
    `light` systems (anchor + relabelled non-anchor molecule): the identity, every single-atom scatter and every
    whole-molecule shift of the first two molecules, by the 26 images (`full`) or the 6 face images."""
    n = sysv["n"]
    if sysv.get("molshift"):
        ms = sysv["molshift"]
        imgs = IMAGES if (len(ms) == 1 or (n <= 12 and (full or not sysv.get("face7_quick")))) \
            else np.vstack([np.zeros((1, 3), np.int64), FACE6])
        idx = np.array(list(itertools.product(range(len(imgs)), repeat=len(ms))))
        sc = np.zeros((len(idx), n, 3), np.int64)
        for col, mi in enumerate(ms):
            sc[:, list(sysv["mols"][mi])] = imgs[idx[:, col]][:, None, :]
        return sc
    if sysv["small"] and (full or n <= 2):
        idx = np.array(list(itertools.product(range(27), repeat=n)))
        return IMAGES[idx]
    if sysv["small"]:
        # atom 0 stays in the home image, every other atom takes every image: all relative configurations
        idx = np.array(list(itertools.product(range(27), repeat=n - 1)))
        sc = np.zeros((len(idx), n, 3), np.int64)
        sc[:, 1:] = IMAGES[idx]
        return sc
    rows = [np.zeros((n, 3), np.int64)]
    groups = [[i] for i in range(n)]
    light = bool(sysv.get("light"))
    images = FACE6 if ((light or sysv.get("face6_quick")) and not full) else NONZERO
    if light:
        groups = [[i] for m in sysv["mols"][:2] for i in m] + [list(m) for m in sysv["mols"][:2]]
    else:
        for b in sysv["bonds"]:
            s = side_of_bond(n, sysv["bonds"], b)
            if s is not None:
                groups.append(s)
                groups.append([i for i in range(n) if i not in s and any(i in m and b[0] in m for m in sysv["mols"])])
        for m in sysv["mols"]:
            groups.append(list(m))
    seen = set()
    for g in groups:
        k = tuple(g)
        if k in seen or not g:
            continue
        seen.add(k)
        for s in images:
            r = np.zeros((n, 3), np.int64)
            r[g] = s
            rows.append(r)
    return np.array(rows)


def base_positions(sysv, V, bond_len, seed, placement=None):
    """Cartesian positions (n,3) of the compact (whole) system in the cell V; generic orientation and jitter.
    placement (mask) moves molecule sysv['wmol'] by -0.5*mask*diag(V) from its centre."""
    R = _rot(seed)
    n = sysv["n"]
    j = grids.jitter(n, 3, 0.08, seed)
    x = np.zeros((n, 3))
    for m, cen in zip(sysv["mols"], sysv["centres"]):
        g = (sysv["geom"][list(m)] + j[list(m)]) @ R.T * bond_len
        g = g - g.mean(0)
        x[list(m)] = g + cen @ V
    if placement is not None:
        x[list(sysv["mols"][sysv["wmol"]])] -= 0.5 * np.asarray(placement, float) * np.diag(V)
    return x


def angle(u, v):
    """Angle between vectors (…,3), well conditioned everywhere."""
    return np.arctan2(np.linalg.norm(np.cross(u, v), axis=-1), np.einsum("...k,...k->...", u, v))


def dihedral(b1, b2, b3):
    n1 = np.cross(b1, b2)
    n2 = np.cross(b2, b3)
    m = np.cross(n1, b2 / np.linalg.norm(b2, axis=-1, keepdims=True))
    return np.arctan2(np.einsum("...k,...k->...", m, n2), np.einsum("...k,...k->...", n1, n2)), n1, n2


# ---------------------------------------------------------------------------------------------------------------
# History layer: one Topology object is edited in place between re-imaging calls.  The model below is the
# independent description of what the topology should be at every moment.

HIST_OPS = ("W", "I", "insF", "insI", "del", "bond")      # W = make_molecules_whole, I = image_molecules(make_whole=True)


def hist_systems():
    """name -> model: atoms as rows (molecule centre (fractional), local offset in bond lengths), bonds in topology
    order, residue id per atom, index of the atom whose molecule is the explicit anchor."""
    a = np.deg2rad(104.0)
    ohh = np.array([[0, 0, 0], [1, 0, 0], [np.cos(a), np.sin(a), 0.0]])          # O H H
    out = {}
    c1, c2, ci = [0.3, 0.35, 0.4], [0.72, 0.6, 0.55], [0.15, 0.8, 0.2]
    out["OHH+ion+OHH"] = dict(
        centre=np.array([c1] * 3 + [ci] + [c2] * 3), local=np.vstack([ohh, [[0, 0, 0]], ohh[:, [1, 2, 0]]]),
        bonds=[(0, 1), (0, 2), (4, 5), (4, 6)], res=[0, 0, 0, 2, 1, 1, 1], anchor=0)
    s = _star4()
    out["HHO+ion+star4(centre last)"] = dict(
        centre=np.array([c1] * 3 + [ci] + [c2] * 4), local=np.vstack([ohh[[1, 2, 0]], [[0, 0, 0]], s[[1, 2, 3, 0]]]),
        bonds=[(0, 2), (1, 2), (4, 7), (5, 7), (6, 7)], res=[0, 0, 0, 2, 1, 1, 1, 1], anchor=2)
    return out


def hist_clone(m):
    return dict(centre=m["centre"].copy(), local=m["local"].copy(), bonds=list(m["bonds"]), res=list(m["res"]),
                anchor=m["anchor"], inserted=list(m.get("inserted", [])))


def hist_edit(m, op):
    """Apply an edit to the model; returns a description of what to do to the real Topology, or None if the edit is
    not applicable in this state (the history is then pruned).
    ('insert', index, residue id) | ('delete', index) | ('bond', i, j)"""
    n = len(m["res"])
    deg = [0] * n
    for a, b in m["bonds"]:
        deg[a] += 1
        deg[b] += 1
    if op in ("insF", "insI"):
        k = 0 if op == "insF" else 1                  # front of the topology / inside the first bonded molecule
        ref = k                                        # the atom now at k (pushed to k+1) is the reference atom
        m["centre"] = np.insert(m["centre"], k, m["centre"][ref], axis=0)
        m["local"] = np.insert(m["local"], k, m["local"][ref] + np.array([0.3, 0.4, 0.2]), axis=0)
        m["bonds"] = [(a + (a >= k), b + (b >= k)) for a, b in m["bonds"]]
        m["res"].insert(k, m["res"][ref])
        m["anchor"] += m["anchor"] >= k
        m["inserted"] = [(i + (i >= k), r + (r >= k)) for i, r in m["inserted"]] + [(k, ref + 1)]
        return ("insert", k, m["res"][k])
    if op == "del":                                    # the lowest-index atom without any bond (renumbers what follows)
        cand = [i for i in range(n) if deg[i] == 0 and i != m["anchor"]]
        if not cand:
            return None
        d = cand[0]
        m["centre"] = np.delete(m["centre"], d, axis=0)
        m["local"] = np.delete(m["local"], d, axis=0)
        m["bonds"] = [(a - (a > d), b - (b > d)) for a, b in m["bonds"]]
        del m["res"][d]
        m["anchor"] -= m["anchor"] > d
        m["inserted"] = [(i - (i > d), r - (r > d)) for i, r in m["inserted"] if i != d and r != d]
        return ("delete", d)
    if op == "bond":                                   # an inserted, still unbonded site is bonded to its reference atom
        for i, r in m["inserted"]:
            if deg[i] == 0:
                m["bonds"].append((min(i, r), max(i, r)))
                return ("bond", i, r)
        return None
    raise ValueError(op)


def hist_positions(m, V, bond_len, seed):
    R = _rot(seed)
    j = grids.jitter(64, 3, 0.08, seed)[: len(m["res"])] * 0       # geometry is generic already; no per-index jitter
    return m["centre"] @ V + (m["local"] + j) @ R.T * bond_len


def hist_scatters(m):
    """identity, every single atom and every molecule (component) shifted by each of the 6 face images."""
    n = len(m["res"])
    groups = [[i] for i in range(n)] + [sorted(c) for c in components(n, m["bonds"]) if len(c) > 1]
    rows = [np.zeros((n, 3), np.int64)]
    for g in groups:
        for s in FACE6:
            r = np.zeros((n, 3), np.int64)
            r[g] = s
            rows.append(r)
    return np.array(rows)


def hist_sequences(depth):
    """Every op sequence of length 2..depth that ends with a re-imaging op (trailing edits are never observed)."""
    out = []
    for L in range(2, depth + 1):
        for seq in itertools.product(HIST_OPS, repeat=L):
            if seq[-1] in ("W", "I"):
                out.append(seq)
    return out
