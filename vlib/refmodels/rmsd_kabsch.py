"""float64 reference model for C06: optimal-superposition RMSD (Kabsch/SVD, proper rotations only).

Independent of mdtraj: plain numpy, float64 throughout.  All functions are vectorised over frames.

    msd*(A, B) = min over proper rotations R and translations t of  1/N * sum_n |R a_n + t - b_n|^2
               = (Ga + Gb - 2 (s1 + s2 + sign(det M) s3)) / N
with A, B centred, Ga = sum |a_n|^2, Gb likewise, M = A^T B and s1 >= s2 >= s3 >= 0 its singular values
(Kabsch 1978 with the determinant correction: a reflection is never allowed, so exact mirror images do
NOT get zero).
"""
import numpy as np


def center(x):
    """x: (..., N, 3) -> centred copy (float64), centroid (..., 1, 3)."""
    x = np.asarray(x, dtype=np.float64)
    c = x.mean(axis=-2, keepdims=True)
    return x - c, c


def kabsch(A, B):
    """A: (F, N, 3) or (N, 3) mobile; B: (N, 3) or (F, N, 3) reference.  float64.

    Returns dict with per-frame arrays:
      msd   optimal mean square deviation (>= 0, clipped at 0 only against rounding of the float64 oracle)
      R     (F,3,3) proper rotation, row-vector convention:  (a - ca) @ R + cb  is A optimally placed on B
      Ga,Gb inner products of the centred sets;  ca, cb centroids
      sv    singular values (F,3) of M;  sgn  sign of det M
      gap   smallest gap between the largest eigenvalue of the 4x4 QCP key matrix and the others,
            lam1 - lam2 = 2 (s2 + sgn s3)   (0 => optimal rotation not unique)
    """
    A = np.asarray(A, dtype=np.float64)
    B = np.asarray(B, dtype=np.float64)
    if A.ndim == 2:
        A = A[None]
    if B.ndim == 2:
        B = np.broadcast_to(B[None], A.shape)
    Ac, ca = center(A)
    Bc, cb = center(B)
    Ga = np.einsum("fni,fni->f", Ac, Ac)
    Gb = np.einsum("fni,fni->f", Bc, Bc)
    M = np.einsum("fni,fnj->fij", Ac, Bc)              # A^T B
    U, s, Vt = np.linalg.svd(M)
    d = np.sign(np.linalg.det(U) * np.linalg.det(Vt))
    d[d == 0] = 1.0
    D = np.zeros_like(M)
    D[:, 0, 0] = 1.0
    D[:, 1, 1] = 1.0
    D[:, 2, 2] = d
    R = U @ D @ Vt                                      # row-vector rotation: a @ R ~ b
    lam = s[:, 0] + s[:, 1] + d * s[:, 2]
    N = A.shape[1]
    # evaluate the minimum by explicit superposition (no cancellation): sum |a R - b|^2
    diff = Ac @ R - Bc
    msd = np.einsum("fni,fni->f", diff, diff) / N
    return dict(msd=msd, R=R, Ga=Ga, Gb=Gb, ca=ca, cb=cb, sv=s, sgn=d, lam=lam,
                gap=2.0 * (s[:, 1] + d * s[:, 2]), msd_qcp=(Ga + Gb - 2 * lam) / N)


def plain_msd(X, Y):
    """Un-fitted mean square deviation, float64: mean_n |x_n - y_n|^2 per frame."""
    X = np.asarray(X, dtype=np.float64)
    Y = np.asarray(Y, dtype=np.float64)
    d = X - Y
    return np.einsum("...ni,...ni->...", d, d) / X.shape[-2]


def pair_distances(X):
    """All interatomic distances per frame: X (F, N, 3) -> (F, N(N-1)/2) float64."""
    X = np.asarray(X, dtype=np.float64)
    n = X.shape[1]
    i, j = np.triu_indices(n, 1)
    d = X[:, i, :] - X[:, j, :]
    return np.sqrt(np.einsum("fpi,fpi->fp", d, d))


def rmsf_definition(X, ref=None, align=None, ref_align=None):
    """RMSF by its definition (float64).

    X: (F, N, 3) target coordinates (already restricted to the selected atoms).  If ref (N,3) is given,
    every frame is optimally superposed (rotation + translation, Kabsch) onto it using all selected atoms
    first; with ref None the coordinates are used as they are.  rmsf_j = sqrt(mean_f |y_fj - mean_f y_fj|^2).
    """
    X = np.asarray(X, dtype=np.float64)
    if ref is not None:
        k = kabsch(X, ref)
        X = (X - k["ca"]) @ k["R"] + k["cb"]
    avg = X.mean(axis=0, keepdims=True)
    d = X - avg
    return np.sqrt(np.einsum("fni,fni->n", d, d) / X.shape[0])
