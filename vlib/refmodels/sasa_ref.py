"""sasa_ref: independent float64 reference for C13 (Shrake-Rupley on the golden-section spiral).

Nothing here imports mdtraj.  The point set is re-derived from the *formula* in sasa.cpp
(generate_sphere_points), including the places where that formula rounds to float32 -- the azimuth
phi = i*inc is a float32 product, whose rounding (up to 1.2e-4 rad at i = 959) moves a point by more
than the 1e-5 nm exclusion margin, so "the same point set" has to mean the float32 one.
"""
import numpy as np

F32 = np.float32
EPS32 = float(np.finfo(np.float32).eps)
MARGIN = 1e-5          # nm: sphere points this close to a neighbour's expanded surface are not judged

# literature values (Bondi 1964 / Mantina 2009, nm) for the elements of biomolecules: an anchor for the
# "documented radii table" that does not come from the code under test
BONDI = {"H": 0.120, "C": 0.170, "N": 0.155, "O": 0.152, "F": 0.147, "P": 0.180, "S": 0.180, "Cl": 0.181}


def sasa_sphere_points(n):
    """(n,3) float64 array holding the float32 golden-section-spiral points of sasa.cpp:
        inc = pi*(3-sqrt 5) [float32]; offset = 2/n [float32];
        y = i*offset [float32 product] - 1 + offset/2 [double] -> float32
        r = sqrt(1 - y*y [float32 product]) [double] -> float32
        phi = i*inc [float32 product]
        (x, y, z) = (cos(phi)*r, y, sin(phi)*r) -> float32
    """
    i = np.arange(n)
    inc = F32(np.pi * (3.0 - np.sqrt(5.0)))
    off = F32(2.0 / n)
    iy = (i.astype(F32) * off).astype(F32)                       # float * float
    y = (iy.astype(np.float64) - 1.0 + np.float64(off) / 2.0).astype(F32)
    yy = (y * y).astype(F32)
    r = np.sqrt(1.0 - yy.astype(np.float64)).astype(F32)
    phi = (i.astype(F32) * inc).astype(F32)
    x = (np.cos(phi.astype(np.float64)) * r.astype(np.float64)).astype(F32)
    z = (np.sin(phi.astype(np.float64)) * r.astype(np.float64)).astype(F32)
    return np.stack([x, y, z], axis=1).astype(np.float64)


def sasa_ideal_points(n):
    """The same construction in exact (float64) arithmetic: used to measure how far the float32 set is
    from the ideal spiral and for the discrepancy measurement."""
    i = np.arange(n, dtype=np.float64)
    off = 2.0 / n
    y = i * off - 1.0 + off / 2.0
    r = np.sqrt(1.0 - y * y)
    phi = i * np.pi * (3.0 - np.sqrt(5.0))
    return np.stack([np.cos(phi) * r, y, np.sin(phi) * r], axis=1)


def sasa_counts(xyz, R, pts, margin=MARGIN):
    """Exact Shrake-Rupley count.  xyz (n_atoms,3) float64, R (n_atoms,) expanded radii, pts (n,3).

    Returns (acc, amb): acc[i] = number of points of atom i that are outside every other expanded sphere
    by more than `margin`; amb[i] = number of points that are not inside any other sphere by more than
    `margin` but are within `margin` of at least one surface (their classification is not judged).
    The kernel's count must lie in [acc, acc+amb]."""
    xyz = np.asarray(xyz, np.float64)
    R = np.asarray(R, np.float64)
    na = xyz.shape[0]
    acc = np.zeros(na, dtype=np.int64)
    amb = np.zeros(na, dtype=np.int64)
    for i in range(na):
        p = xyz[i] + R[i] * pts                                  # (n,3)
        if na == 1:
            acc[i] = len(pts)
            continue
        others = np.arange(na) != i
        d = np.sqrt(((p[:, None, :] - xyz[others][None, :, :]) ** 2).sum(-1)) - R[others][None, :]   # (n, na-1)
        dmin = d.min(axis=1)
        acc[i] = int((dmin > margin).sum())
        amb[i] = int((np.abs(dmin) <= margin).sum())
    return acc, amb


def sasa_area(count, R, n):
    return 4.0 * np.pi * np.asarray(R, np.float64) ** 2 * np.asarray(count, np.float64) / n


def sasa_two_sphere_area(R1, R2, d):
    """Exact accessible area of sphere 1 (radius R1) in the presence of sphere 2 at centre distance d:
    4 pi R1^2 minus the spherical cap of sphere 1 inside sphere 2 (area 2 pi R1 h)."""
    if d >= R1 + R2:
        h = 0.0
    elif d <= abs(R1 - R2):
        h = 2.0 * R1 if R1 < R2 else 0.0
    else:
        h = R1 - (d * d + R1 * R1 - R2 * R2) / (2.0 * d)
    return 4.0 * np.pi * R1 * R1 - 2.0 * np.pi * R1 * h


_AXES = None


def _axes():
    """4000 low-discrepancy directions + the coordinate axes (deterministic)."""
    global _AXES
    if _AXES is None:
        k = np.arange(4000) + 0.5
        z = 1 - 2 * k / 4000
        ph = k * np.pi * (1 + np.sqrt(5.0))          # a different spiral than the one under test
        s = np.sqrt(1 - z * z)
        a = np.stack([s * np.cos(ph), s * np.sin(ph), z], 1)
        _AXES = np.vstack([a, np.eye(3), -np.eye(3)])
    return _AXES


def sasa_cap_discrepancy(pts):
    """sup over spherical caps {x: x.a > t} (a in a 4006-direction design, t at every jump of the count)
    of |#points in cap / n - area fraction of cap| for the given point set."""
    n = len(pts)
    c = np.sort(pts @ _axes().T, axis=0)
    k = np.arange(n)[:, None]
    f = (1 - c) / 2
    return float(max(np.abs((n - k) / n - f).max(), np.abs((n - k - 1) / n - f).max()))


def sasa_cap_bound(n):
    """The quadrature bound used for the analytic two-sphere comparison: cap discrepancy <= 1/sqrt(n).

    Justification: spherical-cap discrepancy of spiral point sets is O(n^-1/2) (Aistleitner, Brauchart,
    Dick 2012 prove this order for the Fibonacci spiral; the observed order is n^-3/4); for n = 1 the
    discrepancy of any single point is < 1 = 1/sqrt(1).  The constant 1 is not trusted blindly: C13
    measures the discrepancy of the actual (float32) point set with sasa_cap_discrepancy for every n it
    uses and reports D*sqrt(n) (0.32 .. 1.0 on the menu) in the evidence; a measured value above 1 is
    reported as a check error, not as an mdtraj violation."""
    return 1.0 / np.sqrt(n)


# Snapshot of the documented van-der-Waals / ionic radii table of mdtraj/geometry/sasa.py (nm), taken from the pinned
# tree.  C13 uses the live table as 'the documented table'; this copy is only the fallback when the (private) name
# _ATOMIC_RADII cannot be imported, so that a renaming does not turn into a check error.
TABLE_SNAPSHOT = {
    "H": 0.12, "He": 0.14, "Li": 0.076, "Be": 0.059, "B": 0.192, "C": 0.17, "N": 0.155, "O": 0.152,
    "F": 0.147, "Ne": 0.154, "Na": 0.102, "Mg": 0.086, "Al": 0.184, "Si": 0.21, "P": 0.18, "S": 0.18,
    "Cl": 0.181, "Ar": 0.188, "K": 0.138, "Ca": 0.114, "Sc": 0.211, "Ti": 0.2, "V": 0.2, "Cr": 0.2,
    "Mn": 0.2, "Fe": 0.2, "Co": 0.2, "Ni": 0.163, "Cu": 0.14, "Zn": 0.139, "Ga": 0.187, "Ge": 0.211,
    "As": 0.185, "Se": 0.19, "Br": 0.185, "Kr": 0.202, "Rb": 0.303, "Sr": 0.249, "Y": 0.2, "Zr": 0.2,
    "Nb": 0.2, "Mo": 0.2, "Tc": 0.2, "Ru": 0.2, "Rh": 0.2, "Pd": 0.163, "Ag": 0.172, "Cd": 0.158,
    "In": 0.193, "Sn": 0.217, "Sb": 0.206, "Te": 0.206, "I": 0.198, "Xe": 0.216, "Cs": 0.167, "Ba": 0.149,
    "La": 0.2, "Ce": 0.2, "Pr": 0.2, "Nd": 0.2, "Pm": 0.2, "Sm": 0.2, "Eu": 0.2, "Gd": 0.2,
    "Tb": 0.2, "Dy": 0.2, "Ho": 0.2, "Er": 0.2, "Tm": 0.2, "Yb": 0.2, "Lu": 0.2, "Hf": 0.2,
    "Ta": 0.2, "W": 0.2, "Re": 0.2, "Os": 0.2, "Ir": 0.2, "Pt": 0.175, "Au": 0.166, "Hg": 0.155,
    "Tl": 0.196, "Pb": 0.202, "Bi": 0.207, "Po": 0.197, "At": 0.202, "Rn": 0.22, "Fr": 0.348, "Ra": 0.283,
    "Ac": 0.2, "Th": 0.2, "Pa": 0.2, "U": 0.186, "Np": 0.2, "Pu": 0.2, "Am": 0.2, "Cm": 0.2,
    "Bk": 0.2, "Cf": 0.2, "Es": 0.2, "Fm": 0.2, "Md": 0.2, "No": 0.2, "Lr": 0.2, "Rf": 0.2,
    "Db": 0.2, "Sg": 0.2, "Bh": 0.2, "Hs": 0.2, "Mt": 0.2, "Ds": 0.2, "Rg": 0.2, "Cn": 0.2,
    "Uut": 0.2, "Fl": 0.2, "Uup": 0.2, "Lv": 0.2, "Uus": 0.2, "Uuo": 0.2,
}
