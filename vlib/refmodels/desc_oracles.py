"""C16: float64 closed-form oracles for the derived descriptors, written from the documentation only.

Nothing here imports mdtraj.  Inputs are plain arrays / the records of desc_structs.table().
Sources of each formula are stated next to it (docstring of the function under test, or the paper the docstring
cites when it gives no formula itself).
"""
import numpy as np

from vlib.refmodels import mic

EPS32 = float(np.finfo(np.float32).eps)
EPS64 = float(np.finfo(np.float64).eps)

# ---------------------------------------------------------------------------------------------------------
# distances


def pair_distances(x, pairs, vectors=None, R=3):
    """x (n,3) float64, pairs (m,2) -> float64 distances; minimum image when vectors (3,3 rows a,b,c) given."""
    pairs = np.asarray(pairs, dtype=int).reshape(-1, 2)
    d = x[pairs[:, 1]] - x[pairs[:, 0]]
    if vectors is None:
        return np.sqrt((d * d).sum(1)), d
    dm, best, _n = mic.min_image(d, vectors, R)
    return dm, best


# ---------------------------------------------------------------------------------------------------------
# compute_contacts

BACKBONE_LIB = {"C", "CA", "N", "O", "HA", "H"}          # Atom.is_sidechain docstring/source: everything else
TERMINAL = {"OXT", "OT1", "OT2", "H1", "H2", "H3"}        # chemically backbone (terminal carboxylate O, ammonium H)
CAPS = {"ACE", "NME", "NH2"}


def membership(tab, scheme, flavour="lib"):
    """Atoms each residue contributes under `scheme` (compute_contacts docstring).

    flavour 'lib': side chain = protein-residue atoms whose name is not in {C, CA, N, O, HA, H}
                   (the library's documented predicate `Atom.is_sidechain`);
    flavour 'strict': additionally atoms named OXT/OT1/OT2/H1/H2/H3 (terminal carboxylate O, ammonium H) are not
                   side chain (chemistry).  The contact docstring does not define "side chain" and the library
                   predicate is pinned by tests/test_selection.py::test_sidechain, so the caller accepts either
                   flavour and records which one the value matches."""
    out = []
    for r in tab["residues"]:
        ats = [tab["atoms"][i] for i in r["atoms"]]
        if scheme == "ca":
            m = [a["i"] for a in ats if a["name"].lower() == "ca"]
        elif scheme == "closest":
            m = [a["i"] for a in ats]
        elif scheme == "closest-heavy":
            m = [a["i"] for a in ats if a["el"] != "H"]
        else:
            sc = [a for a in ats if r["prot"] and a["name"] not in BACKBONE_LIB]
            if flavour == "strict":
                sc = [a for a in sc if a["name"] not in TERMINAL]
            if scheme == "sidechain-heavy" and r["name"] != "GLY":   # documented: glycine keeps its side-chain H
                sc = [a for a in sc if a["el"] != "H"]
            m = [a["i"] for a in sc]
        out.append(m)
    return out


def has_ca(tab, ri):
    return any(tab["atoms"][i]["name"].lower() == "ca" for i in tab["residues"][ri]["atoms"])


def all_pairs_documented(tab, ignore_nonprotein):
    """'all': pairs (i, j), j >= i+3 ("i to i+1 and i to i+2 pairs will be excluded"); with ignore_nonprotein the
    residues without an alpha carbon are left out.  Returns (same_chain_pairs, inter_chain_pairs): the docstring's
    "separated by two or more residues" is only meaningful inside a chain, so inter-chain pairs are not judged."""
    n = len(tab["residues"])
    same, inter = [], []
    for i in range(n):
        if ignore_nonprotein and not has_ca(tab, i):
            continue
        for j in range(i + 3, n):
            if ignore_nonprotein and not has_ca(tab, j):
                continue
            (same if tab["residues"][i]["chain"] == tab["residues"][j]["chain"] else inter).append((i, j))
    return same, inter


def soft_min(d, beta):
    """compute_contacts docstring: d = beta / log sum_i exp(beta / d_i).  float64, log-sum-exp form."""
    x = beta / np.asarray(d, dtype=np.float64)
    m = x.max()
    return beta / (m + np.log(np.exp(x - m).sum()))


# ---------------------------------------------------------------------------------------------------------
# centres, Rg, tensors, shape


def center_of_mass(x, m):
    m = np.asarray(m, np.float64)
    return (x * m[:, None]).sum(0) / m.sum()


def center_of_geometry(x):
    return x.mean(0)


def rg_standard(x, m=None):
    """Radius of gyration: sqrt(sum m_i |r_i - r_c|^2 / sum m_i), r_c = mass-weighted centre (IUPAC Gold Book
    'radius of gyration'); with m None all masses are equal ("If masses are none, assumes equal masses")."""
    m = np.ones(len(x)) if m is None else np.asarray(m, np.float64)
    c = center_of_mass(x, m)
    return np.sqrt((m * ((x - c) ** 2).sum(1)).sum() / m.sum())


def rg_about_centroid(x, m):
    """Mass-weighted mean square distance from the UNWEIGHTED centroid (what rg.py computes; used only to name
    the defect class in the signature)."""
    m = np.asarray(m, np.float64)
    c = x.mean(0)
    return np.sqrt((m * ((x - c) ** 2).sum(1)).sum() / m.sum())


def gyration_tensor(x, normalised=True):
    """S_ab = (1/N) sum_i r_ia r_ib about the centre of geometry (NIST shape-metrics page cited by the docstring;
    the docstring's own line omits the 1/N: normalised=False gives that literal reading)."""
    r = x - x.mean(0)
    s = r.T @ r
    return s / len(x) if normalised else s


def inertia_tensor(x, m):
    """I_ab = sum_i m_i (r_i^2 delta_ab - r_ia r_ib) (docstring), r relative to the centre of mass."""
    m = np.asarray(m, np.float64)
    r = x - center_of_mass(x, m)
    return (m * (r * r).sum(1)).sum() * np.eye(3) - (r * m[:, None]).T @ r


# documented forms of the shape descriptors, keyed by the whitespace/backslash-free math line of the docstring.
# l = eigenvalues of the gyration tensor in ascending order (= lambda_1^2 <= lambda_2^2 <= lambda_3^2).
SHAPE_FORMS = {
    "asphericity": {
        "b=frac{1}{2}(lambda_1^2+lambda_2^2)": ("docstring-literal", lambda l: 0.5 * (l[0] + l[1])),
        "b=lambda_3^2-frac{1}{2}(lambda_1^2+lambda_2^2)": ("standard", lambda l: l[2] - 0.5 * (l[0] + l[1])),
    },
    "acylindricity": {
        "c=lambda_2^2-lambda_1^2": ("standard", lambda l: l[1] - l[0]),
    },
    "relative_shape_antisotropy": {
        "kappa^2=frac{3}{2}frac{lambda_1^4+lambda_2^4+lambda_3^4}{(lambda_1^2+lambda_2^2+lambda_3^2)^2}-frac{1}{2}":
            ("standard", lambda l: 1.5 * (l ** 2).sum() / l.sum() ** 2 - 0.5),
    },
    "compute_gyration_tensor": {
        "S_{xy}=sum_{i_atoms}r^{i}_xr^{i}_y": ("docstring-literal", None),
        "S_{xy}=frac{1}{N}sum_{i_atoms}r^{i}_xr^{i}_y": ("standard", None),
    },
}
SHAPE_STANDARD = {
    "asphericity": lambda l: l[2] - 0.5 * (l[0] + l[1]),
    "acylindricity": lambda l: l[1] - l[0],
    "relative_shape_antisotropy": lambda l: 1.5 * (l ** 2).sum() / l.sum() ** 2 - 0.5,
}


def math_line(doc):
    """The '.. math::' block of a docstring, stripped of whitespace and backslashes (and of the form-feed that a
    non-raw '\\f' in the source turns 'frac' into)."""
    if not doc or ".. math::" not in doc:
        return None
    blk = doc.split(".. math::", 1)[1]
    lines = []
    for ln in blk.split("\n"):
        if ln.strip():
            lines.append(ln.strip())
        elif lines:                 # first blank line after the formula ends the block
            break
    s = "".join(lines)
    s = s.replace("\x0c", "f").replace("\\", "")
    return "".join(s.split())


# ---------------------------------------------------------------------------------------------------------
# RDF


def rdf_edges(r_range, n):
    return r_range[0] + (r_range[1] - r_range[0]) * np.arange(n + 1) / float(n)


def rdf_counts(dist, edges, margin):
    """Definite / ambiguous histogram counts.  dist: float64 distances (any shape); a distance within `margin` of
    any edge is ambiguous for the two bins that edge separates (for the outer edges: in/out)."""
    d = np.asarray(dist, np.float64).ravel()
    n = len(edges) - 1
    lo = np.zeros(n, dtype=int)
    amb = np.zeros(n, dtype=int)
    near = np.abs(d[:, None] - edges[None, :]) <= margin          # (m, n+1)
    isnear = near.any(1)
    b = np.searchsorted(edges, d[~isnear], side="right") - 1
    b = b[(b >= 0) & (b < n)]
    np.add.at(lo, b, 1)
    for k in np.nonzero(isnear)[0]:
        e = int(np.argmax(near[k]))
        for bb in (e - 1, e):
            if 0 <= bb < n:
                amb[bb] += 1
    return lo, amb


def shell_volumes(edges):
    return 4.0 / 3.0 * np.pi * (edges[1:] ** 3 - edges[:-1] ** 3)


# ---------------------------------------------------------------------------------------------------------
# DRID (Zhou & Caflisch, JCTC 2012, eqs. 1-3: mu, nu = sqrt(2nd central moment), xi = cbrt(3rd central moment)
# of 1/d_ij over the atoms j of the set that are neither i nor bonded to i)


def drid(x, atom_indices, bonds):
    ai = [int(a) for a in atom_indices]
    s = set(ai)
    nb = {a: set() for a in ai}
    for a, b in bonds:
        if a in s and b in s:
            nb[a].add(b)
            nb[b].add(a)
    out = []
    for a in ai:
        part = sorted(s - nb[a] - {a})
        if not part:
            out.append(None)
            continue
        d = np.sqrt(((x[part] - x[a]) ** 2).sum(1))
        inv = 1.0 / d
        mu = inv.mean()
        m2 = ((inv - mu) ** 2).mean()
        m3 = ((inv - mu) ** 3).mean()
        out.append(dict(mu=mu, nu=np.sqrt(m2), m2=m2, m3=m3, xi=np.cbrt(m3), xmax=inv.max(),
                        rng=np.abs(inv - mu).max(), n=len(part), dmin=d.min()))
    return out


# ---------------------------------------------------------------------------------------------------------
# directors / nematic order (order.py docstrings: director = eigenvector of the smallest eigenvalue of I_ab;
# Q_ab = 1/(2N) sum_i (3 e_ia e_ib - delta_ab), S2 = largest eigenvalue of Q)


def director(x, m):
    I = inertia_tensor(x, m)
    w, v = np.linalg.eigh(I)
    gap = w[1] - w[0]
    return v[:, 0], gap, np.abs(w).max()


def nematic(dirs):
    e = np.asarray(dirs, np.float64)
    e = e / np.linalg.norm(e, axis=1)[:, None]
    Q = (3.0 * e.T @ e - len(e) * np.eye(3)) / (2.0 * len(e))
    w = np.linalg.eigvalsh(Q)
    return w[-1], w


# ---------------------------------------------------------------------------------------------------------
# thermodynamic properties

DA_PER_NM3_IN_KG_PER_M3 = 1.66053906660      # 1 Da = 1.66053906660e-27 kg (CODATA 2018); 1 nm^3 = 1e-27 m^3
E_CHARGE = 1.602176634e-19
KB = 1.380649e-23
EPS0 = 8.8541878128e-12
CODATA_REL = 4e-6     # spread of e^2/(kB eps0) and of 1/kB between CODATA 1998..2018 adjustments (kB: 1.8e-6 .. 9e-7)


def dipole(x, q, first_of, vectors):
    """thermodynamic_properties.dipole_moments Notes: displacement of every atom relative to the first atom of its
    residue, plus the PBC-corrected displacement of that first atom relative to atom 0; moment = sum_i q_i * that
    (charges times positions, nm * e)."""
    q = np.asarray(q, np.float64)
    first_of = np.asarray(first_of, int)
    loc = x - x[first_of]
    mol = x[first_of] - x[0]
    if vectors is not None:
        _d, loc, _n = mic.min_image(loc, vectors, 3)
        _d, mol, _n = mic.min_image(mol, vectors, 3)
    return (q[:, None] * (loc + mol)).sum(0)


def static_dielectric(M, V, T):
    """eq. 7 of Glattli et al. (10.1063/1.1476316) cited by the docstring:
    eps = 1 + (<M^2> - <M>^2) / (3 eps0 <V> kB T)."""
    M = np.asarray(M, np.float64) * E_CHARGE * 1e-9
    var = (M * M).sum(1).mean() - (M.mean(0) ** 2).sum()
    return 1.0 + var / (3.0 * EPS0 * np.mean(V) * 1e-27 * KB * T)


def kappa_T(V, T, ddof):
    """eq. 4 of Fennell & Dill (cited by the docstring): kappa_T = (<V^2> - <V>^2) / (kB T <V>), in bar^-1."""
    V = np.asarray(V, np.float64)
    return np.var(V, ddof=ddof) / V.mean() * 1e-27 / (KB * T) * 1e5


# ---------------------------------------------------------------------------------------------------------
# Karplus relations (coefficient tables of scalar_couplings.py = the cited papers' tables)

KARPLUS = {
    ("HN_HA", "Ruterjans1999"): (7.90, -1.05, 0.65, -60.0),
    ("HN_HA", "Bax2007"): (8.4, -1.36, 0.33, -60.0),
    ("HN_HA", "Bax1997"): (7.09, -1.42, 1.55, -60.0),
    ("HN_C", "Bax2007"): (4.36, -1.08, -0.01, 180.0),
    ("HN_CB", "Bax2007"): (3.71, -0.59, 0.08, 60.0),
}


def dihedral(p0, p1, p2, p3):
    """IUPAC dihedral, float64; also returns the smaller distance of an end atom from the central axis."""
    b1, b2, b3 = p1 - p0, p2 - p1, p3 - p2
    c1, c2 = np.cross(b1, b2), np.cross(b2, b3)
    nb2 = np.linalg.norm(b2)
    phi = np.arctan2(np.dot(np.cross(c1, c2), b2) / nb2, np.dot(c1, c2))
    rho = min(np.linalg.norm(c1), np.linalg.norm(c2)) / nb2
    return phi, rho


def karplus(phi, A, B, C, phi0_deg):
    t = phi + np.deg2rad(phi0_deg)
    return A * np.cos(t) ** 2 + B * np.cos(t) + C
