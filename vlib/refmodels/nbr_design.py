"""C10: designed finite position sets for the neighbour searches, and a float32 emulation of the voxel
geometry that mdtraj/geometry/src/neighborlist.cpp will choose (used ONLY to place design points on
voxel boundaries — never as an oracle).

All coordinates are produced in float64 and cast to float32 by the caller; everything the oracle uses is
re-derived from the stored float32 values.
"""
import itertools

import numpy as np

from vlib import grids

F = np.float32


def roundf(x):
    """C roundf: half away from zero."""
    x = float(x)
    return float(np.sign(x) * np.floor(abs(x) + 0.5))


def reduce_like_code(vec32):
    """Box reduction of _compute_neighborlist, same statement order, float32 arithmetic."""
    v = np.array(vec32, dtype=F).copy()
    for i in range(3):
        v[2, i] = F(v[2, i] - F(v[1, i] * F(roundf(F(v[2, 1] / v[1, 1])))))
    for i in range(3):
        v[2, i] = F(v[2, i] - F(v[0, i] * F(roundf(F(v[2, 0] / v[0, 0])))))
    for i in range(3):
        v[1, i] = F(v[1, i] - F(v[0, i] * F(roundf(F(v[1, 0] / v[0, 0])))))
    return v


def voxel_geometry_periodic(vec32, cutoff):
    """(ny, nz, voxelSizeY, voxelSizeZ, reduced vectors) as Voxels::Voxels computes them for a periodic frame."""
    v = reduce_like_code(vec32)
    c = F(cutoff)
    by, cz = v[1, 1], v[2, 2]
    ey = F(F(0.6) * by) / F(np.floor(F(by / c)))
    ez = F(F(0.6) * cz) / F(np.floor(F(cz / c)))
    ny = max(1, int(np.floor(F(F(by / ey) + F(0.5)))))
    nz = max(1, int(np.floor(F(F(cz / ez) + F(0.5)))))
    return ny, nz, F(by / F(ny)), F(cz / F(nz)), v


def voxel_geometry_open(lo, hi, cutoff):
    """Non-periodic: voxel edge = cutoff, rescaled to the extent [lo, hi] of the y and z coordinates."""
    c = F(cutoff)
    out = []
    for k in (1, 2):
        ext = F(F(hi[k]) - F(lo[k]))
        n = max(1, int(np.floor(F(F(ext / c) + F(0.5)))))
        vs = F(ext / F(n)) if ext > 0 else c
        out.append((n, vs))
    return out[0][0], out[1][0], out[0][1], out[1][1]


def brick_wrap(x, v):
    """Wrap cartesian points into the brick 0<=z<cz, 0<=y<by, 0<=x<ax of a lower-triangular cell (float64)."""
    x = np.array(x, dtype=np.float64)
    v = np.asarray(v, dtype=np.float64)
    for k in (2, 1, 0):
        x = x - np.floor(x[..., k] / v[k, k])[..., None] * v[k]
    return x


def at_face(x32, v, ulps=2):
    """Some stored y or z coordinate lies within `ulps` float32 steps below the upper face of the brick cell."""
    x = np.asarray(x32, dtype=F)
    for k in (1, 2):
        lim = F(v[k][k])
        for _ in range(ulps):
            lim = np.nextafter(lim, F(-np.inf))
        if np.any((x[..., k] >= lim) & (x[..., k] < F(v[k][k]))):
            return True
    return False


def in_brick(x32, v):
    """All stored points inside the brick primary cell the voxel code assumes (float64 test of float32 data)."""
    x = np.asarray(x32, dtype=np.float64)
    v = np.asarray(v, dtype=np.float64)
    return bool(np.all(x >= 0) and np.all(x < np.array([v[0, 0], v[1, 1], v[2, 2]])))


_SHIFTS = np.array(list(itertools.product(range(-2, 3), repeat=3)), dtype=np.float64)  # 125
_LATT = np.array(list(itertools.product(range(4), repeat=3)), dtype=np.float64)        # 64


def lattice_frac(n, seed, phase):
    """n points of the 4x4x4 fractional lattice (visited with stride 27 so small n are spread out) plus a
    low-discrepancy jitter of one lattice spacing; all fractional coordinates stay inside [0, 1)."""
    idx = [(i * 27 + 5 * phase) % 64 for i in range(n)]
    j = grids.jitter(n + 64 * phase, 3, 0.25, seed)[64 * phase:] if phase else grids.jitter(n, 3, 0.25, seed)
    f = (_LATT[idx] + 0.5) / 4.0 + j * 0.98
    assert np.all(f >= 0) and np.all(f < 1)
    return f


def image_shifts(n, phase):
    """A different periodic image for every atom: the 125 shifts of {-2..2}^3 assigned cyclically."""
    idx = [(i * 31 + 17 * phase + 3) % 125 for i in range(n)]
    return _SHIFTS[idx]


# partner directions for the voxel-edge design: (unit vector, inside?)
_S2 = 1 / np.sqrt(2.0)
_PARTNERS = [((1, 0, 0), True), ((-1, 0, 0), False), ((0, 1, 0), True), ((0, -1, 0), False),
             ((0, 0, 1), True), ((0, 0, -1), False), ((0, _S2, _S2), True),
             ((0, -_S2, _S2), False), ((_S2, 0, -_S2), True), ((-_S2, _S2, 0), False)]
IN_F, OUT_F = 1 - 2e-3, 1 + 2e-3
EDGE_EPS = (0.0, 1e-4, -1e-4)


def below(x):
    """Largest float32 below x."""
    return float(np.nextafter(F(x), F(-np.inf)))


def voxel_bases(ny, nz, vsy, vsz, ax, cutoff, quick, by=None, cz=None):
    """The complete designed product of base points on voxel boundaries:
    (ky, ey) x (kz, ez) x x0 with k = voxel boundary number incl. 0 and n (= the cell face), e in {0,+1e-4,-1e-4}
    and, on the upper cell face only (periodic: by, cz given), additionally the largest float32 below the face."""
    def ks(n):
        s = {0, n} | ({n // 2} if quick else {1, n // 2, n - 1})
        return sorted(k for k in s if 0 <= k <= n)

    def axis(n, vs, face):
        out = []
        for k in ks(n):
            for e in EDGE_EPS:
                out.append((float(F(F(vs) * F(k))) + e, k, e))
            if k == n and face is not None:
                out.append((below(face), k, "face-1ulp"))
        return out
    xs = [1e-4, 0.5 * ax] if quick else [1e-4, float(cutoff), 0.5 * ax, ax - float(cutoff), ax - 1e-4, below(ax)]
    out = []
    for (y, ky, ey), (z, kz, ez), x0 in itertools.product(axis(ny, vsy, by), axis(nz, vsz, cz), xs):
        out.append((x0, y, z, (ky, kz, ey, ez, round(x0, 6))))
    return out


def voxel_points(bases, n, variant, cutoff, phase):
    """n atoms: groups of 8 = one base point + 7 partners at cutoff*(1 -/+ 2e-3) in axis/diagonal directions."""
    pts = []
    per = 8 if n >= 8 else n
    ngroups = max(1, n // per)
    for g in range(ngroups):
        b = bases[(variant * ngroups + g) % len(bases)]
        p0 = np.array(b[:3])
        grp = [p0]
        for p in range(1, per):
            u, inside = _PARTNERS[(p - 1 + 3 * phase + g) % len(_PARTNERS)]
            grp.append(p0 + np.array(u) * float(cutoff) * (IN_F if inside else OUT_F))
        pts += grp[::-1] if phase else grp      # phase 1: the base point has the highest index of its group
    return np.array(pts[:n])


def cluster_points(n, cutoff, seed, phase):
    """Tight cluster: offsets of up to +-cutoff per axis around 0; atom 1 duplicates atom 0 exactly, atom 2 sits
    1e-4 away from atom 0."""
    j = grids.jitter(n + 7 * phase, 3, 2.0 * float(cutoff), seed)[7 * phase:]
    j = np.array(j[:n])
    if n >= 2:
        j[1] = j[0]
    if n >= 3:
        j[2] = j[0] + np.array([1e-4, 0, 0])
    return j


# ---------------------------------------------------------------------------------------------------------------
# Thin, strongly skewed cells (one width only 2-3 cutoffs, angles outside 70..110 in each position and combination)
# and dense fills (several atoms per voxel).

THIN_ANGLES = ((116.2, 68.4, 63.6), (116, 68, 64), (64, 116, 68), (68, 64, 116), (120, 60, 60), (60, 120, 120))
THIN_LENGTHS = {"thin-c": (5.73, 4.10, 2.42), "thin-b": (5.73, 2.42, 4.10), "thin-a": (2.42, 5.73, 4.10)}


def thin_cells(quick):
    """Cell dicts like grids.cell_menu (plus thin=True): every angle triple x the short edge in each position
    (quick: short c and short b), reduced form and with b += a, c += a - b (quick: unreduced only for short c)."""
    out = []
    for A in THIN_ANGLES:
        if not grids.cell_valid(*A):
            continue
        for lname, L in THIN_LENGTHS.items():
            if quick and lname == "thin-a":
                continue
            v = grids.lengths_angles_to_vectors(*L, *A)
            name = "%s(%g,%g,%g)" % ((lname,) + tuple(A))
            out.append(dict(name=name, vectors=v, lengths=np.array(L, float), angles=np.array(A, float), reduced=True,
                            ortho=False, thin=True))
            if quick and lname != "thin-c":
                continue
            u = v.copy()
            u[1] = v[1] + v[0]
            u[2] = v[2] + v[0] - v[1]
            Lu, Au = grids.vectors_to_lengths_angles(u)
            out.append(dict(name=name + "+unreduced", vectors=u, lengths=Lu, angles=Au, reduced=False, ortho=False, thin=True))
    return out


def dense_frac(m, seed, phase):
    """m x m x m fractional lattice + low-discrepancy jitter of one lattice spacing, inside [0, 1)."""
    g = np.array(list(itertools.product(range(m), repeat=3)), dtype=np.float64)
    n = len(g)
    j = grids.jitter(n * (phase + 1), 3, 1.0 / m, seed)[n * phase:]
    f = (g + 0.5) / m + j * 0.98
    assert np.all(f >= 0) and np.all(f < 1)
    return f


def z_window_shares_images(vec32, cutoff):
    """Emulates getNeighbors' window arithmetic (classification of the input only, never an oracle): True when the z window
    is clamped to the cell (a z voxel then holds atoms in range through two different images), the c vector leans in y,
    and the y window does not cover the whole row anyway."""
    ny, nz, vsy, vsz, v = voxel_geometry_periodic(vec32, cutoff)
    c = F(cutoff)
    dz = int(F(c / vsz)) + 1
    dy = int(F(c / vsy)) + 1
    return bool(2 * dz + 1 > nz and v[2, 1] != 0 and ny > 2 * min(ny // 2, dy) + 2)


# ---------------------------------------------------------------------------------------------------------------
# No cell: anisotropic voxel regimes.  Without a cell the code uses n = round(extent/cutoff) voxels of size
# extent/n along y and z, i.e. voxel/cutoff = r/round(r): > 1 for frac(r) < 0.5 (one layer of look-around suffices),
# < 1 for frac(r) >= 0.5 (two layers needed) - independently per axis.

ANISO_F = (0.2, 0.7)
ANISO_S = (0.8, 0.9, 0.99, 1.01)          # pair separation / cutoff (the last one is a clearly-outside control)


def aniso_configs(quick):
    """(m, f) with extent_k = (m_k + f_k) * cutoff: every m in {1..3}^3 (thorough {1..4}^3) x every f in {0.2, 0.7}^3, so
    that all four (eight) combinations of the two regimes occur for every pair (triple) of axes and voxel counts."""
    ms = list(itertools.product((1, 2, 3) if quick else (1, 2, 3, 4), repeat=3))
    return [(m, f) for m in ms for f in itertools.product(ANISO_F, repeat=3)]


def aniso_points(cfg, cutoff, phase):
    """Two corner atoms pinning the extent, then for every axis, every voxel boundary k of that axis and every separation
    s a pair (A just below the boundary, B = A + s*cutoff along the axis, tiny lateral offsets): for voxel < cutoff the
    pair at s = 0.99 straddles one complete voxel.  phase 1 lists B before A (the higher index does the searching)."""
    m, f = cfg
    c = float(cutoff)
    E = np.array([(mk + fk) * c for mk, fk in zip(m, f)])
    nv = [max(1, int(np.floor(E[k] / c + 0.5))) for k in range(3)]
    pts = [np.zeros(3), E.copy()]
    q = 0
    for ax in range(3):
        vs = E[ax] / nv[ax]
        for k in range(1, nv[ax] + 1):
            for s in ANISO_S:
                a0 = k * vs - 0.01 * c
                if a0 + s * c > E[ax]:
                    continue
                q += 1
                lat = np.array([grids.halton(q, 2), grids.halton(q, 3), grids.halton(q, 5)]) * (E - 0.1 * c) + 0.02 * c
                A = lat.copy()
                A[ax] = a0
                B = A + 0.02 * c * np.array([grids.halton(q, 7) - 0.5, grids.halton(q, 11) - 0.5, grids.halton(q, 13) - 0.5])
                B[ax] = a0 + s * c
                B = np.clip(B, 0, E)
                pts += [B, A] if phase else [A, B]
    return np.array(pts)
