"""Designed conformation families and atom selections for C06 (deterministic; seed only shifts jitter phases).

A *case* is (family, n) -> reference conformations (3 frames, float64) and a target base conformation; the
check then applies the rotation x translation grid to the target base.  n is the number of atoms that take
part in the fit (it is n that meets the SIMD remainder handling); trajectories may hold more atoms
(decoys) when selections are used.
"""
import numpy as np

from vlib import grids

FAMILIES = ["generic", "bonded", "near_identical", "near_planar", "mirror", "helix", "offset100", "offset500"]
N_ATOMS = [3, 4, 5, 6, 7, 8, 9, 10, 11, 12, 13, 16, 17, 63, 64, 65, 1001]
N_ATOMS_QUICK = [3, 4, 5, 7, 64, 65]
TRANSLATIONS = [0.0, 0.37, 10.0, 300.0]
SELECTIONS = ["none", "equal", "order", "diffsets", "all", "allperm"]
N_DECOY = 5          # extra atoms in the target trajectory when a selection is used
N_DECOY_REF = 8      # extra atoms in the reference trajectory for "diffsets"


def _cloud(n, edge, seed, phase):
    """n generic points in a cube of the given edge (Halton; phase separates independent clouds)."""
    return grids.jitter(n + phase, 3, edge, seed)[phase:]


def _edge(n):
    # liquid-like atomic density: ~0.3 nm between neighbours
    return 0.3 * n ** (1.0 / 3.0)


def _helix(n, radius=0.23, rise=0.15, turn=np.deg2rad(100.0)):
    k = np.arange(n, dtype=np.float64)
    return np.stack([radius * np.cos(turn * k), radius * np.sin(turn * k), rise * k], axis=1)


def base_pair(family, n, seed):
    """-> refs (3, n, 3) float64, target base (n, 3) float64, dict(offset=(3,), note).

    refs[0] is the partner the family is named after; refs[1], refs[2] are further (different) reference
    conformations so that `frame` != 0 selects something else."""
    e = _edge(n)
    off = np.zeros(3)
    if family in ("generic", "offset100", "offset500"):
        a = _cloud(n, e, seed, 0)
        b = a + _cloud(n, 0.15, seed, 7)
        if family == "offset100":
            off = np.array([100.0, -100.0, 100.0])
        elif family == "offset500":
            off = np.array([500.0, 500.0, -500.0])
    elif family == "bonded":
        # covalent density: ~0.1 nm between neighbours (n=3 is the size of a water molecule)
        a = _cloud(n, 0.1 * n ** (1.0 / 3.0), seed, 0)
        b = a + _cloud(n, 0.01, seed, 7)
    elif family == "near_identical":
        a = _cloud(n, e, seed, 0)
        b = a + _cloud(n, 2e-4, seed, 7)               # |perturbation| <= 1e-4 nm per coordinate
    elif family == "near_planar":
        a = _cloud(n, e, seed, 0) * np.array([1.0, 1.0, 1e-3])
        b = a + _cloud(n, 0.05, seed, 7) * np.array([1.0, 1.0, 1e-2])
    elif family == "mirror":
        a = _cloud(n, e, seed, 0)
        b = a * np.array([1.0, 1.0, -1.0])             # exact mirror image
    elif family == "helix":
        a = _helix(n) + _cloud(n, 0.02, seed, 0)
        b = _helix(n, rise=0.16, turn=np.deg2rad(97.0)) + _cloud(n, 0.02, seed, 7)
    else:
        raise ValueError(family)
    r1 = a + _cloud(n, 0.2, seed, 13)
    r2 = b * np.array([1.0, 1.0, 1.0]) + _cloud(n, 0.05, seed, 19)
    # refs[3]: the target base itself (rounded to float32 like the target frames are): every target frame is then
    # a rigidly moved copy of this reference frame -- an EXACT one for the cube rotations at zero translation and
    # zero offset (signed permutations of float32 numbers), so exactly degenerate optimal rotations (half-turns
    # about x, y, z and the face diagonals, quaternions (0,1,0,0), (0,0,1,0), (0,0,0,1), ...) occur.
    b32 = np.asarray(b, dtype=np.float32).astype(np.float64)
    refs = np.stack([a, r1, r2, b32])
    return refs, b, dict(offset=off)


EXACT_REF_FRAME = 3
DIMER_LAYOUTS = ["blocks", "interleaved"]
DIMER_AXES = ["x", "y", "z"]
DIMER_CENTRES = [(0.0, 0.0, 0.0), (0.5, -0.25, 0.75)]          # exactly representable
_HALF_TURN = {"x": np.diag([1.0, -1.0, -1.0]), "y": np.diag([-1.0, 1.0, -1.0]), "z": np.diag([-1.0, -1.0, 1.0])}
N_DECOY_DIMER = 3


def c2_dimer(n, layout, seed):
    """C2-symmetric dimers: subunit A (n atoms, coordinates on a 2^-14 nm grid so that all arithmetic below is exact
    in float32) and subunit B = exact half-turn image of A about the x, y or z axis through a centre.

    -> dict(xyz float32 (F, 2n+3, 3): frames = translation x centre x axis; frames with translation 0 hold exact
            images, the others are the same frame shifted as a whole (rounded);
            labels [(axis, centre_index, translation)], idxA, idxB (atom k of B is the image of atom k of A),
            ai / rai: index lists as passed to the API (B for the target, A for the reference), n_exact)"""
    q = 2.0 ** -14
    A = np.round(_cloud(n, _edge(n), seed, 0) / q) * q
    dec = np.round((_cloud(N_DECOY_DIMER, _edge(n), seed, 53) + np.array([0.0, 0.0, 1.5 * _edge(n)])) / q) * q
    nt = 2 * n + N_DECOY_DIMER
    if layout == "blocks":
        idxA, idxB = np.arange(n), np.arange(n, 2 * n)
        ai, rai = idxB.copy(), idxA.copy()
    elif layout == "interleaved":
        idxA, idxB = np.arange(0, 2 * n, 2), np.arange(1, 2 * n, 2)
        ai, rai = idxB[::-1].copy(), idxA[::-1].copy()         # listed backwards on both sides
    else:
        raise ValueError(layout)
    frames, labels = [], []
    for t in TRANSLATIONS:
        tv = np.array([t, -t, t])
        for ci, c in enumerate(DIMER_CENTRES):
            c = np.array(c)
            for ax in DIMER_AXES:
                B = (A - c) @ _HALF_TURN[ax] + c
                x = np.empty((nt, 3))
                x[idxA], x[idxB], x[2 * n:] = A, B, dec
                frames.append(x + tv)
                labels.append((ax, ci, t))
    xyz = np.asarray(frames, dtype=np.float32)
    n_exact = len(DIMER_CENTRES) * len(DIMER_AXES)
    assert np.array_equal(xyz[:n_exact].astype(np.float64), np.asarray(frames[:n_exact])), "dimer not exact in float32"
    return dict(xyz=xyz, labels=labels, idxA=idxA, idxB=idxB, ai=ai, rai=rai, n_exact=n_exact)


def target_frames(b, rots, transl, offset):
    """All (rotation, translation) variants of the target base as float32 frames.

    The base is rounded to float32 first and rotated about its own centroid region (the cloud sits near the
    origin), then offset + translation*(1,-1,1)/sqrt(3)... is added.  For cube rotations with zero offset
    and zero translation the float32 frame is an *exact* rigid image of the float32 base.
    Returns xyz float32 (F, n, 3), labels [(rot_index, translation)]."""
    b32 = np.asarray(b, dtype=np.float32).astype(np.float64)
    frames, labels = [], []
    for ti, t in enumerate(transl):
        tv = np.array([t, -t, t]) + offset
        for ri, R in enumerate(rots):
            frames.append(b32 @ R.T + tv)
            labels.append((ri, t))
    return np.asarray(frames, dtype=np.float32), labels


def selection(kind, n, seed):
    """-> dict(n_target, n_ref, ai, rai, tgt_slot, ref_slot)

    ai / rai: what is passed as atom_indices / ref_atom_indices (None or int arrays of length n);
    tgt_slot / ref_slot: for fit atom k, its position in the target / reference trajectory."""
    if kind == "none":
        sl = np.arange(n)
        return dict(n_target=n, n_ref=n, ai=None, rai=None, tgt_slot=sl, ref_slot=sl)
    if kind == "all":
        # every atom, listed explicitly: an index array of length n_atoms (a copy of the same shape as xyz)
        sl = np.arange(n)
        return dict(n_target=n, n_ref=n, ai=sl.copy(), rai=sl.copy(), tgt_slot=sl, ref_slot=sl)
    if kind == "allperm":
        # two trajectories holding the same atoms in different orders; the index lists are permutations of ALL atoms
        p = np.roll(np.arange(n)[::-1], 1 + seed % 2)
        q = np.concatenate([np.arange(1, n, 2), np.arange(0, n, 2)])
        return dict(n_target=n, n_ref=n, ai=p, rai=q, tgt_slot=p, ref_slot=q)
    nt = n + N_DECOY
    # a deterministic subset of size n out of nt, not contiguous
    drop = sorted(set(int(x) for x in np.floor((np.arange(N_DECOY) + 0.5 + 0.13 * (seed % 3)) * nt / N_DECOY)))
    sub = np.array([i for i in range(nt) if i not in drop][:n])
    assert len(sub) == n
    if kind == "equal":
        return dict(n_target=nt, n_ref=nt, ai=sub, rai=sub.copy(), tgt_slot=sub, ref_slot=sub)
    if kind == "order":
        # same *set* of indices on both sides, listed in two different orders
        p = sub[::-1].copy()
        q = np.roll(sub, n // 2 + 1)
        return dict(n_target=nt, n_ref=nt, ai=p, rai=q, tgt_slot=p, ref_slot=q)
    if kind == "diffsets":
        nr = n + N_DECOY_REF
        rsub = (np.arange(n) * 1 + N_DECOY_REF)[::-1].copy()      # different set, different order, other n_atoms
        rsub[: n // 2] = rsub[: n // 2][::-1]
        return dict(n_target=nt, n_ref=nr, ai=sub, rai=rsub, tgt_slot=sub, ref_slot=rsub)
    raise ValueError(kind)


def embed(frames, slots, n_total, seed, phase, spread):
    """Place fit-atom coordinates frames (F, n, 3) at `slots` of an (F, n_total, 3) float32 array; all other
    atoms are decoys (a generic cloud following each frame's centroid)."""
    frames = np.asarray(frames)
    F, n, _ = frames.shape
    out = np.empty((F, n_total, 3), dtype=np.float32)
    dec = _cloud(n_total, spread, seed, phase)
    cen = frames.astype(np.float64).mean(axis=1, keepdims=True)
    out[:] = (dec[None] + cen).astype(np.float32)
    out[:, slots, :] = frames
    return out
