"""Reference DSSP rule engine for property C15, written from the definitions of

    Kabsch W, Sander C (1983) Biopolymers 22:2577-2637  ("the paper")

plus the conventions of the DSSP program where the paper is silent (each one is marked CONVENTION
below and is reported through the `flags` of a result, so that a check can count the patterns on
which a convention decides).  It is NOT derived from mdtraj/geometry/src/dssp.cpp: it works on sets
of H-bonds and derives every pattern from the bonds (no pair scan, no helix-flag table, no deques).

Notation (the paper's):  Hbond(i, j)  <=>  the C=O of residue i accepts the N-H of residue j.
Input bonds are (donor, acceptor) = (NH residue, CO residue), i.e. Hbond(acceptor, donor).

Definitions used
----------------
n-turn(i)            Hbond(i, i+n), n = 3, 4, 5; i and i+n in one chain segment.
minimal n-helix      n-turn(i-1) and n-turn(i)  ->  residues i .. i+n-1.
parallel bridge(i,j) [Hbond(i-1,j) and Hbond(j,i+1)] or [Hbond(j-1,i) and Hbond(i,j+1)]
antipar. bridge(i,j) [Hbond(i,j) and Hbond(j,i)] or [Hbond(i-1,j+1) and Hbond(j-1,i+1)]
                     between two NON-OVERLAPPING stretches i-1,i,i+1 and j-1,j,j+1 (|i-j| >= 3, both
                     stretches exist and are unbroken).
ladder               maximal set of consecutive bridges of identical type
                     (parallel (i,j),(i+1,j+1),..; antiparallel (i,j),(i+1,j-1),..).
bulge-linked ladder  two ladders or bridges of the same type connected by at most one extra residue
                     on one strand and at most four extra residues on the other strand; the linked
                     ladders count as one ladder and the connecting residues belong to it.
bend(i)              angle between CA(i)-CA(i-2) and CA(i+2)-CA(i) > 70 degrees, i-2..i+2 unbroken.
summary              H 4-helix, B isolated bridge, E ladder (>= 2 bridges, incl. bulge-linked),
                     G 3-helix, I 5-helix, T residues i+1..i+n-1 of an n-turn(i), S bend, ' '.

CONVENTIONS (DSSP program; the paper's "priority H,B,E,G,I,T,S" alone does not fix them)
  C-minimal   a minimal 3-helix (5-helix) is written only as a whole: all its residues must be free of
              higher-priority structure (for G: not H, B, E; for I: not G, B, E).  Left-over residues of
              a refused minimal helix stay turn residues (T).
  C-pi        5-helices take precedence over 4-helices (property text: "pi/alpha/3-10 priority";
              DSSP >= 2.1 "prefer pi helices"): a minimal 5-helix may overwrite H, not G/B/E.
  C-EoverB    a residue that is in a ladder and also in an isolated bridge is E.
  C-parfirst  a pair (i,j) that satisfies the parallel AND the antiparallel definition is a parallel bridge.
  A-share     (AMBIGUOUS, parameter `share`) two ladders that would be bulge-linked but whose second strands
              share their end residue (the same residue ends one ladder and starts the other, "-1 extra
              residues"): the paper does not say whether that is a link; DSSP-2.2's unsigned arithmetic
              links them.  Results carry the flag "A-share" whenever this decides anything and the set
              `share_keys` of such junctions; `share` may be True, False or the set of junctions that link,
              so a check can accept every reading.
  C-chain     a chain break is a change of the chain id only (mdtraj has no distance-based breaks).
  C-missing   residues without a complete backbone (N, CA, C, O) have no H-bonds, are nobody's bridge
              partner and nobody's bend vertex.  mode "lenient": a turn / bridge stretch / bend window may
              still span such a residue; mode "strict": such a residue is a chain break on both sides
              (what the DSSP program does with a gap in the residue numbering).
"""
import math

LENIENT = "lenient"
STRICT = "strict"


def segments(n, chain, missing=(), mode=LENIENT):
    """seg[i]: index of the unbroken chain segment of residue i."""
    seg = [0] * n
    s = 0
    for i in range(1, n):
        if chain[i] != chain[i - 1]:
            s += 1
        elif mode == STRICT and (i in missing or (i - 1) in missing):
            s += 1
        seg[i] = s
    return seg


def kappa_deg(ca, i):
    """Bend angle at i from CA coordinates (sequence of 3-vectors), float64; nan if degenerate."""
    a, b, c = ca[i - 2], ca[i], ca[i + 2]
    u = (b[0] - a[0], b[1] - a[1], b[2] - a[2])
    v = (c[0] - b[0], c[1] - b[1], c[2] - b[2])
    nu = u[0] * u[0] + u[1] * u[1] + u[2] * u[2]
    nv = v[0] * v[0] + v[1] * v[1] + v[2] * v[2]
    if not (nu > 0 and nv > 0):
        return float("nan")
    cs = (u[0] * v[0] + u[1] * v[1] + u[2] * v[2]) / math.sqrt(nu * nv)
    if cs != cs:
        return cs
    return math.degrees(math.acos(max(-1.0, min(1.0, cs))))


class Base:
    """Everything that follows from the H-bond pattern alone (no CA geometry)."""
    __slots__ = ("n", "codes", "flags", "seg", "missing", "turns", "ladders", "ladders_unlinked", "share_keys")


def base(n, bonds, chain, missing=(), mode=LENIENT, share=True):
    """Assign H, B, E, G, I, T from the bond pattern.  Returns Base; codes is a list of chars with ' '
    for residues without such a structure."""
    miss = missing if isinstance(missing, (set, frozenset)) else frozenset(missing)
    seg = segments(n, chain, miss, mode)
    flags = set()
    hb = set()
    for d, a in bonds:
        if d == a or d in miss or a in miss or not (0 <= d < n and 0 <= a < n):
            continue
        hb.add((a, d))

    # ---- n-turns -------------------------------------------------------------------------------
    turn = {3: set(), 4: set(), 5: set()}
    for (a, d) in hb:
        k = d - a
        if 3 <= k <= 5 and seg[a] == seg[d]:
            turn[k].add(a)

    def minimal(k):
        tk = turn[k]
        return [i for i in tk if (i - 1) in tk]

    # ---- bridges -------------------------------------------------------------------------------
    par, anti = set(), set()
    for (x, y) in hb:
        if (y, x + 2) in hb:          # Hbond(i-1, j) and Hbond(j, i+1) with i = x+1, j = y
            par.add((x + 1, y) if x + 1 < y else (y, x + 1))
        if (y, x) in hb:              # Hbond(i, j) and Hbond(j, i)
            anti.add((x, y) if x < y else (y, x))
        if (y - 2, x + 2) in hb:      # Hbond(i-1, j+1) and Hbond(j-1, i+1) with i = x+1, j = y-1
            anti.add((x + 1, y - 1) if x + 1 < y - 1 else (y - 1, x + 1))

    def admissible(p):
        i, j = p
        return (j - i >= 3 and i >= 1 and j <= n - 2 and seg[i - 1] == seg[i + 1] and seg[j - 1] == seg[j + 1]
                and i not in miss and j not in miss)

    par = set(p for p in par if admissible(p))
    anti = set(p for p in anti if admissible(p))
    both = par & anti
    if both:
        flags.add("C-parfirst")
        anti -= both

    # ---- ladders: maximal runs; entries [type, i0, i1, j0, j1, n_bridges] ---------------------------
    ladders = []
    for (i, j) in par:
        if (i - 1, j - 1) in par:
            continue
        k = 0
        while (i + k + 1, j + k + 1) in par:
            k += 1
        ladders.append(["P", i, i + k, j, j + k, k + 1])
    for (i, j) in anti:
        if (i - 1, j + 1) in anti:
            continue
        k = 0
        while (i + k + 1, j - k - 1) in anti:
            k += 1
        ladders.append(["A", i, i + k, j - k, j, k + 1])
    ladders.sort()
    ladders_unlinked = ladders
    share_keys = set()

    # ---- bulge links ---------------------------------------------------------------------------
    if len(ladders) > 1:
        def link(X, Y):
            if X[0] != Y[0] or Y[1] <= X[2]:
                return False
            gi = Y[1] - X[2] - 1
            gj = (Y[3] - X[4] - 1) if X[0] == "P" else (X[3] - Y[4] - 1)
            if gj < -1 or gi > 4:
                return False
            if not ((gi <= 1 and gj <= 4) or gj <= 1):
                return False
            jlo, jhi = min(X[3], Y[3]), max(X[4], Y[4])
            if seg[X[1]] != seg[Y[2]] or seg[jlo] != seg[jhi]:
                return False
            if gj == -1:
                # junction: (type, last first-strand residue of X, first first-strand residue of Y, shared residue)
                key = (X[0], X[2], Y[1], X[4] if X[0] == "P" else X[3])
                flags.add("A-share")
                share_keys.add(key)
                return share is True or (share is not False and key in share)
            return True

        def close(lads, order):
            lads = [list(L) for L in lads]
            changed = True
            while changed:
                changed = False
                idx = list(range(len(lads)))
                if order:
                    idx.reverse()
                for a in idx:
                    for b in idx:
                        if a != b and link(lads[a], lads[b]):
                            X, Y = lads[a], lads[b]
                            lads[a] = [X[0], X[1], Y[2], min(X[3], Y[3]), max(X[4], Y[4]), X[5] + Y[5]]
                            del lads[b]
                            changed = True
                            break
                    if changed:
                        break
            return sorted(lads)

        l1 = close(ladders, 0)
        if len(l1) != len(ladders):
            flags.add("bulge")
            if len(ladders) > 2:
                l2 = close(ladders, 1)
                if l2 != l1:
                    flags.add("A-linkorder")     # result depends on the order of linking: not pinned down
        ladders = l1

    estr, bstr = set(), set()
    for L in ladders:
        tgt = estr if L[5] > 1 else bstr
        tgt.update(range(L[1], L[2] + 1))
        tgt.update(range(L[3], L[4] + 1))
    if estr & bstr:
        flags.add("C-EoverB")
    bstr -= estr
    sheet = estr | bstr

    # ---- helices -------------------------------------------------------------------------------
    hs = set()
    for i in minimal(4):
        hs.update((i, i + 1, i + 2, i + 3))
    if hs & sheet:
        flags.add("H-over-sheet")
    gs = set()
    for i in minimal(3):
        r = (i, i + 1, i + 2)
        if any((x in hs or x in sheet) for x in r):
            flags.add("C-minimal")
            continue
        gs.update(r)
    is_ = set()
    for i in minimal(5):
        r = (i, i + 1, i + 2, i + 3, i + 4)
        if any((x in gs or (x in sheet and x not in hs)) for x in r):
            flags.add("C-minimal")
            continue
        if any(x in hs for x in r):
            flags.add("C-pi")
        is_.update(r)

    # ---- turn residues ---------------------------------------------------------------------------
    ts = set()
    for k in (3, 4, 5):
        for i in turn[k]:
            ts.update(range(i + 1, i + k))

    codes = [" "] * n
    for r in range(n):
        if r in is_:
            c = "I"
        elif r in hs:
            c = "H"
        elif r in estr:
            c = "E"
        elif r in bstr:
            c = "B"
        elif r in gs:
            c = "G"
        elif r in ts:
            c = "T"
        else:
            c = " "
        codes[r] = c
    b = Base()
    b.n, b.codes, b.flags, b.seg, b.missing, b.turns, b.ladders = n, codes, flags, seg, miss, turn, ladders
    b.ladders_unlinked = ladders_unlinked
    b.share_keys = share_keys
    return b


def bend_flags(b, kappas, thr=70.0, margin_deg=0.0):
    """bend[i] per the definition, from kappa angles in degrees (sequence, nan where undefined).
    Returns (bend list of bools, list of residues whose kappa is within margin_deg of the threshold)."""
    n, seg, miss = b.n, b.seg, b.missing
    bend = [False] * n
    near = []
    for i in range(2, n - 2):
        if seg[i - 2] != seg[i + 2] or i in miss or (i - 2) in miss or (i + 2) in miss:
            continue
        k = kappas[i]
        if k != k:
            continue
        if abs(k - thr) <= margin_deg:
            near.append(i)
        bend[i] = k > thr
    return bend, near


def overlay_bends(b, bend):
    """Final summary string: S on bend residues that carry no other structure."""
    return "".join(("S" if (c == " " and bend[i]) else c) for i, c in enumerate(b.codes))


def overlay_bend_indices(b, idx):
    """Same, with the bends given as the indices of the bend residues."""
    codes = list(b.codes)
    for i in idx:
        if codes[i] == " ":
            codes[i] = "S"
    return "".join(codes)


def assign(n, bonds, chain, missing=(), ca=None, mode=LENIENT, margin_deg=0.0, share=True):
    """Full assignment.  ca: sequence of n CA positions (or None: no bends).  Returns (string, flags, near)."""
    b = base(n, bonds, chain, missing, mode, share)
    if ca is None:
        return "".join(b.codes), b.flags, []
    miss = b.missing
    kap = [float("nan")] * n
    for i in range(2, n - 2):
        if i in miss or (i - 2) in miss or (i + 2) in miss:
            continue
        kap[i] = kappa_deg(ca, i)
    bend, near = bend_flags(b, kap, margin_deg=margin_deg)
    return overlay_bends(b, bend), b.flags, near


SIMPLIFIED = {"H": "H", "G": "H", "I": "H", "E": "E", "B": "E", "T": "C", "S": "C", " ": "C"}
