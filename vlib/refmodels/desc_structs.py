"""C16: designed structures for the descriptor checks.

A hand-built three-chain system (two peptide chains with GLY, an N-terminal residue with H1-3, a C-terminal
residue with OXT, ACE/NME caps that have no CA, then Na+, Cl- and three waters) with residues of unequal sizes,
plus fragments of pdb files from the tree under test.  Everything is deterministic; `seed` only shifts the phase
of the low-discrepancy jitter.

`table(traj)` returns the plain per-atom records the oracles work from (name, element symbol, residue index,
residue name, chain index, mass, is_protein flag) -- read once from the topology attributes, which are inputs.
"""
import os

import numpy as np

from vlib import grids

# (resname, [(atom name, element symbol)])
_A = [
    ("SER", "N H1 H2 H3 CA HA CB HB2 HB3 OG HG C O"),
    ("GLY", "N H CA HA2 HA3 C O"),
    ("ALA", "N H CA HA CB HB1 HB2 HB3 C O"),
    ("VAL", "N H CA HA CB HB CG1 CG2 C O"),
    ("GLY", "N H CA HA2 HA3 C O"),
    ("LYS", "N H CA HA CB HB2 HB3 CG CD CE NZ HZ1 C O"),
    ("ASP", "N H CA HA CB HB2 HB3 CG OD1 OD2 C O OXT"),
]
_B = [
    ("ACE", "CH3 HH31 HH32 HH33 C O"),
    ("THR", "N H CA HA CB HB OG1 HG1 CG2 C O"),
    ("GLY", "N H CA HA2 HA3 C O"),
    ("MET", "N H CA HA CB CG SD CE C O"),
    ("ALA", "N H CA HA CB HB1 HB2 HB3 C O"),
    ("NME", "N H CH3 HH31 HH32 HH33"),
]
_C = [("NA", "NA"), ("CL", "CL"), ("HOH", "O H1 H2"), ("HOH", "O H1 H2"), ("HOH", "O H1 H2")]


def _elem(resname, name):
    if resname == "NA":
        return "Na"
    if resname == "CL":
        return "Cl"
    if name.startswith("H"):
        return "H"
    return {"C": "C", "N": "N", "O": "O", "S": "S"}[name[0]]


def _place(n_per_res, centres, seed, scale=0.34, dmin=0.085):
    """Sequentially accept Halton points (rejection on a minimum distance) around each residue centre."""
    out = []
    k = 1 + 211 * seed
    for c, n in zip(centres, n_per_res):
        for _ in range(n):
            while True:
                p = c + (np.array([grids.halton(k, b) for b in (2, 3, 5)]) - 0.5) * scale
                k += 1
                if not out or np.min(np.linalg.norm(np.array(out) - p, axis=1)) >= dmin:
                    out.append(p)
                    break
    return np.array(out)


def build_peptide(md, seed=0, variant="pep"):
    """variant: pep (orthorhombic, per-frame varying cell), pep_tri (triclinic), pep_nocell, pep_heavy (no H),
    pep_far (no cell, translated ~45 nm from the origin), pepc_<name> (cell <name> of grids.cell_menu)."""
    top = md.Topology()
    centres = []
    spec = []
    for ci, chain in enumerate((_A, _B, _C)):
        ch = top.add_chain()
        for ri, (rn, names) in enumerate(chain):
            res = top.add_residue(rn, ch, resSeq=ri + 1)
            names = names.split()
            if variant == "pep_heavy":
                names = [n for n in names if _elem(rn, n) != "H"]
            for n in names:
                top.add_atom(n, md.element.Element.getBySymbol(_elem(rn, n)), res)
            spec.append(len(names))
            if ci == 0:
                c = np.array([0.48 * np.cos(1.75 * ri), 0.48 * np.sin(1.75 * ri), 0.17 * ri])
            elif ci == 1:
                c = np.array([0.95 + 0.4 * np.cos(1.6 * ri + 1), 0.15 + 0.45 * np.sin(1.6 * ri + 1), 1.0 - 0.18 * ri])
            else:
                c = np.array([0.3 + 0.35 * ri, -0.75 + 0.1 * ri * ri, 0.45 + 0.2 * ri])
            centres.append(c)
    top.create_standard_bonds()
    for res in top.residues:                      # water O-H bonds (not in the standard table path for HOH here)
        if res.name == "HOH":
            have = {(min(a.index, b.index), max(a.index, b.index)) for a, b in top.bonds}
            o = res.atom(0)
            for h in list(res.atoms)[1:]:
                if (min(o.index, h.index), max(o.index, h.index)) not in have:
                    top.add_bond(o, h)
    x0 = _place(spec, centres, seed)
    n = len(x0)
    rots = grids.generic_rotations(2, seed)
    frames = [x0,
              (x0 + grids.jitter(n, 3, 0.08, seed + 3)) @ rots[0].T * 1.03,
              (x0 + grids.jitter(n, 3, 0.12, seed + 5)) @ rots[1].T * 0.97]
    xyz = np.array(frames)
    kw = {}
    if variant in ("pep", "pep_heavy"):
        xyz = xyz + np.array([0.9, 0.2, 1.1])      # part of the system lies outside [0, L)
        kw = dict(unitcell_lengths=np.array([[2.3, 2.7, 3.1], [2.35, 2.7, 3.15], [2.3, 2.8, 3.05]]),
                  unitcell_angles=np.full((3, 3), 90.0))
    elif variant == "pep_tri":
        xyz = xyz + np.array([0.4, 1.9, 0.3])
        kw = dict(unitcell_lengths=np.tile([2.9, 3.1, 3.4], (3, 1)), unitcell_angles=np.tile([75.0, 100.0, 115.0], (3, 1)))
    elif variant.startswith("pepc_"):              # cells of the shared cell menu (3 nm class), system partly outside
        cell = [c for c in grids.cell_menu(quick=True, unreduced=False) if c["name"] == variant[5:]][0]
        xyz = xyz + np.array([1.3, 0.6, 2.2])
        kw = dict(unitcell_lengths=np.tile(cell["lengths"], (3, 1)), unitcell_angles=np.tile(cell["angles"], (3, 1)))
    elif variant == "pep_far":
        xyz = xyz + np.array([31.7, -18.3, 25.1])
    elif variant != "pep_nocell":
        raise ValueError(variant)
    return md.Trajectory(xyz.astype(np.float32), top, **kw)


def build_ions(md, seed=0, variant="ions_tri"):
    """Ions and waters spread over a whole small cell: residues whose first atom is on the far side of the cell from
    atom 0 (so the residue origin is reached through a periodic image), every origin within 0.42 x the smallest
    cell width of atom 0 so that its minimum image is unique.  ions_tri: triclinic, ions_ortho: orthorhombic."""
    from vlib.refmodels import mic
    L, A = ((2.0, 2.2, 2.4), (75.0, 100.0, 115.0)) if variant == "ions_tri" else ((2.0, 2.2, 2.4), (90.0, 90.0, 90.0))
    v = grids.lengths_angles_to_vectors(*L, *A)
    wmin = grids.cell_widths(v).min()
    f0 = np.array([0.1, 0.1, 0.1])
    ax = np.arange(0.05, 1.0, 0.15)
    cand = []
    for f in np.array([[a, b, c] for a in ax for b in ax for c in ax]):
        d = mic.min_image(((f - f0) @ v)[None], v, 3)[0][0]
        if 0.3 < d < 0.42 * wmin:
            cand.append(f)
    # deterministic pick that favours the far side of every axis, then fills up
    cand.sort(key=lambda f: (-int((f > 0.6).sum()), tuple(np.round(f, 3))))
    pick = cand[:6] + cand[len(cand) // 2: len(cand) // 2 + 5] + cand[-4:]
    names = ["NA"] + ["NA", "CL", "CL", "NA", "CL"] + ["HOH"] * (len(pick) - 5)
    top = md.Topology()
    ch = top.add_chain()
    pos = []
    k = 1 + 97 * seed
    for rn, f in zip(names, [f0] + pick):
        res = top.add_residue(rn, ch)
        c = f @ v
        if rn == "HOH":
            o = top.add_atom("O", md.element.oxygen, res)
            pos.append(c)
            for hn in ("H1", "H2"):
                u = np.array([grids.halton(k, b) for b in (2, 3, 5)]) - 0.5
                k += 1
                h = top.add_atom(hn, md.element.hydrogen, res)
                top.add_bond(o, h)
                pos.append(c + 0.0957 * u / np.linalg.norm(u))
        else:
            top.add_atom(rn, md.element.Element.getBySymbol("Na" if rn == "NA" else "Cl"), res)
            pos.append(c)
    x0 = np.array(pos)
    n = len(x0)
    xyz = np.array([x0, x0 + grids.jitter(n, 3, 0.02, seed + 3), x0 + grids.jitter(n, 3, 0.03, seed + 5)])
    return md.Trajectory(xyz.astype(np.float32), top, unitcell_lengths=np.tile(L, (3, 1)), unitcell_angles=np.tile(A, (3, 1)))


def build_interleaved(md, seed=0):
    """Three residues whose atoms alternate in atom-index order (legal through Topology.add_atom(name, element,
    residue) for an earlier residue): iteration over Topology.atoms goes residue by residue and therefore NOT in
    index order, while coordinates are in index order."""
    top = md.Topology()
    ch = top.add_chain()
    res = [top.add_residue(n, ch) for n in ("AAA", "BBB", "CCC")]
    plan = [(0, "C1", "C"), (1, "S1", "S"), (0, "H1", "H"), (2, "O1", "O"), (1, "N1", "N"), (0, "O2", "O"),
            (2, "H2", "H"), (1, "C2", "C"), (2, "S2", "S")]
    for ri, name, el in plan:
        top.add_atom(name, md.element.Element.getBySymbol(el), res[ri])
    x0 = np.array([[0.35 * i, 0.2 * ((i * 7) % 5), 0.15 * ((i * 3) % 4)] for i in range(len(plan))])
    xyz = np.array([x0, x0 * 1.1 + grids.jitter(len(plan), 3, 0.05, seed + 1), x0[::-1] * 0.9])
    return md.Trajectory(xyz.astype(np.float32), top)


def load_fragment(md, repo, name, seed=0):
    """Fragments of files of the tree under test."""
    d = os.path.join(repo, "tests", "data")
    if name == "frag_2EQQ":                       # NMR ensemble with hydrogens, no cell: residues 0..13, 3 models
        t = md.load(os.path.join(d, "2EQQ.pdb"))
        idx = [a.index for a in t.top.atoms if a.residue.index < 14]
        return t.atom_slice(idx)[[0, 7, 19]]
    if name == "frag_bpti":                       # protonated single chain: residues 0..11 and the last 5 (both termini)
        t = md.load(os.path.join(d, "bpti.pdb"))
        nres = t.n_residues
        idx = [a.index for a in t.top.atoms if a.residue.index < 12 or a.residue.index >= nres - 5]
        s = t.atom_slice(idx)
        x = s.xyz[0].astype(np.float64)
        n = len(x)
        xyz = np.array([x, x + grids.jitter(n, 3, 0.04, seed + 1), x * 1.02 + grids.jitter(n, 3, 0.06, seed + 2)])
        return md.Trajectory(xyz.astype(np.float32), s.topology)
    if name == "frag_GG":                         # ACE-GLY-GLY-NH2 + 10 TIP4P-Ew waters (with virtual sites), cubic cell
        t = md.load(os.path.join(d, "GG-tip4pew.pdb"))
        res = list(t.top.residues)
        keep = {r.index for r in res if r.name != "HOH"}
        keep |= set([r.index for r in res if r.name == "HOH"][:10])
        idx = [a.index for a in t.top.atoms if a.residue.index in keep]
        s = t.atom_slice(idx)
        x = s.xyz[0].astype(np.float64)
        n = len(x)
        xyz = np.array([x, x + grids.jitter(n, 3, 0.03, seed + 1), x + grids.jitter(n, 3, 0.05, seed + 2)])
        return md.Trajectory(xyz.astype(np.float32), s.topology, unitcell_lengths=np.tile(t.unitcell_lengths[0], (3, 1)),
                             unitcell_angles=np.full((3, 3), 90.0))
    if name in ("frag_1vii", "wat", "watc"):
        t = md.load(os.path.join(d, "1vii_sustiva_water.pdb"))
        res = list(t.top.residues)
        if name == "frag_1vii":                   # 12 protein residues + ligand + 2 Cl- + 6 waters, cubic cell, 3 frames
            keep = [r.index for r in res if r.is_protein][:12]
            keep += [r.index for r in res if r.name == "LIG"][:1]
            keep += [r.index for r in res if r.name == "CL"][:2]
            keep += [r.index for r in res if r.name == "HOH"][:6]
        else:                                     # 48 waters + Cl- ions; 'wat': per-frame different cubic cell, 'watc': constant
            keep = [r.index for r in res if r.name == "HOH"][5:5 + 48]
            keep += [r.index for r in res if r.name == "CL"][:2]
        ks = set(keep)
        idx = [a.index for a in t.top.atoms if a.residue.index in ks]
        s = t.atom_slice(idx)
        if name == "wat":
            L = s.unitcell_lengths.copy()
            L[1] *= 1.01
            L[2] *= 0.985
            s.unitcell_lengths = L
        return s
    raise ValueError(name)


STRUCTS = ["pep", "pep_tri", "pep_nocell", "pep_heavy", "pep_far", "frag_2EQQ", "frag_1vii", "frag_bpti", "frag_GG",
           "wat", "watc"]


def get(md, repo, name, seed=0):
    if name.startswith("pep"):
        return build_peptide(md, seed, name)
    if name.startswith("ions"):
        return build_ions(md, seed, name)
    if name == "ilv":
        return build_interleaved(md, seed)
    return load_fragment(md, repo, name, seed)


def table(traj):
    """Plain records per atom and per residue (inputs of the oracles)."""
    atoms = []
    for a in traj.topology.atoms:
        atoms.append(dict(i=a.index, name=a.name, el=a.element.symbol, res=a.residue.index, rn=a.residue.name,
                          chain=a.residue.chain.index, mass=float(a.element.mass), prot=bool(a.residue.is_protein)))
    atoms.sort(key=lambda a: a["i"])          # records in atom-index order (= coordinate order) whatever the iteration order
    residues = []
    for r in traj.topology.residues:
        residues.append(dict(i=r.index, name=r.name, chain=r.chain.index, atoms=[a.index for a in r.atoms],
                             prot=bool(r.is_protein)))
    bonds = sorted({(min(a.index, b.index), max(a.index, b.index)) for a, b in traj.topology.bonds})
    return dict(atoms=atoms, residues=residues, bonds=bonds)
