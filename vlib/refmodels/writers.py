"""Format table for the streaming writers: how to open a file object for writing and how to hand it a block
of frames of an md.Trajectory (mirrors what Trajectory.save_* pass, so incremental writing can be compared
with one-shot writing).  Shared by C19 and C20."""
import numpy as np

# formats with a file object that accepts successive write() calls
STREAM_FORMATS = ["h5", "nc", "dcd", "xtc", "trr", "mdcrd", "xyz", "lammpstrj", "gro", "pdb", "dtr"]


def open_w(path, fmt, force_overwrite=True, mode="w"):
    import mdtraj as md
    return md.open(path, mode, force_overwrite=force_overwrite)


def _A(x):
    return None if x is None else np.asarray(x) * 10.0


def write_block(f, fmt, traj, lo, hi, with_cell=True, with_time=True, model_offset=0, first=False):
    """Write frames [lo, hi) of traj through file object f.  with_cell/with_time=False omit that information
    (used for ragged-write enumeration)."""
    t = traj[lo:hi]
    cell = with_cell and t.unitcell_lengths is not None
    L = t.unitcell_lengths if cell else None
    Ang = t.unitcell_angles if cell else None
    V = t.unitcell_vectors if cell else None
    time = t.time if with_time else None
    if fmt == "h5":
        f.write(coordinates=t.xyz, time=time, cell_lengths=L, cell_angles=Ang)
        if first:
            f.topology = traj.topology
    elif fmt == "nc":
        f.write(coordinates=_A(t.xyz), time=time, cell_lengths=_A(L), cell_angles=Ang)
    elif fmt == "dcd":
        f.write(xyz=_A(t.xyz), cell_lengths=_A(L), cell_angles=Ang)
    elif fmt in ("xtc", "trr"):
        f.write(xyz=t.xyz, time=time, box=V)
    elif fmt == "mdcrd":
        f.write(xyz=_A(t.xyz), cell_lengths=_A(L))
    elif fmt == "xyz":
        f.write(xyz=_A(t.xyz), types=[a.name for a in t.topology.atoms])
    elif fmt == "lammpstrj":
        f.write(xyz=_A(t.xyz), cell_lengths=_A(L), cell_angles=Ang)
    elif fmt == "gro":
        f.write(t.xyz, t.topology, time, V)
    elif fmt == "pdb":
        for i in range(t.n_frames):
            kw = {}
            if cell:
                kw = dict(unitcell_lengths=_A(L[i]), unitcell_angles=Ang[i])
            f.write(_A(t.xyz[i]), t.topology, modelIndex=model_offset + lo + i, **kw)
    elif fmt == "dtr":
        f.write(xyz=_A(t.xyz), cell_lengths=_A(L), cell_angles=Ang, times=time)
    else:
        raise ValueError(fmt)


def flush(f):
    """Flush where the file object offers it (as the reporters do)."""
    fl = getattr(f, "flush", None)
    if fl is not None:
        fl()
        return True
    return False
