"""Shared float64 oracles / builders of the C05 (minimum image) and C07 (angles, dihedrals) checks.

Nothing here imports the code under test except `make_traj` (which only constructs an md.Trajectory).
The minimum-image search itself is `vlib.refmodels.mic.min_image`; this module adds
  * a lattice-basis reduction (so that the bounded image search of mic.min_image is provably sufficient,
    also for the unreduced input forms of the cell menu) with an asserted coverage bound,
  * the float32 error model used as tolerance,
  * float64 angle / dihedral definitions with their conditioning numbers,
  * hand-built peptide topologies and a name-based lookup of the documented backbone / side-chain torsions.
"""
import itertools

import numpy as np

from vlib import grids
from vlib.refmodels import mic

EPS32 = grids.EPS32
PI32 = float(np.float32(np.pi))      # the largest value a float32 result "in [-pi, pi]" can take


# ------------------------------------------------------------------------------------------------
# trajectories
# ------------------------------------------------------------------------------------------------
_TOP_CACHE = {}


def point_topology(n):
    """Topology of n single-atom residues (cached per n: the geometry functions under test only read it)."""
    if n not in _TOP_CACHE:
        _TOP_CACHE[n] = _point_topology(n)
    return _TOP_CACHE[n]


def _point_topology(n):
    import mdtraj as md
    top = md.Topology()
    ch = top.add_chain()
    for _ in range(n):
        r = top.add_residue("X", ch)
        top.add_atom("C", md.element.carbon, r)
    return top


def make_traj(xyz32, vectors=None, lengths=None, angles=None, top=None):
    """Fresh md.Trajectory (arrays copied).  xyz32 (F,N,3) float32.  Cell: per-frame `vectors` (F,3,3)
    or per-frame `lengths`/`angles` (F,3) or none."""
    import mdtraj as md
    xyz32 = np.array(xyz32, dtype=np.float32, copy=True)
    assert xyz32.ndim == 3
    top = top if top is not None else point_topology(xyz32.shape[1])
    if lengths is not None:
        t = md.Trajectory(xyz32, top, unitcell_lengths=np.array(lengths, dtype=np.float64, copy=True),
                          unitcell_angles=np.array(angles, dtype=np.float64, copy=True))
    else:
        t = md.Trajectory(xyz32, top)
        if vectors is not None:
            t.unitcell_vectors = np.array(vectors, dtype=np.float32, copy=True)
    return t


# ------------------------------------------------------------------------------------------------
# cells beyond grids.cell_menu used by C05 and C07
# ------------------------------------------------------------------------------------------------
def make_cell(name, L, A, unreduced=False):
    v = grids.lengths_angles_to_vectors(*L, *A)
    if not unreduced:
        return dict(name=name, vectors=v, lengths=np.array(L, float), angles=np.array(A, float), reduced=True,
                    ortho=all(abs(x - 90) < 1e-9 for x in A))
    u = v.copy()
    u[1] = v[1] + v[0]
    u[2] = v[2] + v[0] - v[1]
    Lu, Au = grids.vectors_to_lengths_angles(u)
    return dict(name=name, vectors=u, lengths=Lu, angles=Au, reduced=False, ortho=False)


def extended_menu():
    m = {c["name"]: c for c in grids.cell_menu(quick=False)}
    # strongly skewed cells whose shortest lattice vector (a-b resp. a+b) is shorter than every cell edge
    m["g45"] = make_cell("g45", (2.0, 2.0, 2.0), (90, 90, 45))
    m["g45+unreduced"] = make_cell("g45+unreduced", (2.0, 2.0, 2.0), (90, 90, 45), unreduced=True)
    m["g135"] = make_cell("g135", (2.0, 2.0, 2.0), (90, 90, 135))
    m["g135+unreduced"] = make_cell("g135+unreduced", (2.0, 2.0, 2.0), (90, 90, 135), unreduced=True)
    # orthorhombic cells of an all-orthorhombic stack in which consecutive frames share one or two edge lengths exactly
    for nm, L in ORTHO_SHARED.items():
        m[nm] = make_cell(nm, L, (90, 90, 90))
    for nm, (L, A) in SKEW_SHARED.items():
        m[nm] = make_cell(nm, L, A)
    return m


ORTHO_SHARED = {"o234": (2.0, 3.0, 4.0), "o2_36_44": (2.0, 3.6, 4.4), "o25_3_45": (2.5, 3.0, 4.5), "o26_33_4": (2.6, 3.3, 4.0),
                "o2_3_47": (2.0, 3.0, 4.7), "o2_35_4": (2.0, 3.5, 4.0), "o27_3_4": (2.7, 3.0, 4.0)}
# X, Y, X for every Y sharing a / b / c / ab / ac / bc with X = o234: every class in both orders, consecutive frames
SHARED_STACKS = {}
SHARED_STACKS["stack_ortho_shared"] = [n for y in ("o2_36_44", "o25_3_45", "o26_33_4", "o2_3_47", "o2_35_4", "o27_3_4")
                                for n in ("o234", y, "o234")]
# skewed cells of a per-frame-varying stack in which consecutive frames share all cell parameters but one
SKEW_SHARED = {"h334": ((3.0, 3.0, 4.0), (90, 90, 120)), "h335": ((3.0, 3.0, 5.0), (90, 90, 120)),
               "h3_35_4": ((3.0, 3.5, 4.0), (90, 90, 120)), "h28_3_4": ((2.8, 3.0, 4.0), (90, 90, 120)),
               "h334_al80": ((3.0, 3.0, 4.0), (80, 90, 120)), "h334_be100": ((3.0, 3.0, 4.0), (90, 100, 120)),
               "h334_ga100": ((3.0, 3.0, 4.0), (90, 90, 100))}
SHARED_STACKS["stack_skew_shared"] = [n for y in ("h335", "h3_35_4", "h28_3_4", "h334_al80", "h334_be100", "h334_ga100")
                               for n in ("h334", y, "h334")]

# ------------------------------------------------------------------------------------------------
# minimum image with proven search range
# ------------------------------------------------------------------------------------------------
_RB_CACHE = {}


def reduce_basis(V):
    key = np.asarray(V, np.float64).tobytes()
    if key not in _RB_CACHE:
        if len(_RB_CACHE) > 4096:
            _RB_CACHE.clear()
        _RB_CACHE[key] = _reduce_basis(V)
    B, T = _RB_CACHE[key]
    return B.copy(), T.copy()


def _reduce_basis(V):
    """Greedy pairwise (Lagrange/LLL-like) reduction.  Returns (B, T) with B = T @ V, T integer, |det T| = 1.
    B spans the same lattice as V; only used to make the bounded image search sufficient."""
    V = np.asarray(V, np.float64)
    B = V.copy()
    T = np.eye(3)
    for _ in range(200):
        changed = False
        order = np.argsort([-np.dot(b, b) for b in B])
        for i in order:
            for j in range(3):
                if i == j:
                    continue
                k = np.round(np.dot(B[i], B[j]) / np.dot(B[j], B[j]))
                if k != 0:
                    Bi = B[i] - k * B[j]
                    if np.dot(Bi, Bi) < np.dot(B[i], B[i]) * (1 - 1e-12):
                        B[i] = Bi
                        T[i] = T[i] - k * T[j]
                        changed = True
        if not changed:
            break
    assert abs(abs(np.linalg.det(T)) - 1) < 1e-9
    assert np.allclose(T @ V, B, rtol=0, atol=1e-9 * np.abs(V).max())
    return B, T


def min_image(r, V, chunk=2048, second=False):
    """Brute-force minimum image of plain differences r (...,3) in the lattice spanned by rows of V.

    Returns dict(d=min length, vec=a minimising image vector, n=integer coefficients w.r.t. V (r + n@V = vec),
    d2=length of the best image with different n (only if second=True)).
    The search is mic.min_image on a reduced basis B; sufficiency of its range R is asserted per point:
    every lattice image of length <= d has |n_i - centre_i| <= d / width_i(B) + 1/2."""
    r = np.asarray(r, np.float64)
    shp = r.shape[:-1]
    r2 = r.reshape(-1, 3)
    B, T = reduce_basis(V)
    w = grids.cell_widths(B)
    # upper bound of every min-image length: the length of the image obtained by fractional rounding
    fr = r2 @ np.linalg.inv(B)
    d0 = np.linalg.norm((fr - np.round(fr)) @ B, axis=1)
    dmax = float(d0.max()) if len(d0) else 0.0
    R = max(2, int(np.ceil(dmax / w.min() + 0.5)))
    assert R <= 6, ("image search radius too large for the brute-force oracle", R)
    d = np.empty(len(r2))
    vec = np.empty((len(r2), 3))
    nB = np.empty((len(r2), 3))
    d2 = np.full(len(r2), np.inf)
    if second:
        sh = mic.image_shifts(R)
    for s in range(0, len(r2), chunk):
        rr = r2[s:s + chunk]
        dd, bb, nn = mic.min_image(rr, B, R)
        d[s:s + chunk], vec[s:s + chunk], nB[s:s + chunk] = dd, bb, nn
        if second:
            frac = rr @ np.linalg.inv(B)
            cand = (-np.round(frac))[:, None, :] + sh
            im = rr[:, None, :] + cand @ B
            l2 = np.einsum("...k,...k->...", im, im)
            same = np.all(cand == nn[:, None, :], axis=-1)
            l2 = np.where(same, np.inf, l2)
            d2[s:s + chunk] = np.sqrt(l2.min(axis=1))
    assert np.all(d / w.min() + 0.5 <= R + 1e-9), "image search range not sufficient"
    n = nB @ T
    assert np.allclose(n, np.round(n), atol=1e-9)
    n = np.round(n)
    out = dict(d=d.reshape(shp), vec=vec.reshape(shp + (3,)), n=n.reshape(shp + (3,)))
    if second:
        out["d2"] = d2.reshape(shp)
    return out


def scale_S(r, V=None):
    """Magnitude of the largest intermediate of a (periodic) displacement computation: every intermediate of
    `r12 = x2 - x1; r12 -= n3*c; r12 -= n2*b; r12 -= n1*a; r12 += (i*a + j*b + k*c)` is bounded by
    2|r12| + |a| + |b| + |c| (cell vectors as given; the kernels' reduced vectors are not longer)."""
    r = np.asarray(r, np.float64)
    s = np.linalg.norm(r, axis=-1)
    if V is None:
        return s
    return 2 * s + np.linalg.norm(np.asarray(V, np.float64), axis=-1).sum(axis=-1)


DOM_MARGIN = 64 * EPS32     # relative margin kept from the edge of the minimum-image domain (half the smallest width)


def in_domain(d, half_width, tol):
    """True where the minimum-image distance d lies inside the domain in which the property promises the minimum image
    (d < half the smallest cell width) by more than a float32 margin: whether a kernel still finds the image for a pair
    sitting ON the edge depends on the last bit of the box matrix and of the coordinates, so pairs within
    64*eps32*half_width + 2*tol (tol = the pair's own displacement error model) of the edge are not judged for equality
    (they are still judged for 'never below the minimum' and 'is a lattice translate').  Returns (inside, in_margin_band)."""
    d = np.asarray(d, np.float64)
    inside = d < half_width * (1 - DOM_MARGIN) - 2 * np.asarray(tol, np.float64)
    return inside, (d < half_width * (1 + DOM_MARGIN) + 2 * np.asarray(tol, np.float64)) & ~inside


C_DISP = 8      # number of float32 roundings (unit eps32) allowed for in a displacement / distance


def tol_disp(r, V=None):
    """float32 error model |delta| <= C_DISP * eps32 * S for a displacement component vector / distance."""
    return C_DISP * EPS32 * scale_S(r, V)


# ------------------------------------------------------------------------------------------------
# angles and dihedrals: definitions (float64) and conditioning
# ------------------------------------------------------------------------------------------------
def angle_def(u, v):
    """Angle in [0, pi] between vectors u and v (the two bond vectors at the middle atom)."""
    cu = np.einsum("...k,...k->...", u, v) / (np.linalg.norm(u, axis=-1) * np.linalg.norm(v, axis=-1))
    th = np.arccos(np.clip(cu, -1.0, 1.0))
    # arccos is itself ill-conditioned near 0/pi in float64 only below 1e-8: use atan2 form for safety
    cr = np.linalg.norm(np.cross(u, v), axis=-1)
    return np.where(np.abs(cu) > 0.99, np.arctan2(cr, np.einsum("...k,...k->...", u, v)), th)


def dihedral_def(b1, b2, b3):
    """IUPAC torsion in [-pi, pi] about b2 for consecutive bond vectors b1 = r1-r0, b2 = r2-r1, b3 = r3-r2."""
    c1 = np.cross(b2, b3)
    c2 = np.cross(b1, b2)
    p1 = np.einsum("...k,...k->...", b1, c1) * np.linalg.norm(b2, axis=-1)
    p2 = np.einsum("...k,...k->...", c1, c2)
    return np.arctan2(p1, p2)


def sin_between(u, v):
    return np.linalg.norm(np.cross(u, v), axis=-1) / (np.linalg.norm(u, axis=-1) * np.linalg.norm(v, axis=-1))


C_EVAL = 8          # float32 roundings in the evaluation of the cosine / the two atan2 arguments
SIN_MIN = 1e-2      # conditioning bound: cases with a sine below it are excluded and counted


def tol_angle(u, v, eu, ev):
    """Error model of an angle whose bond vectors carry absolute errors eu, ev (float32 displacement model):
    direction errors eu/|u| + ev/|v|, plus the float32 cosine (C_EVAL*eps32) amplified by 1/sin(theta) in
    acos, plus the rounding of the float32 result."""
    s = np.maximum(sin_between(u, v), SIN_MIN)
    return eu / np.linalg.norm(u, axis=-1) + ev / np.linalg.norm(v, axis=-1) + C_EVAL * EPS32 / s + 2 * EPS32 * np.pi


def tol_dihedral(b1, b2, b3, e1, e2, e3):
    """Error model of a torsion: the normal of plane (b1,b2) turns by at most (e1|b2| + e2|b1|)/|b1xb2|, the
    normal of (b2,b3) by (e3|b2| + e2|b3|)/|b2xb3|; the float32 evaluation of the cross/dot products adds
    C_EVAL*eps32*(1/sin12 + 1/sin23); plus the rounding of the float32 result."""
    n1 = np.linalg.norm(b1, axis=-1)
    n2 = np.linalg.norm(b2, axis=-1)
    n3 = np.linalg.norm(b3, axis=-1)
    s12 = np.maximum(sin_between(b1, b2), SIN_MIN)
    s23 = np.maximum(sin_between(b2, b3), SIN_MIN)
    return ((e1 / n1 + e2 / n2) / s12 + (e3 / n3 + e2 / n2) / s23
            + C_EVAL * EPS32 * (1 / s12 + 1 / s23) + 2 * EPS32 * np.pi)


def angdiff(a, b):
    """|a - b| on the circle."""
    d = np.abs(np.asarray(a, np.float64) - np.asarray(b, np.float64)) % (2 * np.pi)
    return np.minimum(d, 2 * np.pi - d)


# ------------------------------------------------------------------------------------------------
# peptides for the named torsions
# ------------------------------------------------------------------------------------------------
BACKBONE = ["N", "CA", "C", "O"]
SIDECHAIN = {
    "ALA": ["CB"], "GLY": [], "PRO": ["CB", "CG", "CD"],
    "ARG": ["CB", "CG", "CD", "NE", "CZ", "NH1", "NH2"], "LYS": ["CB", "CG", "CD", "CE", "NZ"],
    "MET": ["CB", "CG", "SD", "CE"], "ILE": ["CB", "CG1", "CG2", "CD1"], "LEU": ["CB", "CG", "CD1", "CD2"],
    "VAL": ["CB", "CG1", "CG2"], "THR": ["CB", "OG1", "CG2"], "SER": ["CB", "OG"], "CYS": ["CB", "SG"],
    "ASP": ["CB", "CG", "OD1", "OD2"], "ASN": ["CB", "CG", "OD1", "ND2"],
    "GLU": ["CB", "CG", "CD", "OE1", "OE2"], "GLN": ["CB", "CG", "CD", "OE1", "NE2"],
    "HIS": ["CB", "CG", "ND1", "CD2", "CE1", "NE2"], "PHE": ["CB", "CG", "CD1", "CD2", "CE1", "CE2", "CZ"],
    "TYR": ["CB", "CG", "CD1", "CD2", "CE1", "CE2", "CZ", "OH"],
    "TRP": ["CB", "CG", "CD1", "CD2", "NE1", "CE2", "CE3", "CZ2", "CZ3", "CH2"],
    "HOH": None,   # water: atoms O, H1, H2 only
}
AMINO = [k for k in SIDECHAIN if k != "HOH"]

# Side-chain torsion definitions by residue type (IUPAC-IUB 1970 nomenclature; the compute_chi* docstrings name
# the axis: chi1 CA-CB, chi2 CB-CG, chi3 CG-CD [ARG GLN GLU LYS MET], chi4 CD-NE / CD-CE [ARG LYS], chi5 NE-CZ [ARG]).
CHI = {
    1: {**{r: ("N", "CA", "CB", "CG") for r in ("ARG", "ASN", "ASP", "GLN", "GLU", "HIS", "LEU", "LYS", "MET",
                                                  "PHE", "PRO", "TRP", "TYR")},
        "CYS": ("N", "CA", "CB", "SG"), "ILE": ("N", "CA", "CB", "CG1"), "VAL": ("N", "CA", "CB", "CG1"),
        "SER": ("N", "CA", "CB", "OG"), "THR": ("N", "CA", "CB", "OG1")},
    2: {**{r: ("CA", "CB", "CG", "CD") for r in ("ARG", "GLN", "GLU", "LYS", "PRO")},
        **{r: ("CA", "CB", "CG", "CD1") for r in ("LEU", "PHE", "TRP", "TYR")},
        "ILE": ("CA", "CB", "CG1", "CD1"), "ASN": ("CA", "CB", "CG", "OD1"), "ASP": ("CA", "CB", "CG", "OD1"),
        "HIS": ("CA", "CB", "CG", "ND1"), "MET": ("CA", "CB", "CG", "SD")},
    3: {"ARG": ("CB", "CG", "CD", "NE"), "LYS": ("CB", "CG", "CD", "CE"), "GLN": ("CB", "CG", "CD", "OE1"),
        "GLU": ("CB", "CG", "CD", "OE1"), "MET": ("CB", "CG", "SD", "CE")},
    4: {"ARG": ("CG", "CD", "NE", "CZ"), "LYS": ("CG", "CD", "CE", "NZ")},
    5: {"ARG": ("CD", "NE", "CZ", "NH1")},
}
_ELEM = {"C": "carbon", "N": "nitrogen", "O": "oxygen", "S": "sulfur", "H": "hydrogen"}


def build_peptide(chains, drop=(), reverse_atoms=False, hydrogens=False):
    """chains: list of lists of residue names ("TYPE", "TYPE:NAME-IN-TOPOLOGY", either with "@resSeq").  drop: set of (global residue index,
    atom name) left out.
    Returns (topology, layout) where layout = list per chain of list per residue of (resname, {atom name: index}).
    The layout is recorded while building, i.e. independent of mdtraj's own lookups."""
    import mdtraj as md
    top = md.Topology()
    layout = []
    idx = 0
    ridx = 0
    for names in chains:
        ch = top.add_chain()
        lay = []
        for k, rn in enumerate(names):
            # "HIS:HID": built with the atoms of HIS (recorded as HIS in the layout), named HID in the topology
            # "HIS@52" / "HIS:HID@52": residue number (resSeq) 52 instead of the default ridx + 1
            rn, rs = rn.split("@") if "@" in rn else (rn, None)
            rn, topname = rn.split(":") if ":" in rn else (rn, rn)
            res = top.add_residue(topname, ch, resSeq=(ridx + 1 if rs is None else int(rs)))
            if SIDECHAIN[rn] is None:
                atoms = ["O", "H1", "H2"]
            else:
                atoms = BACKBONE + SIDECHAIN[rn]
                if hydrogens:
                    atoms = atoms[:1] + ["H"] + atoms[1:2] + ["HA"] + atoms[2:]
                if k == len(names) - 1:
                    atoms = atoms + ["OXT"]
            if reverse_atoms:
                atoms = atoms[::-1]
            d = {}
            for an in atoms:
                if (ridx, an) in drop:
                    continue
                top.add_atom(an, getattr(md.element, _ELEM[an[0]]), res)
                d[an] = idx
                idx += 1
            lay.append((rn, d))
            ridx += 1
        layout.append(lay)
    return top, layout


def expected_torsions(layout):
    """Quartets of the documented torsions, looked up by atom NAME in the build layout.
    phi(i) = C(i-1)-N(i)-CA(i)-C(i); psi(i) = N(i)-CA(i)-C(i)-N(i+1); omega(i) = CA(i)-C(i)-N(i+1)-CA(i+1)
    with i-1 / i+1 the neighbouring residue in the same chain; chi by the residue-type table CHI.
    Rows in residue order."""
    out = {k: [] for k in ("phi", "psi", "omega", "chi1", "chi2", "chi3", "chi4", "chi5")}

    def get(specs):
        q = []
        for d, an in specs:
            if d is None or an not in d:
                return None
            q.append(d[an])
        return q

    for lay in layout:
        for i, (rn, d) in enumerate(lay):
            prev = lay[i - 1][1] if i > 0 else None
            nxt = lay[i + 1][1] if i + 1 < len(lay) else None
            for key, specs in (("phi", [(prev, "C"), (d, "N"), (d, "CA"), (d, "C")]),
                               ("psi", [(d, "N"), (d, "CA"), (d, "C"), (nxt, "N")]),
                               ("omega", [(d, "CA"), (d, "C"), (nxt, "N"), (nxt, "CA")])):
                q = get(specs)
                if q is not None:
                    out[key].append(q)
            for k in range(1, 6):
                names = CHI[k].get(rn)
                if names:
                    q = get([(d, an) for an in names])
                    if q is not None:
                        out["chi%d" % k].append(q)
    return {k: np.array(v, dtype=int).reshape(-1, 4) for k, v in out.items()}


def all_ordered(n, k):
    """All ordered k-tuples of distinct indices < n, shape (n!/(n-k)!, k), int32."""
    return np.array(list(itertools.permutations(range(n), k)), dtype=np.int32)
