"""topo_model: a boring reference model of an mdtraj Topology (C04).

A model is a plain dict
    {"atoms": [(name, element symbol, serial, resName, resSeq, segment_id, res_pos, chain_pos, chain_id), ...],
     "bonds": [(i, j, type name | None, order | None), ...]}            # i < j are positions in "atoms"
res_pos / chain_pos are the positions of the atom's residue / chain in the topology; the atom index is the
list position.  Residues and chains without atoms do not exist in the model (a transformation never has to
produce one: subset drops them, the other transformations are fed none).

The module has four parts:
  1. model versions of the transformations (identity, subset, join) — pure list manipulation;
  2. the per-carrier capability table (what a data frame / an HDF5 topology record / a PDB file can hold),
     with the source of every entry, and `carrier_image(model, carrier)` = what a perfect carrier of that
     kind returns, with ANY in every field the carrier has no place for;
  3. `observe(top)`: everything observable of a real Topology (walks chains -> residues -> atoms, reads
     every attribute, every bond with the identity of its atoms), and `to_model(obs)`;
  4. `compare(expected, got)`: field-by-field differences, each with a coarse class for signatures.
Nothing in here calls the code under test except `observe`/`build`, which only read attributes / use the
four constructors add_chain/add_residue/add_atom/add_bond.
"""
import math

ANY = "<ANY>"          # the carrier cannot hold this field: not compared, observed value adopted

NAME, ELEM, SERIAL, RESNAME, RESSEQ, SEG, RPOS, CPOS, CID = range(9)
FIELD_NAMES = ["name", "element", "serial", "resName", "resSeq", "segment_id", "residue", "chain", "chain_id"]
BOND_TYPES = ("Single", "Double", "Triple", "Aromatic", "Amide")


# ------------------------------------------------------------------------------------------------
# 1. model transformations
# ------------------------------------------------------------------------------------------------
def m_copy(m):
    return {"atoms": list(m["atoms"]), "bonds": list(m["bonds"])}


def n_res(m):
    return len({a[RPOS] for a in m["atoms"]})


def n_chains(m):
    return len({a[CPOS] for a in m["atoms"]})


def residues_of(m):
    """[(res_pos, chain_pos, resName, resSeq, segment_id, [atom positions])] in topology order."""
    out = []
    for i, a in enumerate(m["atoms"]):
        if not out or out[-1][0] != a[RPOS]:
            out.append((a[RPOS], a[CPOS], a[RESNAME], a[RESSEQ], a[SEG], []))
        out[-1][5].append(i)
    return out


def m_subset(m, keep):
    """Keep the atoms at the (strictly increasing) positions `keep`; residues and chains that lose all their
    atoms disappear; indices are renumbered densely in order; a bond survives iff both ends do."""
    keep = list(keep)
    assert all(b > a for a, b in zip(keep, keep[1:])) and keep, keep
    new_index = {old: new for new, old in enumerate(keep)}
    rmap, cmap, atoms = {}, {}, []
    for old in keep:
        a = m["atoms"][old]
        r = rmap.setdefault(a[RPOS], len(rmap))
        c = cmap.setdefault(a[CPOS], len(cmap))
        atoms.append(a[:RPOS] + (r, c, a[CID]))
    bonds = [(new_index[i], new_index[j], t, o) for (i, j, t, o) in m["bonds"] if i in new_index and j in new_index]
    return {"atoms": atoms, "bonds": bonds}


def m_join(a, b, keep_resSeq=True):
    """a followed by b: b's chains/residues/atoms are appended after a's, b's bonds follow its atoms.
    keep_resSeq=False (docstring of Topology.join): b's residue numbers continue from the last resSeq of a."""
    na, nr, nc = len(a["atoms"]), n_res(a), n_chains(a)
    atoms = list(a["atoms"])
    renum = {}
    if not keep_resSeq:
        last = a["atoms"][-1][RESSEQ]
        for r in residues_of(b):
            last += 1
            renum[r[0]] = last
    for x in b["atoms"]:
        rs = x[RESSEQ] if keep_resSeq else renum[x[RPOS]]
        atoms.append((x[NAME], x[ELEM], x[SERIAL], x[RESNAME], rs, x[SEG], x[RPOS] + nr, x[CPOS] + nc, x[CID]))
    bonds = list(a["bonds"]) + [(i + na, j + na, t, o) for (i, j, t, o) in b["bonds"]]
    return {"atoms": atoms, "bonds": bonds}


def perturbed(m):
    """Same atoms/elements/names/structure/bonds, other values in every field Topology.__eq__ does not read
    (resSeq, segment id, serial).  Uniform shifts, so the residue-adjacency pattern is unchanged."""
    atoms = []
    for a in m["atoms"]:
        ser = a[SERIAL] + 1 if _is_int(a[SERIAL]) else a[SERIAL]
        atoms.append((a[NAME], a[ELEM], ser, a[RESNAME], a[RESSEQ] + 100, ("V" + str(a[SEG]))[:4], a[RPOS], a[CPOS],
                      a[CID]))
    return {"atoms": atoms, "bonds": list(m["bonds"])}


# ------------------------------------------------------------------------------------------------
# 2. carriers
# ------------------------------------------------------------------------------------------------
# What each carrier has a place for.  Sources:
#  df   Topology.to_dataframe docstring / column list (topology.py:469-520): columns serial, name, element,
#       resSeq, resName, chainID ("index of the chain" — an integer, not the identifier), segmentID; bonds
#       n x 4: two indices, type (as a float code, one code per type) and order.  No column delimits
#       residues: two neighbouring residues of one chain with the same (resSeq, resName) cannot be told apart.
#  h5   docs/hdf5_format.rst "Topology/Format": chain {index, residues}; residue {name, index, resSeq,
#       atoms}; atom {name, element, index}; bonds = list of index pairs.  No field for serial, chain
#       identifier, bond type or order.  segmentID is not in the spec; mdtraj's writer adds it as an
#       extension (hdf5.py topology setter) and its reader reads it back, so it is compared.
#  pdb  ATOM record columns (pdbstructure.py Atom docstring): serial 7-11 (5 digits), name 13-16, resName
#       18-20, chain id 22 (one character; an absent id cannot be written), resSeq 23-26 (4 columns:
#       -999..9999), segment id 73-76, element 77-78; CONECT: pairs of serials, no type, no order, hence
#       needs distinct serials; TER delimits chains; residues are delimited only by a change of
#       resSeq/iCode/resName; atoms of one residue are told apart by name (a repeated name is an alternate
#       location).
#       Standard residues (the 20 amino acids, the nucleotides, HOH — PDB_STANDARD below, the PDB convention
#       "CONECT is for HET groups and disulfides"): their internal bonds and the peptide link to the previous
#       residue of the chain are IMPLIED by the residue templates (PDB chemical component dictionary; copied
#       for GLY/CYS/HOH into STD_TEMPLATES) and are not written.  Consequences, all carrier limitations:
#         - the absence of an implied bond between two present atoms cannot be expressed (a reader re-creates
#           it), so a topology lacking one is not representable and the event is not issued;
#         - a bond between two standard residues that is not implied and is not a CYS SG - CYS SG disulfide has
#           no record: not judged (neither its loss nor its survival);
#         - atom/residue names of standard residues are normalised by a reader (H1 -> H, O1 -> O, CYX -> CYS):
#           only whitelisted canonical atom names (STD_ATOMS) are representable unchanged.
#       Every bond with at least one end in a non-standard residue (ligand, ion, glycan) and every disulfide
#       travels in CONECT records (any number of partners: a CONECT line holds four, further lines continue)
#       and must survive.
CAPABILITY = {
    "df": {"name": True, "element": True, "serial": True, "resName": True, "resSeq": True, "segment_id": True,
           "chain_id": False, "bond_type": True, "bond_order": True, "residue_boundaries": "by (resSeq,resName) change"},
    "h5": {"name": True, "element": True, "serial": False, "resName": True, "resSeq": True, "segment_id": True,
           "chain_id": False, "bond_type": False, "bond_order": False, "residue_boundaries": "explicit"},
    "pdb": {"name": "<=4 chars", "element": "<=2 chars", "serial": "distinct ints 0..99999", "resName": "<=3 chars, plain",
            "resSeq": "-999..9999", "segment_id": "<=4 chars", "chain_id": "1 char", "bond_type": False,
            "bond_order": False, "residue_boundaries": "by (resSeq,resName) change",
            "bonds": "non-standard residue at either end, or CYS SG-SG: CONECT, must survive; implied by a standard "
                     "residue template / peptide link: must be present before and after; other standard-standard "
                     "bonds: no record, not judged"},
}


PDB_STANDARD = frozenset(["ALA", "ASN", "CYS", "GLU", "HIS", "LEU", "MET", "PRO", "THR", "TYR", "ARG", "ASP", "GLN", "GLY",
                          "ILE", "LYS", "PHE", "SER", "TRP", "VAL", "A", "G", "C", "U", "I", "DA", "DG", "DC", "DT", "DI",
                          "HOH"])
# template bonds (chemical component dictionary; "-C" = atom C of the previous residue of the chain)
STD_TEMPLATES = {
    "GLY": [("-C", "N"), ("C", "CA"), ("C", "O"), ("C", "OXT"), ("CA", "HA2"), ("CA", "HA3"), ("CA", "N"), ("H", "N"),
            ("H2", "N"), ("H3", "N"), ("HXT", "OXT")],
    "CYS": [("-C", "N"), ("C", "CA"), ("C", "O"), ("C", "OXT"), ("CA", "CB"), ("CA", "HA"), ("CA", "N"), ("CB", "HB2"),
            ("CB", "HB3"), ("CB", "SG"), ("H", "N"), ("H2", "N"), ("H3", "N"), ("HG", "SG"), ("HXT", "OXT")],
    "HOH": [("H1", "O"), ("H2", "O")],
}
# canonical atom names a reader leaves alone
STD_ATOMS = {"GLY": frozenset(["N", "CA", "C", "O"]), "CYS": frozenset(["N", "CA", "C", "O", "CB", "SG"]),
             "HOH": frozenset(["O", "H1", "H2"])}


def pdb_implied_bonds(m):
    """Bonds the PDB convention implies between atoms that are present: template bonds inside standard residues
    and the -C/N link to the previous residue of the same chain."""
    implied = set()
    res = residues_of(m)
    for k, r in enumerate(res):
        tpl = STD_TEMPLATES.get(r[2])
        if tpl is None:
            continue
        here = {m["atoms"][i][NAME]: i for i in r[5]}
        prev = {}
        if k > 0 and res[k - 1][1] == r[1]:
            prev = {m["atoms"][i][NAME]: i for i in res[k - 1][5]}
        for f, t in tpl:
            i = prev.get(f[1:]) if f.startswith("-") else here.get(f)
            j = prev.get(t[1:]) if t.startswith("-") else here.get(t)
            if i is not None and j is not None:
                implied.add((min(i, j), max(i, j)))
    return implied


def _is_int(x):
    return isinstance(x, int) and not isinstance(x, bool) or type(x).__name__ in ("int64", "int32")


def _adjacent_same_residue(m, key=lambda r: (r[3], r[2])):
    rs = residues_of(m)
    return any(r1[1] == r2[1] and key(r1) == key(r2) for r1, r2 in zip(rs, rs[1:]))


def carrier_image(m, carrier, plain_resnames=()):
    """-> (expected model with ANY where the carrier has no place, None) or (None, reason it is not representable)."""
    if carrier in ("copy", "deepcopy", "pickle"):
        return m_copy(m), None
    atoms, bonds = [], []
    if carrier == "h5":
        for a in m["atoms"]:
            atoms.append((a[NAME], a[ELEM], ANY, a[RESNAME], a[RESSEQ], a[SEG], a[RPOS], a[CPOS], ANY))
        bonds = [(i, j, ANY, ANY) for (i, j, t, o) in m["bonds"]]
        return {"atoms": atoms, "bonds": bonds}, None
    if carrier == "df":
        if _adjacent_same_residue(m):
            return None, "neighbouring residues with equal (resSeq, resName): a data frame cannot delimit them"
        for a in m["atoms"]:
            atoms.append(a[:CID] + (ANY,))
        return {"atoms": atoms, "bonds": list(m["bonds"])}, None
    if carrier == "pdb":
        for a in m["atoms"]:
            if not (isinstance(a[NAME], str) and 1 <= len(a[NAME]) <= 4 and a[NAME].strip() == a[NAME] and " " not in a[NAME]):
                return None, "atom name does not fit columns 13-16"
            if not (isinstance(a[RESNAME], str) and 1 <= len(a[RESNAME]) <= 3):
                return None, "residue name does not fit columns 18-20"
            if a[RESNAME] in STD_ATOMS:
                if a[NAME] not in STD_ATOMS[a[RESNAME]]:
                    return None, "atom name in a standard residue that a reader may normalise"
            elif a[RESNAME] not in plain_resnames or a[RESNAME] in PDB_STANDARD:
                return None, "residue name is neither a plain name nor a modelled standard residue"
            if not (_is_int(a[RESSEQ]) and -999 <= a[RESSEQ] <= 9999):
                return None, "resSeq does not fit columns 23-26"
            if len(a[ELEM]) > 2:
                return None, "element symbol does not fit columns 77-78"
        if _adjacent_same_residue(m):
            return None, "neighbouring residues with equal (resSeq, resName): a PDB file cannot delimit them"
        for r in residues_of(m):
            names = [m["atoms"][i][NAME] for i in r[5]]
            if len(set(names)) != len(names):
                return None, "repeated atom name inside one residue (read as alternate location)"
        ser = [a[SERIAL] for a in m["atoms"]]
        holdable = [s for s in ser if _is_int(s) and 0 <= s <= 99999]
        distinct = len(set(holdable)) == len(holdable)
        for a in m["atoms"]:
            s = a[SERIAL] if (distinct and _is_int(a[SERIAL]) and 0 <= a[SERIAL] <= 99999) else ANY
            cid = a[CID] if (isinstance(a[CID], str) and len(a[CID]) == 1 and a[CID].strip()) else ANY
            seg = a[SEG] if (isinstance(a[SEG], str) and len(a[SEG]) <= 4 and a[SEG].strip() == a[SEG]) else ANY
            atoms.append((a[NAME], a[ELEM], s, a[RESNAME], a[RESSEQ], seg, a[RPOS], a[CPOS], cid))
        implied = pdb_implied_bonds(m)
        have = {(i, j) for (i, j, _t, _o) in m["bonds"]}
        if not implied <= have:
            return None, "the topology lacks a bond that the PDB convention implies between present atoms"
        seen = set()
        optional = set()
        for (i, j, t, o) in m["bonds"]:
            if (i, j) not in seen:              # CONECT is a graph: a doubled bond cannot be held twice
                seen.add((i, j))
                bonds.append((i, j, ANY, ANY))
                ai, aj = m["atoms"][i], m["atoms"][j]
                if ai[RESNAME] in PDB_STANDARD and aj[RESNAME] in PDB_STANDARD and (i, j) not in implied and not (
                        ai[RESNAME] == aj[RESNAME] == "CYS" and ai[NAME] == aj[NAME] == "SG"):
                    optional.add((i, j))        # no record for it: neither loss nor survival is judged
        return {"atoms": atoms, "bonds": bonds, "optional": optional}, None
    raise ValueError(carrier)


# ------------------------------------------------------------------------------------------------
# 3. observation of a real Topology
# ------------------------------------------------------------------------------------------------
def _sym(e):
    return None if e is None else e.symbol


def _tname(t):
    return None if t is None else repr(t)


def _is_nan(x):
    return isinstance(x, float) and math.isnan(x) or (type(x).__name__.startswith("float") and x != x)


def observe(top):
    """Everything observable.  Returns dict with
    chains   [(index attr, chain_id, n residues)]
    residues [(index attr, name, resSeq, segment_id, chain position, n atoms)]
    atoms    [(index attr, name, element symbol, serial, residue position)]
    bonds    [(pos1, pos2, type, order, own1, own2, a1.index, a1.name, a2.index, a2.name)]   (list order)
    struct   [text]: every way in which indices are not 0..n-1 in order / accessors disagree with the walk
    hidden   private counters, back-pointer faults, scalar types (part of the state key only, never judged)
    """
    chains, residues, atoms, struct = [], [], [], []
    walk_a, walk_r, walk_c = [], [], []
    own = {}
    backptr = 0
    types = set()
    for ci, ch in enumerate(top.chains):
        walk_c.append(ch)
        nres = 0
        if ch.topology is not top:
            backptr += 1
        for res in ch.residues:
            ri = len(walk_r)
            walk_r.append(res)
            nres += 1
            nat = 0
            if res.chain is not ch:
                backptr += 1
            for at in res.atoms:
                own[id(at)] = len(walk_a)
                walk_a.append(at)
                nat += 1
                if at.residue is not res:
                    backptr += 1
                atoms.append((at.index, at.name, _sym(at.element), at.serial, ri))
                types.update((("a.index", type(at.index).__name__), ("a.serial", type(at.serial).__name__),
                              ("a.name", type(at.name).__name__)))
            residues.append((res.index, res.name, res.resSeq, res.segment_id, ci, nat))
            types.update((("r.resSeq", type(res.resSeq).__name__), ("r.index", type(res.index).__name__),
                          ("r.name", type(res.name).__name__), ("r.seg", type(res.segment_id).__name__)))
        chains.append((ch.index, ch.chain_id, nres))
    for i, c in enumerate(chains):
        if c[0] != i:
            struct.append("chain at position %d has index %r" % (i, c[0]))
    for i, r in enumerate(residues):
        if r[0] != i:
            struct.append("residue at position %d has index %r" % (i, r[0]))
    for i, a in enumerate(atoms):
        if a[0] != i:
            struct.append("atom at position %d has index %r" % (i, a[0]))
    for what, n_attr, n_walk, acc, walk in (("atom", top.n_atoms, len(walk_a), top.atom, walk_a),
                                            ("residue", top.n_residues, len(walk_r), top.residue, walk_r),
                                            ("chain", top.n_chains, len(walk_c), top.chain, walk_c)):
        if n_attr != n_walk:
            struct.append("n_%ss == %r but the chains->residues->atoms walk finds %d" % (what, n_attr, n_walk))
        else:
            for i in range(n_walk):
                if acc(i) is not walk[i]:
                    struct.append("topology.%s(%d) is not the %s at position %d of the walk" % (what, i, what, i))
                    break
    bonds = []
    for b in top.bonds:
        a1, a2 = b[0], b[1]
        o1, o2 = id(a1) in own, id(a2) in own
        bonds.append((own[id(a1)] if o1 else a1.index, own[id(a2)] if o2 else a2.index, _tname(b.type), b.order,
                      o1, o2, a1.index, a1.name, a2.index, a2.name))
        types.add(("b.order", type(b.order).__name__))
    hidden = (top._numAtoms, top._numResidues, len(top._atoms), len(top._residues), backptr, tuple(sorted(types)))
    return {"chains": chains, "residues": residues, "atoms": atoms, "bonds": bonds, "struct": struct, "hidden": hidden}


def _n(x):
    return x if x == x else "nan"


def snapshot(top):
    """(chains, residues, atoms, bonds) — every attribute reachable from the topology, bonds read through the
    bond's own atom references (so a bond that holds another topology's atom shows that atom's current
    index/name/residue).  Plain tuples, nan-safe; used for 'is this topology unchanged'."""
    chains, residues, atoms = [], [], []
    for ch in top.chains:
        chains.append((ch.index, ch.chain_id, len(ch._residues)))
        for res in ch.residues:
            residues.append((res.index, res.name, _n(res.resSeq), res.segment_id, len(res._atoms)))
            for at in res.atoms:
                atoms.append((at.index, at.name, at.element, _n(at.serial)))
    bonds = [(b[0].index, b[0].name, b[0].element, b[0].residue.index, b[1].index, b[1].name, b[1].element,
              b[1].residue.index, b.type, b.order) for b in top.bonds]
    return (tuple(chains), tuple(residues), tuple(atoms), tuple(bonds), (top.n_atoms, top.n_residues, top.n_chains))


SNAP_PARTS = ("chains", "residues", "atoms", "bonds", "counts")


def _canon(x):
    """nan-safe, type-insensitive canonical form (5 and 5.0 and numpy 5 are the same value)."""
    if isinstance(x, (list, tuple)):
        return tuple(_canon(v) for v in x)
    if _is_nan(x):
        return "nan"
    if isinstance(x, bool) or x is None or isinstance(x, str):
        return x if not isinstance(x, str) else str(x)
    try:
        f = float(x)
        return int(f) if f == int(f) else f
    except (TypeError, ValueError):
        return repr(x)


def to_model(obs):
    atoms = []
    for (idx, name, el, serial, ri) in obs["atoms"]:
        r = obs["residues"][ri]
        atoms.append((name, el, serial, r[1], r[2], r[3], ri, r[4], obs["chains"][r[4]][1]))
    bonds = []
    for b in obs["bonds"]:
        i, j = b[0], b[1]
        if i > j:
            i, j = j, i
        bonds.append((i, j, b[2], b[3]))
    return {"atoms": atoms, "bonds": bonds}


def build(m, md):
    """A real Topology from a model, through the four constructors only."""
    from mdtraj.core import element as elem
    from mdtraj.core import topology as T
    tmap = {None: None, "Single": T.Single, "Double": T.Double, "Triple": T.Triple, "Aromatic": T.Aromatic,
            "Amide": T.Amide}
    top = md.Topology()
    ch = res = None
    cpos = rpos = None
    made = []
    for a in m["atoms"]:
        if a[CPOS] != cpos:
            cpos = a[CPOS]
            ch = top.add_chain(a[CID])
            rpos = None
        if a[RPOS] != rpos:
            rpos = a[RPOS]
            res = top.add_residue(a[RESNAME], ch, a[RESSEQ], a[SEG])
        el = elem.virtual if a[ELEM] == "VS" else elem.get_by_symbol(a[ELEM])
        made.append(top.add_atom(a[NAME], el, res, serial=a[SERIAL]))
    for (i, j, t, o) in m["bonds"]:
        top.add_bond(made[i], made[j], type=tmap[t], order=o)
    return top


# ------------------------------------------------------------------------------------------------
# 4. comparison
# ------------------------------------------------------------------------------------------------
def same(a, b):
    if a is ANY or b is ANY:
        return True
    if _is_nan(a) or _is_nan(b):
        return _is_nan(a) and _is_nan(b)
    if a is None or b is None:
        return a is None and b is None
    try:
        return bool(a == b)
    except Exception:
        return False


def vclass(v, fine=True):
    if v is None:
        return "None"
    if _is_nan(v):
        return "nan"
    if _is_int(v):
        if not fine:
            return "int"
        return "0" if v == 0 else ("neg" if v < 0 else "int")
    if isinstance(v, str):
        return "str" if v else "empty"
    return type(v).__name__


def compare(exp, got):
    """-> list of (field, class, detail).  Structure first: if atom/residue/chain counts differ nothing else is compared."""
    out = []
    ea, ga = exp["atoms"], got["atoms"]
    if len(ea) != len(ga):
        return [("atoms", "count", "expected %d atoms, got %d" % (len(ea), len(ga)))]
    if [a[RPOS] for a in ea] != [a[RPOS] for a in ga]:
        out.append(("residues", "grouping", "atoms are grouped into residues as %s, expected %s" % (
            [a[RPOS] for a in ga], [a[RPOS] for a in ea])))
    if [a[CPOS] for a in ea] != [a[CPOS] for a in ga]:
        out.append(("chains", "grouping", "atoms are grouped into chains as %s, expected %s" % (
            [a[CPOS] for a in ga], [a[CPOS] for a in ea])))
    if out:
        return out
    for f in (NAME, ELEM, SERIAL, RESNAME, RESSEQ, SEG, CID):
        bad = [(i, e[f], g[f]) for i, (e, g) in enumerate(zip(ea, ga)) if not same(e[f], g[f])]
        if bad:
            classes = sorted({"%s->%s" % (vclass(e, f == RESSEQ), vclass(g, f == RESSEQ)) for _i, e, g in bad})
            out.append((FIELD_NAMES[f], "+".join(classes),
                        "%s of atom %d: expected %r, got %r (%d atoms differ)" % (FIELD_NAMES[f], bad[0][0], bad[0][1],
                                                                                bad[0][2], len(bad))))
    opt = exp.get("optional", ())
    if opt:
        exp = {"atoms": ea, "bonds": [b for b in exp["bonds"] if (b[0], b[1]) not in opt]}
        got = {"atoms": ga, "bonds": [b for b in got["bonds"] if (b[0], b[1]) not in opt]}
    eb = sorted((i, j) for (i, j, _t, _o) in exp["bonds"])
    gb = sorted((i, j) for (i, j, _t, _o) in got["bonds"])
    if eb != gb:
        missing = sorted(set(eb) - set(gb))
        extra = sorted(set(gb) - set(eb))
        cls = "+".join(c for c, x in (("missing", missing), ("extra", extra)) if x) or "multiplicity"
        out.append(("bonds", cls, "bond graph differs: missing %s, extra %s (expected %s, got %s)" % (missing, extra, eb, gb)))
    elif len(set(eb)) == len(eb):
        et = {(i, j): (t, o) for (i, j, t, o) in exp["bonds"]}
        for (i, j, t, o) in got["bonds"]:
            if not same(et[(i, j)][0], t):
                out.append(("bond_type", "%s->%s" % (et[(i, j)][0], t), "bond (%d,%d): expected type %r, got %r" % (
                    i, j, et[(i, j)][0], t)))
                break
        for (i, j, t, o) in got["bonds"]:
            if not same(et[(i, j)][1], o):
                out.append(("bond_order", "%s->%s" % (vclass(et[(i, j)][1]), vclass(o)),
                            "bond (%d,%d): expected order %r, got %r" % (i, j, et[(i, j)][1], o)))
                break
    else:
        if sorted(map(_canon, exp["bonds"]), key=repr) != sorted(map(_canon, got["bonds"]), key=repr) and not any(
                ANY in b for b in exp["bonds"]):
            out.append(("bonds", "typed-multiset", "bond multiset differs"))
    return out
