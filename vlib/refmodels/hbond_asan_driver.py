"""Subprocess driver for the C14 kernel seam (vlib/kern/hbseam.cpp).

usage: python hbond_asan_driver.py <lib.so> <case.json>
Runs kabsch_sander() of geometry.cpp on exactly-sized heap copies of the inputs and prints one line
`RESULT <json>`.  With the AddressSanitizer flavour of the library (LD_PRELOAD=libasan.so,
ASAN_OPTIONS=detect_leaks=0) any read outside the arrays aborts the process with an ASan report.
"""
import ctypes
import json
import sys

import numpy as np


def main():
    lib = ctypes.CDLL(sys.argv[1])
    case = json.load(open(sys.argv[2]))
    xyz = np.ascontiguousarray(np.array(case["xyz"], np.float32))          # (F, n, 3)
    nco = np.ascontiguousarray(np.array(case["nco"], np.int32))            # (R, 3)
    ca = np.ascontiguousarray(np.array(case["ca"], np.int32))
    pro = np.ascontiguousarray(np.array(case["pro"], np.int32))
    F, n, _ = xyz.shape
    R = len(ca)
    hb = np.zeros((F, R, 2), np.int32)
    he = np.zeros((F, R, 2), np.float32)
    p = lambda a: a.ctypes.data_as(ctypes.c_void_p)
    lib.seam_kabsch_sander(p(xyz), p(nco), p(ca), p(pro), ctypes.c_int(F), ctypes.c_int(n), ctypes.c_int(R), p(hb), p(he))
    print("RESULT " + json.dumps({"hbonds": hb.tolist(), "energies": [[[None if x != x else float(x) for x in r] for r in f] for f in he]}))


if __name__ == "__main__":
    main()
