"""float64 brute-force minimum-image oracle (shared by C05, C07, C09, C10, C11, C14).

d*(r1, r2, cell) = min over integer n in [-R, R]^3 of |r2 - r1 + n·cell|.
"""
import itertools

import numpy as np


def image_shifts(R=4):
    return np.array(list(itertools.product(range(-R, R + 1), repeat=3)), dtype=np.float64)


_SH = {}


def min_image(disp, vectors, R=4):
    """disp: (..., 3) float64 plain differences r2 - r1; vectors: (3,3) rows a,b,c.

    Returns (dmin (...,), best displacement (...,3), n (...,3) integer shifts achieving it).
    The search is centred on the fractional rounding of disp so that points many cells apart are handled
    with the same R."""
    disp = np.asarray(disp, dtype=np.float64)
    v = np.asarray(vectors, dtype=np.float64)
    if R not in _SH:
        _SH[R] = image_shifts(R)
    sh = _SH[R]
    frac = disp @ np.linalg.inv(v)
    base = -np.round(frac)                                  # centre
    cand = (base[..., None, :] + sh)                        # (..., K, 3)
    d = disp[..., None, :] + cand @ v                       # (..., K, 3)
    n2 = np.einsum("...k,...k->...", d, d)
    idx = np.argmin(n2, axis=-1)
    best = np.take_along_axis(d, idx[..., None, None], axis=-2)[..., 0, :]
    nbest = np.take_along_axis(cand, idx[..., None, None], axis=-2)[..., 0, :]
    return np.sqrt(np.take_along_axis(n2, idx[..., None], axis=-1)[..., 0]), best, nbest


def lattice_coeffs(delta, vectors):
    """Solve delta = n·vectors; returns n (float) — integers iff delta is a lattice vector."""
    return np.asarray(delta, np.float64) @ np.linalg.inv(np.asarray(vectors, np.float64))


def mic_distance_matrix(xyz, vectors, R=3):
    """All-pairs minimum-image distances of one frame, float64. xyz (n,3)."""
    x = np.asarray(xyz, np.float64)
    disp = x[None, :, :] - x[:, None, :]
    d, _b, _n = min_image(disp, vectors, R)
    return d
