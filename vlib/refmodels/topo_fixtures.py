"""topo_fixtures: the hand-built initial topologies of C04, as reference-model data (see topo_model).

One fixture per shortcut an implementation may take; each has at most 6 atoms so that *every* non-empty
strictly increasing atom subset (2^n - 1) is an event ("protein", 22 atoms, uses the subset menu).  Most
fixtures use plain residue names, for which a PDB reader neither renames atoms nor adds template bonds, so
every bond must travel through CONECT records; "stdlig", "waterion" and "protein" mix standard residues
(CYS, GLY, HOH) with a ligand and an ion (see the PDB part of the capability table in topo_model).
"""

# atom: (name, element, serial, resName, resSeq, segment_id, res_pos, chain_pos, chain_id)


def _mk(residues, bonds):
    """residues: [(chain_pos, chain_id, resName, resSeq, seg, [(name, element, serial), ...])]"""
    atoms = []
    for rpos, (cpos, cid, rn, rs, seg, ats) in enumerate(residues):
        for (n, e, s) in ats:
            atoms.append((n, e, s, rn, rs, seg, rpos, cpos, cid))
    return {"atoms": atoms, "bonds": [tuple(b) for b in bonds]}


FIXTURES = {
    # explicit chain ids 'A' and 'X' plus a chain with the default id (None); a deuterium next to a hydrogen (same atomic
    # number, different element); serials left at the default
    # (None) as in any hand-built topology; one bond across chains
    "chains": _mk(
        [(0, "A", "LIG", 1, "", [("C1", "C", None), ("O1", "O", None)]),
         (1, "X", "MOL", 2, "", [("N1", "N", None)]),
         (2, None, "XXX", 3, "", [("H1", "H", None), ("H2", "D", None)])],
        [(0, 1, None, None), (1, 2, None, None), (3, 4, None, None)]),
    # repeated residue numbers, 0 (twice, never at residue index 0) and a negative one; bonds across residues,
    # added in an order that is not sorted by atom index
    "resseq": _mk(
        [(0, None, "AAA", 5, "SG", [("C0", "C", 1)]),
         (0, None, "BBB", 0, "SG", [("C1", "C", 2)]),
         (0, None, "CCC", -2, "SG", [("C2", "C", 3)]),
         (0, None, "BBB", 5, "SG", [("C3", "C", 4)]),
         (0, None, "DDD", 0, "SG", [("C4", "C", 5), ("O9", "O", 6)])],
        [(1, 2, None, None), (0, 1, None, None), (2, 3, None, None), (3, 4, None, None), (4, 5, "Double", 2)]),
    # serials 5, 7, 100000 (the last one does not fit a PDB serial column) and 8; typed and ordered bonds
    "serials": _mk(
        [(0, "B", "RNG", 10, "", [("C1", "C", 5), ("C2", "C", 7), ("C3", "C", 100000)]),
         (0, "B", "TAI", 11, "", [("O1", "O", 8)])],
        [(0, 1, "Single", 1), (1, 2, "Double", 2), (0, 2, "Aromatic", None), (2, 3, None, None)]),
    # a virtual site whose NAME looks like an element symbol (a reader that has to guess would call it oxygen); every bond type; orders present and absent; bonds added in unsorted order; contiguous
    # serials from 1 in a single chain (the one case in which PDB serial numbering and position coincide)
    "virtual": _mk(
        [(0, "V", "VSR", 1, "", [("OM", "VS", 1), ("C1", "C", 2), ("C2", "C", 3), ("C3", "C", 4)]),
         (0, "V", "AMD", 2, "", [("N1", "N", 5)])],
        [(2, 3, "Double", 2), (1, 2, "Single", 1), (1, 3, "Aromatic", None), (0, 1, None, None), (3, 4, "Amide", None),
         (0, 4, "Triple", 3)]),
    # two chains carrying the SAME chain id, different segment ids, a one-atom residue (empties under
    # subsetting), a bond across the chains, distinct non-contiguous serials
    "segments": _mk(
        [(0, "A", "RA", 1, "SEGA", [("C1", "C", 11), ("C2", "C", 12)]),
         (0, "A", "RB", 2, "SEGA", [("N1", "N", 13)]),
         (1, "A", "RC", 1, "SEGB", [("O1", "O", 21), ("O2", "O", 22)])],
        [(0, 1, None, None), (1, 2, None, None), (2, 3, None, None), (3, 4, "Single", 1)]),
    # three neighbouring residues that agree in name AND number (like waters after the residue counter wraps):
    # only carriers with explicit residue boundaries can hold them; a data frame or a PDB file cannot, so those
    # two events are not issued from states that still contain such neighbours (counted, not judged)
    "sameres": _mk(
        [(0, "S", "WWW", 7, "W", [("O", "O", 1)]),
         (0, "S", "WWW", 7, "W", [("O", "O", 2)]),
         (0, "S", "WWW", 7, "W", [("O", "O", 3)])],
        [(0, 1, None, None)]),
    # standard residues mixed with a ligand: trimmed CYS (template bonds CA-CB, CB-SG present) FOLLOWED IN THE SAME
    # CHAIN by a ligand whose atom names (O1, O2) are alternative spellings in the reader's protein name table (a
    # reader must leave them alone: LIG is not a known residue); CYS SG - ligand (standard - non-standard), a bond
    # inside the ligand, and a sodium ion coordinated by it; 6 atoms, so every subset is an event
    "stdlig": _mk(
        [(0, "A", "CYS", 1, "", [("CA", "C", 1), ("CB", "C", 2), ("SG", "S", 3)]),
         (0, "A", "LIG", 2, "", [("O1", "O", 4), ("O2", "O", 5)]),
         (1, "B", "NA", 3, "", [("NA", "Na", 7)])],
        [(0, 1, None, None), (1, 2, None, None), (2, 3, None, None), (3, 4, None, None), (4, 5, None, None)]),
    # water - ion: HOH (template bonds O-H1, O-H2) whose oxygen is bonded to a sodium ion; the water is followed in the
    # same chain by a ligand whose atom names (OW, HW1) are alternative spellings in the reader's water name table
    "waterion": _mk(
        [(0, None, "HOH", 1, "", [("O", "O", 1), ("H1", "H", 2), ("H2", "H", 3)]),
         (0, None, "LW", 2, "", [("OW", "O", 4), ("HW1", "H", 5)]),
         (0, None, "NA", 3, "", [("NA", "Na", 6)])],
        [(0, 1, None, None), (0, 2, None, None), (0, 5, None, None), (3, 4, None, None), (3, 5, None, None)]),
    # GLY-CYS-CYS peptide (all template and peptide bonds present), a disulfide between the two CYS, a ligand
    # bonded to the first CYS sulfur, a water and an ion bonded to its oxygen, and one bond between standard
    # residues that no PDB record can hold (GLY O - HOH H1, think hydrogen bond: not judged through .pdb)
    "protein": _mk(
        [(0, "A", "GLY", 1, "P", [("N", "N", 1), ("CA", "C", 2), ("C", "C", 3), ("O", "O", 4)]),
         (0, "A", "CYS", 2, "P", [("N", "N", 5), ("CA", "C", 6), ("C", "C", 7), ("O", "O", 8), ("CB", "C", 9),
                                  ("SG", "S", 10)]),
         (0, "A", "CYS", 3, "P", [("N", "N", 11), ("CA", "C", 12), ("CB", "C", 13), ("SG", "S", 14)]),
         # the ligand follows the last amino acid in the same chain; O1, H1, HN, 1HB are alternative spellings of
         # O, H, H, HB1 in the reader's amino-acid name tables and must come back unchanged for a ligand
         (0, "A", "LIG", 4, "P", [("O1", "O", 15), ("H1", "H", 16), ("HN", "H", 17), ("1HB", "H", 18)]),
         (1, "W", "HOH", 1, "W", [("O", "O", 20), ("H1", "H", 21), ("H2", "H", 22)]),
         (1, "W", "NA", 2, "W", [("NA", "Na", 23)])],
        [(0, 1, None, None), (1, 2, None, None), (2, 3, "Double", 2),                       # GLY
         (2, 4, "Amide", 1),                                                                # peptide GLY C - CYS N
         (4, 5, None, None), (5, 6, None, None), (6, 7, None, None), (5, 8, None, None), (8, 9, None, None),  # CYS 2
         (6, 10, None, None),                                                               # peptide CYS C - CYS N
         (10, 11, None, None), (11, 12, None, None), (12, 13, None, None),                  # CYS 3
         (9, 13, "Single", 1),                                                              # disulfide
         (9, 14, None, None), (14, 15, None, None), (14, 16, None, None), (14, 17, None, None),   # SG - LIG O1, inside LIG
         (18, 19, None, None), (18, 20, None, None), (18, 21, None, None),                  # HOH, O - NA
         (3, 19, None, None)]),                                                             # GLY O - HOH H1
    # two atoms with five bonded partners each whose mutual bond is the fourth partner of both: needs a second
    # CONECT line per atom
    "hub": _mk(
        [(0, "H", "HUB", 1, "", [("A", "C", 1), ("B", "C", 2), ("X1", "C", 3), ("X2", "C", 4), ("X3", "C", 5),
                                 ("X4", "C", 6)])],
        [(0, 2, None, None), (0, 3, None, None), (0, 4, None, None), (1, 2, None, None), (1, 3, None, None),
         (1, 4, None, None), (0, 1, None, None), (0, 5, None, None), (1, 5, None, None)]),
    # ions: two chains whose boundary residues agree in name AND number (NA 1 | NA 1: a carrier that detects residue
    # boundaries by "name or number changed" must also look at the chain), and, inside one chain, two consecutive residues
    # with the SAME number but different names, all carrying a segment id
    "ionchains": _mk(
        [(0, "A", "NA", 1, "IONS", [("NA", "Na", 1)]),
         (1, "B", "NA", 1, "IONS", [("NA", "Na", 2)]),
         (2, "C", "IOA", 7, "IONS", [("X1", "C", 3)]),
         (2, "C", "IOB", 7, "IONS", [("X2", "O", 4), ("X3", "O", 5)])],
        [(3, 4, None, None)]),
}

# the fixed partner of join(): default serials, a residue numbered 0, a virtual site, a Triple bond
PARTNER = _mk([(0, "Z", "JJJ", 0, "SJ", [("X1", "C", None), ("X2", "VS", None)])], [(0, 1, "Triple", 3)])

# residue names for which a PDB file is a faithful carrier (no renaming, no template bonds on reading)
PLAIN_RESNAMES = frozenset(["LIG", "MOL", "XXX", "AAA", "BBB", "CCC", "DDD", "RNG", "TAI", "VSR", "AMD", "RA", "RB", "RC",
                            "JJJ", "WWW", "NA", "HUB", "LW", "IOA", "IOB"])

ORDER = ["chains", "resseq", "serials", "virtual", "segments", "sameres", "stdlig", "waterion", "protein", "hub", "ionchains"]


def subset_menu(n):
    """Events for topologies with more than 6 atoms: a fixed menu of strictly increasing subsets."""
    h = n // 2
    menu = [list(range(n)), [0], [n - 1], list(range(0, n, 2)), list(range(1, n, 2)), list(range(h)), list(range(h, n)),
            list(range(1, n)), list(range(n - 1)), [0, n - 1], list(range(1, n - 1)), [i for i in range(n) if i % 3 != 1]]
    out = []
    for s in menu:
        if s and s not in out:
            out.append(s)
    return out


def all_subsets(n):
    """Every non-empty strictly increasing subset of range(n), smallest first."""
    import itertools
    out = []
    for k in range(1, n + 1):
        out.extend(list(c) for c in itertools.combinations(range(n), k))
    return out
