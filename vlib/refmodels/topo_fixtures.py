"""topo_fixtures: the hand-built initial topologies of C04, as reference-model data (see topo_model).

One fixture per shortcut an implementation may take; each has at most 6 atoms so that *every* non-empty
strictly increasing atom subset (2^n - 1) is an event.  Residue names are deliberately not standard
residues: the PDB reader then neither renames atoms nor adds template bonds, so every bond must travel
through CONECT records.
"""

# atom: (name, element, serial, resName, resSeq, segment_id, res_pos, chain_pos, chain_id)


def _mk(residues, bonds):
    """residues: [(chain_pos, chain_id, resName, resSeq, seg, [(name, element, serial), ...])]"""
    atoms = []
    for rpos, (cpos, cid, rn, rs, seg, ats) in enumerate(residues):
        for (n, e, s) in ats:
            atoms.append((n, e, s, rn, rs, seg, rpos, cpos, cid))
    return {"atoms": atoms, "bonds": [tuple(b) for b in bonds]}


FIXTURES = {
    # explicit chain ids 'A' and 'X' plus a chain with the default id (None); serials left at the default
    # (None) as in any hand-built topology; one bond across chains
    "chains": _mk(
        [(0, "A", "LIG", 1, "", [("C1", "C", None), ("O1", "O", None)]),
         (1, "X", "MOL", 2, "", [("N1", "N", None)]),
         (2, None, "XXX", 3, "", [("H1", "H", None), ("H2", "H", None)])],
        [(0, 1, None, None), (1, 2, None, None), (3, 4, None, None)]),
    # repeated residue numbers, 0 (twice, never at residue index 0) and a negative one; bonds across residues,
    # added in an order that is not sorted by atom index
    "resseq": _mk(
        [(0, None, "AAA", 5, "SG", [("C0", "C", 1)]),
         (0, None, "BBB", 0, "SG", [("C1", "C", 2)]),
         (0, None, "CCC", -2, "SG", [("C2", "C", 3)]),
         (0, None, "BBB", 5, "SG", [("C3", "C", 4)]),
         (0, None, "DDD", 0, "SG", [("C4", "C", 5), ("O9", "O", 6)])],
        [(1, 2, None, None), (0, 1, None, None), (2, 3, None, None), (3, 4, None, None), (4, 5, "Double", 2)]),
    # serials 5, 7, 100000 (the last one does not fit a PDB serial column) and 8; typed and ordered bonds
    "serials": _mk(
        [(0, "B", "RNG", 10, "", [("C1", "C", 5), ("C2", "C", 7), ("C3", "C", 100000)]),
         (0, "B", "TAI", 11, "", [("O1", "O", 8)])],
        [(0, 1, "Single", 1), (1, 2, "Double", 2), (0, 2, "Aromatic", None), (2, 3, None, None)]),
    # a virtual site; every bond type; orders present and absent; bonds added in unsorted order; contiguous
    # serials from 1 in a single chain (the one case in which PDB serial numbering and position coincide)
    "virtual": _mk(
        [(0, "V", "VSR", 1, "", [("M", "VS", 1), ("C1", "C", 2), ("C2", "C", 3), ("C3", "C", 4)]),
         (0, "V", "AMD", 2, "", [("N1", "N", 5)])],
        [(2, 3, "Double", 2), (1, 2, "Single", 1), (1, 3, "Aromatic", None), (0, 1, None, None), (3, 4, "Amide", None),
         (0, 4, "Triple", 3)]),
    # two chains carrying the SAME chain id, different segment ids, a one-atom residue (empties under
    # subsetting), a bond across the chains, distinct non-contiguous serials
    "segments": _mk(
        [(0, "A", "RA", 1, "SEGA", [("C1", "C", 11), ("C2", "C", 12)]),
         (0, "A", "RB", 2, "SEGA", [("N1", "N", 13)]),
         (1, "A", "RC", 1, "SEGB", [("O1", "O", 21), ("O2", "O", 22)])],
        [(0, 1, None, None), (1, 2, None, None), (2, 3, None, None), (3, 4, "Single", 1)]),
    # three neighbouring residues that agree in name AND number (like waters after the residue counter wraps):
    # only carriers with explicit residue boundaries can hold them; a data frame or a PDB file cannot, so those
    # two events are not issued from states that still contain such neighbours (counted, not judged)
    "sameres": _mk(
        [(0, "S", "WWW", 7, "W", [("O", "O", 1)]),
         (0, "S", "WWW", 7, "W", [("O", "O", 2)]),
         (0, "S", "WWW", 7, "W", [("O", "O", 3)])],
        [(0, 1, None, None)]),
}

# the fixed partner of join(): default serials, a residue numbered 0, a virtual site, a Triple bond
PARTNER = _mk([(0, "Z", "JJJ", 0, "SJ", [("X1", "C", None), ("X2", "VS", None)])], [(0, 1, "Triple", 3)])

# residue names for which a PDB file is a faithful carrier (no renaming, no template bonds on reading)
PLAIN_RESNAMES = frozenset(["LIG", "MOL", "XXX", "AAA", "BBB", "CCC", "DDD", "RNG", "TAI", "VSR", "AMD", "RA", "RB", "RC",
                            "JJJ", "WWW"])

ORDER = ["chains", "resseq", "serials", "virtual", "segments", "sameres"]


def subset_menu(n):
    """Events for topologies with more than 6 atoms: a fixed menu of strictly increasing subsets."""
    h = n // 2
    menu = [list(range(n)), [0], [n - 1], list(range(0, n, 2)), list(range(1, n, 2)), list(range(h)), list(range(h, n)),
            list(range(1, n)), list(range(n - 1)), [0, n - 1], list(range(1, n - 1)), [i for i in range(n) if i % 3 != 1]]
    out = []
    for s in menu:
        if s and s not in out:
            out.append(s)
    return out


def all_subsets(n):
    """Every non-empty strictly increasing subset of range(n), smallest first."""
    import itertools
    out = []
    for k in range(1, n + 1):
        out.extend(list(c) for c in itertools.combinations(range(n), k))
    return out
