"""hbond_ref: float64 reference evaluation of the documented hydrogen-bond criteria (C14).

No mdtraj import.  A topology is described by plain data:
    atoms : list of (name, element_symbol, resname, resindex, chainindex)
    bonds : list of (i, j)
Coordinates are the float32 coordinates mdtraj sees, cast to float64.

Documented criteria (docstrings of mdtraj/geometry/hbond.py):
  baker_hubbard : theta(D-H...A) > angle_cutoff [deg] and r(H...A) < distance_cutoff [nm] in a fraction of
                  frames greater than freq; donors N-H, O-H (bonded); acceptors N, O.
  wernet_nilsson: r(D...A) < 0.33 nm - 0.000044 nm/deg^2 * delta(H-D...A)^2   (3.3 A - 0.00044 delta^2), per frame.
  kabsch_sander : E = 0.42*0.2*33.2 * (1/r_ON + 1/r_CH - 1/r_OH - 1/r_CN) kcal/mol (nm), bond iff E < -0.5;
                  amide H placed 0.1 nm from N along the direction O->C of the preceding residue (Kabsch &
                  Sander 1983, the reference the docstring cites); two best per donor.
"""
import numpy as np

from vlib.refmodels import mic

EPS32 = float(np.finfo(np.float32).eps)
MARGIN = 1e-5

WATER_NAMES = frozenset(["H2O", "HHO", "OHH", "HOH", "OH2", "SOL", "WAT", "TIP", "TIP2", "TIP3", "TIP4"])
PROTEIN_NAMES = frozenset("ALA ARG ASN ASP CYS GLN GLU GLY HIS ILE LEU LYS MET PHE PRO SER THR TRP TYR VAL".split())
# atoms of a protein residue that are NOT side chain according to Atom.is_sidechain's documentation
BACKBONE_NAMES = frozenset(["N", "CA", "C", "O", "H", "HA"])


def is_sidechain(atom, oxt_is_backbone=False):
    name, _el, resname = atom[0], atom[1], atom[2]
    if resname not in PROTEIN_NAMES:
        return False
    if oxt_is_backbone and name == "OXT":
        return False
    return name not in BACKBONE_NAMES


def hbond_triplets(atoms, bonds, exclude_water=True, sidechain_only=False, oxt_is_backbone=False):
    """All candidate (D, H, A): D-H bonded with D in {N, O}, H hydrogen; A any N or O atom other than D;
    every atom passing the requested filters."""
    def ok(i):
        a = atoms[i]
        if exclude_water and a[2] in WATER_NAMES:
            return False
        if sidechain_only and not is_sidechain(a, oxt_is_backbone):
            return False
        return True

    donors = []
    for i, j in bonds:
        for d, h in ((i, j), (j, i)):
            if atoms[d][1] in ("N", "O") and atoms[h][1] == "H" and ok(d) and ok(h):
                donors.append((d, h))
    acc = [i for i, a in enumerate(atoms) if a[1] in ("N", "O") and ok(i)]
    return [(d, h, a) for (d, h) in donors for a in acc if a != d]


def _disp(xyz, i, j, cell, R=2):
    """Displacement x_j - x_i per frame, minimum image if cell (3x3 rows a,b,c) is given. xyz (F,n,3)."""
    d = xyz[:, j, :] - xyz[:, i, :]
    if cell is None:
        return d
    _dm, best, _n = mic.min_image(d, cell, R=R)
    return best


def mic_search_radius(cell):
    """Smallest R in {1, 2} for which the brute-force image search already agrees with R = 3 on a dense
    low-discrepancy design of displacements spanning +-2 cells (decides once per cell how far to search)."""
    from vlib import grids
    fr = (grids.jitter(4000, 3, 4.0, 0)) @ np.asarray(cell, np.float64)
    ref = mic.min_image(fr, cell, R=3)[0]
    for R in (1, 2):
        if np.array_equal(mic.min_image(fr, cell, R=R)[0], ref):
            return R
    return 3


def _angle(u, v):
    nu = np.linalg.norm(u, axis=-1)
    nv = np.linalg.norm(v, axis=-1)
    with np.errstate(invalid="ignore", divide="ignore"):
        c = np.einsum("...k,...k->...", u, v) / (nu * nv)
    return np.arccos(np.clip(c, -1, 1))


def hbond_geometry(xyz, trip, cell=None, R=2):
    """xyz (F,n,3) float64; trip (T,3) int.  Returns dict of (F,T) arrays: d_HA, theta (rad, angle at H),
    r_DA, delta (rad, angle at D between H and A), and min_side (smallest triangle side, for error models)."""
    trip = np.asarray(trip, int).reshape(-1, 3)
    D, H, A = trip[:, 0], trip[:, 1], trip[:, 2]
    hd = _disp(xyz, H, D, cell, R)
    ha = _disp(xyz, H, A, cell, R)
    dh = -hd
    da = _disp(xyz, D, A, cell, R)
    out = dict(d_HA=np.linalg.norm(ha, axis=-1), theta=_angle(hd, ha), r_DA=np.linalg.norm(da, axis=-1),
               delta=_angle(dh, da), d_DH=np.linalg.norm(hd, axis=-1))
    return out


def err_model(xyz, cell=None):
    """float32 error of one computed distance: <= 8 eps32 * X, X = largest coordinate / cell length magnitude."""
    X = float(np.abs(xyz).max())
    if cell is not None:
        X = max(X, float(np.abs(cell).sum(axis=0).max()))
    return 8 * EPS32 * max(X, 0.1)


def baker_hubbard_ref(geo, freq, distance_cutoff, angle_cutoff_deg, err_d):
    """Returns (present (T,) bool, ambiguous (T,) bool, n_ambiguous_frames).  A frame of a triplet is ambiguous when
    the float64 value is within the margin (1e-5 + float32 error model) of a threshold and the other criterion does not
    already decide; a triplet is ambiguous when its ambiguous frames can change mean(presence) > freq."""
    ac = np.radians(angle_cutoff_deg)
    d, th = geo["d_HA"], geo["theta"]
    md_ = MARGIN + err_d
    side = np.minimum(geo["d_DH"], geo["d_HA"])
    with np.errstate(divide="ignore", invalid="ignore"):
        mth = MARGIN + 6 * err_d / (np.maximum(side, 1e-6) * np.maximum(np.sin(th), 0.05))
    yes_d, no_d = d < distance_cutoff - md_, d > distance_cutoff + md_
    yes_t, no_t = th > ac + mth, th < ac - mth
    yes = yes_d & yes_t
    no = no_d | no_t
    amb = ~(yes | no)
    F = d.shape[0]
    kmin = yes.sum(axis=0)
    kmax = kmin + amb.sum(axis=0)
    pres_lo = kmin / F > freq
    pres_hi = kmax / F > freq
    return pres_lo, pres_lo != pres_hi, int(amb.sum())


def wernet_nilsson_ref(geo, err_d):
    """Per frame: present (F,T), ambiguous (F,T)."""
    r = geo["r_DA"]
    deg = np.degrees(geo["delta"])
    cut = 0.33 - 0.000044 * deg ** 2
    side = np.minimum(geo["d_DH"], geo["r_DA"])
    with np.errstate(divide="ignore", invalid="ignore"):
        mdel = MARGIN + 6 * err_d / (np.maximum(side, 1e-6) * np.maximum(np.sin(geo["delta"]), 0.05))
    m = MARGIN + err_d + 2 * 0.000044 * deg * np.degrees(mdel)
    f = r - cut
    return f < -m, np.abs(f) <= m


# ----------------------------------------------------------------------------------------------------
# Kabsch-Sander

KS_COUPLING = 0.42 * 0.2 * 33.2     # = 2.7888 kcal nm / mol
KS_CUTOFF = -0.5
KS_CA_PREFILTER = 0.9


def ks_reference(xyz, res):
    """xyz (n,3) float64 one frame; res: list of dicts(N, CA, C, O atom indices or -1, name, chain).

    Returns dict with
      H        (n_res,3) documented hydrogen position (nan where undefined: first residue of a chain, previous
               residue without C or O, residue itself incomplete)
      E        (n_res, n_res) E[acceptor i, donor j] (nan where undefined)
      tolE     same shape: float32 error model of E
      ca       (n_res,n_res) CA-CA distance
    """
    nr = len(res)
    full = np.array([all(r[k] >= 0 for k in ("N", "CA", "C", "O")) for r in res])
    H = np.full((nr, 3), np.nan)
    for j in range(1, nr):
        # the preceding residue only has to have its carbonyl (atoms named C and O), e.g. an acetyl cap or a residue
        # with unresolved N / CA still defines the direction
        if full[j] and res[j - 1]["C"] >= 0 and res[j - 1]["O"] >= 0 and res[j]["chain"] == res[j - 1]["chain"]:
            co = xyz[res[j - 1]["C"]] - xyz[res[j - 1]["O"]]
            H[j] = xyz[res[j]["N"]] + 0.1 * co / np.linalg.norm(co)
    E = np.full((nr, nr), np.nan)
    tol = np.full((nr, nr), np.nan)
    ca = np.full((nr, nr), np.nan)
    X = float(np.abs(xyz).max())
    # float32 error model: differences of two input coordinates are exact to a relative eps32 (the inputs are float32
    # numbers of similar magnitude), so r_ON and r_CN carry only relative error; the constructed H = N + 0.1*unit(C-O) is
    # rounded at the magnitude of the coordinates: |dH| <= 2 eps32 X, which enters r_CH and r_OH absolutely.
    ed_h = 2 * EPS32 * max(X, 0.1)
    for i in range(nr):
        for j in range(nr):
            if i == j or not (full[i] and full[j]):
                continue
            ca[i, j] = np.linalg.norm(xyz[res[i]["CA"]] - xyz[res[j]["CA"]])
            if np.isnan(H[j, 0]):
                continue
            n, h = xyz[res[j]["N"]], H[j]
            c, o = xyz[res[i]["C"]], xyz[res[i]["O"]]
            r_on, r_ch = np.linalg.norm(o - n), np.linalg.norm(c - h)
            r_oh, r_cn = np.linalg.norm(o - h), np.linalg.norm(c - n)
            E[i, j] = KS_COUPLING * (1 / r_on + 1 / r_ch - 1 / r_oh - 1 / r_cn)
            terms = KS_COUPLING * np.array([1 / r_on, 1 / r_ch, 1 / r_oh, 1 / r_cn])
            # d(c/r) = c/r^2 dr for the two H distances; 8 eps32 relative on every term (sub, dot, rsqrt, mul, sum)
            tol[i, j] = KS_COUPLING * (1 / r_ch ** 2 + 1 / r_oh ** 2) * ed_h + 8 * EPS32 * terms.sum()
    return dict(H=H, E=E, tolE=tol, ca=ca, full=full)
