"""History layer of C12: selections on ONE Topology object that is edited between selections.

A hidden cache behind a derived attribute (n_bonds, index, resid, residue membership, is_water ...)
that is filled by an earlier select() and not invalidated by an edit shows up as a selection that
differs from the reference run on the atom table of the edited topology, and from the same
selection on a from-scratch copy of the edited topology.

Space: every edit sequence of length 1 and 2 over EDITS (all ordered pairs, inapplicable ones are
counted and skipped) x every expression of EXPRS, evaluated before the first edit (fills caches),
after every edit on the same object, and on the from-scratch copy of the final state.
Edits address atoms by (residue position, atom name) so that a sequence stays meaningful after
indices have shifted.  The first nine edits keep the traversal order equal to the .index order; the
last three (ORDER_BREAKING) do not: there the result is compared as a set with the reference on the
.index attribute and as a list with eval(select_expression); the documentation does not say in
which order select() lists the atoms of such a topology, so increasing order is only recorded.
"""
from . import selection_ref as R

EDITS = [
    ("insert_front",),                 # virtual site M0 as new atom 0 of residue 0
    ("insert_mid_water",),             # virtual site M between O and the hydrogens of the first water
    ("delete", 6, "H1"),               # bonded water hydrogen (its bond stays in top.bonds)
    ("delete", 0, "CB"),               # bonded side-chain atom near the front: shifts almost every index
    ("add_bond", (6, "O"), (7, "O")),
    ("rename_atom", 0, "CA", "CX"),    # CA -> CX: no longer a backbone atom
    ("rename_res", 7, "LIG"),          # second water is no longer water
    ("rename_res", 1, "ALA"),          # GLY -> ALA: other code
    ("append",),                       # new SER residue (N, CA bonded) at the end of the last chain
    # the public API also allows edits after which the chain -> residue -> atom traversal order is
    # no longer the .index order:
    ("add_atom_to", 0, "XA"),          # add_atom to the FIRST residue: the new atom gets the highest index
    ("add_atom_to", 6, "XW"),          # add_atom to a residue in the middle (first water)
    ("insert_outside", 6, 2, "XI"),    # insert_atom(index=2) into the first water, whose block does not contain 2
]
ORDER_BREAKING = {"add_atom_to", "insert_outside"}

EXPRS = [
    "protein", "water", "backbone", "sidechain",
    "name CA", "name H1 H2", "name M M0 CX XA XW XI", "element H", "symbol VS", "type O and mass > 13", "mass < 0.5",
    "index < 33", "index 33 34 35",
    "n_bonds 2 and water", "n_bonds 0", "n_bonds > 2", "water and name O and n_bonds 2",
    "resid 6", "resi 7 to 13", "residue 101", "resSeq 1 6", "resname HOH", "resn ALA LIG SER", "rescode A", "code G S",
    "chainid 2", "segment_id SOLV", "segname SA SC",
]


def _res(top, i):
    rs = [r for ch in top.chains for r in ch.residues]
    return rs[i] if i < len(rs) else None


def _atom(top, ref):
    r = _res(top, ref[0])
    if r is None:
        return None
    for a in r.atoms:
        if a.name == ref[1]:
            return a
    return None


def apply_edit(top, e):
    """Apply one edit through the public Topology API. -> False if it is not applicable."""
    import mdtraj as md
    k = e[0]
    if k == "insert_front":
        top.insert_atom("M0", None, _res(top, 0), index=0, rindex=0)
    elif k == "insert_mid_water":
        r = _res(top, 6)
        ats = list(r.atoms)
        if len(ats) < 2:
            return False
        top.insert_atom("M", None, r, index=ats[1].index, rindex=1)
    elif k == "delete":
        a = _atom(top, (e[1], e[2]))
        if a is None:
            return False
        top.delete_atom_by_index(a.index)
    elif k == "add_bond":
        a, b = _atom(top, e[1]), _atom(top, e[2])
        if a is None or b is None:
            return False
        top.add_bond(a, b)
    elif k == "rename_atom":
        a = _atom(top, (e[1], e[2]))
        if a is None:
            return False
        a.name = e[3]
    elif k == "rename_res":
        r = _res(top, e[1])
        if r.name == e[2]:
            return False
        r.name = e[2]
    elif k == "add_atom_to":
        top.add_atom(e[2], md.element.carbon, _res(top, e[1]))
    elif k == "insert_outside":
        top.insert_atom(e[3], None, _res(top, e[1]), index=e[2])
    elif k == "append":
        last = list(top.chains)[-1]
        r = top.add_residue("SER", last, resSeq=6, segment_id="SC")
        n = top.add_atom("N", md.element.nitrogen, r)
        ca = top.add_atom("CA", md.element.carbon, r)
        top.add_bond(n, ca)
    else:
        raise ValueError(e)
    return True


def histories():
    hs = [(e,) for e in EDITS]
    hs += [(a, b) for a in EDITS for b in EDITS]
    return hs


def tag(expr):
    """keyword class of an expression for signatures"""
    for kw in ("n_bonds", "index", "resid", "residue", "resSeq", "resname", "rescode", "code", "chainid", "segment_id",
               "segname", "mass", "name", "type", "element", "symbol", "backbone", "sidechain", "protein", "water", "all"):
        if kw in expr.split():
            return R.ALIAS[kw]
    return "other"
