"""Independent reference for the mdtraj atom-selection language (property C12).

Nothing in here imports mdtraj.core.selection or pyparsing.  The module contains

* the documented keyword table (docs/atom_selection.rst) written out by hand,
* a hand-written fixture system (residue/atom table with hand-assigned truth values for every
  keyword) and a builder that turns it into an md.Topology,
* a tokenizer + recursive-descent parser with the conventional precedence
  (comparison / range / implicit list  >  not  >  and  >  or ; parentheses override),
* an evaluator over the hand-written atom table,
* structural helpers: hazard classification of an expression (which syntactic neighbourhoods it
  contains) used only to name the *class* of a failing input in violation signatures.
"""
import re

# ------------------------------------------------------------------------------------------------
# documented keyword table:  canonical -> (aliases..., type)
# ------------------------------------------------------------------------------------------------
BOOL_KW = {
    "all": ("all", "everything"),
    "none": ("none", "nothing"),
    "backbone": ("backbone", "is_backbone"),
    "sidechain": ("sidechain", "is_sidechain"),
    "protein": ("protein", "is_protein"),
    "water": ("water", "is_water", "waters"),
}
STR_KW = {
    "name": ("name",),
    "type": ("type", "element", "symbol"),
    "resname": ("resname", "resn"),
    "rescode": ("rescode", "code", "resc"),
    # not in the table of docs/atom_selection.rst, but a keyword of the implementation whose
    # meaning is the residue attribute of the same name (docs/whatsnew.rst: segment_id)
    "segment_id": ("segment_id", "segname"),
}
NUM_KW = {
    "index": ("index",),
    "n_bonds": ("n_bonds",),
    "mass": ("mass",),
    "residue": ("residue", "resSeq"),
    "resid": ("resid", "resi"),
    "chainid": ("chainid",),
}
ALIAS = {}
KW_TYPE = {}
for _tab, _ty in ((BOOL_KW, "bool"), (STR_KW, "str"), (NUM_KW, "num")):
    for _c, _als in _tab.items():
        for _a in _als:
            ALIAS[_a] = _c
            KW_TYPE[_a] = _ty

CMP_OPS = {  # canonical -> (symbolic spelling, word spelling)
    "==": ("==", "eq"), "!=": ("!=", "ne"), "<": ("<", "lt"), "<=": ("<=", "le"),
    ">": (">", "gt"), ">=": (">=", "ge"),
}
CMP_CANON = {sp: c for c, sps in CMP_OPS.items() for sp in sps}
FLIP = {"==": "==", "!=": "!=", "<": ">", "<=": ">=", ">": "<", ">=": "<="}
AND_SP = ("and", "&&")
OR_SP = ("or", "||")
NOT_SP = ("not", "!")
RESERVED = set(AND_SP) | set(OR_SP) | set(NOT_SP) | set(CMP_CANON) | {"to", "=~"}

# ------------------------------------------------------------------------------------------------
# fixture system, written by hand.  role: b = backbone atom of a protein residue,
# s = side-chain atom of a protein residue, - = neither (not protein)
# ------------------------------------------------------------------------------------------------
_BB = [("N", "N", "b"), ("CA", "C", "b"), ("C", "C", "b"), ("O", "O", "b")]
RESIDUES = [
    # chain, segment id, residue name, resSeq, kind, one-letter code, atoms (name, element, role)
    (0, "SA", "ALA", 1, "protein", "A", _BB + [("CB", "C", "s")]),
    (0, "SA", "GLY", 2, "protein", "G", _BB),
    (0, "SA", "SER", 3, "protein", "S", _BB + [("CB", "C", "s"), ("OG", "O", "s")]),
    (1, "SB", "ALA", 1, "protein", "A", _BB + [("CB", "C", "s")]),
    (1, "SB", "CYS", 2, "protein", "C", _BB + [("CB", "C", "s"), ("SG", "S", "s")]),
    (1, "SB", "LYS", 4, "protein", "K", _BB + [("CB", "C", "s"), ("NZ", "N", "s")]),
    (2, "SOLV", "HOH", 101, "water", None, [("O", "O", "-"), ("H1", "H", "-"), ("H2", "H", "-")]),
    (2, "SOLV", "HOH", 102, "water", None, [("O", "O", "-"), ("H1", "H", "-"), ("H2", "H", "-")]),
    (3, "", "NA", 201, "ion", None, [("NA", "Na", "-")]),
    (3, "", "CL", 202, "ion", None, [("CL", "Cl", "-")]),
    (3, "", "CA", 203, "ion", None, [("CA", "Ca", "-")]),
    (3, "", "NA", 201, "ion", None, [("NA", "Na", "-")]),
    # names that are spelled like operator words in upper / mixed case are ordinary literals:
    # a neon atom (residue NE, atom NE, element Ne) and an arginine with its N-epsilon (NE) and CZ
    (3, "", "NE", 204, "ion", None, [("NE", "Ne", "-")]),
    (4, "SC", "ARG", 5, "protein", "R", _BB + [("CB", "C", "s"), ("NE", "N", "s"), ("CZ", "C", "s")]),
    # primed nucleic-acid atom names can only be written as quoted literals that contain the other
    # quote character ("O5'", "H5''"); a ligand carries the unprimed decoys O5, C3, H5
    (5, "SN", "DC", 1, "other", None, [("O5'", "O", "-"), ("C5'", "C", "-"), ("C3'", "C", "-"), ("H5'", "H", "-"),
                                       ("H5''", "H", "-")]),
    (5, "SN", "LIG", 2, "other", None, [("O5", "O", "-"), ("C3", "C", "-"), ("H5", "H", "-")]),
    # values of which a short regular expression matches a proper prefix only: HIS next to HOH, and a
    # lipid-like chain with carbons C1..C4 and C10..C12 (`name =~ 'C[1-4]'`); used by the
    # select == eval(select_expression) clause, see selection_gen.PREFIX_REGEX
    (6, "SD", "HIS", 7, "protein", "H", _BB + [("CB", "C", "s")]),
    (6, "SD", "LIP", 8, "other", None, [(n, "C", "-") for n in ("C1", "C2", "C3", "C4", "C10", "C11", "C12")]),
    # lower-case names that merely START with an operator spelling (le, gt, ne, eq, ge, or, and, not, to)
    # are ordinary bare-word literals
    (7, "sx", "leu", 9, "other", None, [(n, "C", "-") for n in ("ne2", "eq1", "let", "gea")]),
    (7, "sx", "gtp", 10, "other", None, [(n, "C", "-") for n in ("orn", "and1", "nota", "tox", "lta")]),
]
_OTHER_BONDS = {"DC": [("O5'", "C5'"), ("C5'", "H5'"), ("C5'", "H5''"), ("C5'", "C3'")], "LIG": [("C3", "O5"), ("C3", "H5")],
                "leu": [("ne2", "eq1"), ("eq1", "let"), ("let", "gea")],
                "gtp": [("orn", "and1"), ("and1", "nota"), ("nota", "tox"), ("tox", "lta")],
                "LIP": [("C1", "C2"), ("C2", "C3"), ("C3", "C4"), ("C4", "C10"), ("C10", "C11"), ("C11", "C12")]}
# standard atomic weights to 3-4 figures (CRC handbook); thresholds used by the generator stay
# >= 0.4 away from every one of them, so the 4th figure never matters
MASS = {"H": 1.008, "C": 12.011, "N": 14.007, "O": 15.999, "S": 32.06, "Na": 22.990, "Cl": 35.45, "Ca": 40.078,
        "Ne": 20.180, "VS": 0.0}          # VS: mdtraj's virtual site pseudo-element (history layer only)
_SIDE_BONDS = {"ALA": [("CA", "CB")], "GLY": [], "SER": [("CA", "CB"), ("CB", "OG")],
               "CYS": [("CA", "CB"), ("CB", "SG")], "LYS": [("CA", "CB"), ("CB", "NZ")],
               "ARG": [("CA", "CB"), ("CB", "NE"), ("NE", "CZ")], "HIS": [("CA", "CB")]}
# name-based truth for topologies that are not the fixture (history layer): residue name -> code
PROTEIN_CODE = {"ALA": "A", "GLY": "G", "SER": "S", "CYS": "C", "LYS": "K", "ARG": "R", "HIS": "H"}
WATER_NAMES = {"HOH"}
BACKBONE_NAMES = {"N", "CA", "C", "O"}      # no atom of the fixture or of an edit is called H or HA


def atom_table():
    """-> (atoms, bonds): atoms = list of dicts keyed by canonical keyword, bonds = index pairs."""
    atoms, bonds = [], []
    prev_c = {}
    for resid, (chain, seg, resname, resseq, kind, code, ats) in enumerate(RESIDUES):
        first = len(atoms)
        local = {}
        for nm, el, role in ats:
            local[nm] = len(atoms)
            atoms.append({
                "index": len(atoms), "name": nm, "type": el, "mass": MASS[el], "n_bonds": 0,
                "residue": resseq, "resid": resid, "resname": resname, "rescode": code,
                "chainid": chain, "segment_id": seg,
                "all": True, "none": False, "protein": kind == "protein", "water": kind == "water",
                "backbone": role == "b", "sidechain": role == "s",
            })
        if kind == "protein":
            bonds += [(local["N"], local["CA"]), (local["CA"], local["C"]), (local["C"], local["O"])]
            bonds += [(local[a], local[b]) for a, b in _SIDE_BONDS[resname]]
            if chain in prev_c:
                bonds.append((prev_c[chain], local["N"]))
            prev_c[chain] = local["C"]
        elif kind == "water":
            bonds += [(first, first + 1), (first, first + 2)]
        elif resname in _OTHER_BONDS:
            bonds += [(local[a], local[b]) for a, b in _OTHER_BONDS[resname]]
    for a, b in bonds:
        atoms[a]["n_bonds"] += 1
        atoms[b]["n_bonds"] += 1
    return atoms, bonds


def build_topology():
    """The same system as an md.Topology (only md.Topology()/add_* calls)."""
    import mdtraj as md
    top = md.Topology()
    chains = {}
    handles = []
    for chain, seg, resname, resseq, _kind, _code, ats in RESIDUES:
        if chain not in chains:
            chains[chain] = top.add_chain()
        r = top.add_residue(resname, chains[chain], resSeq=resseq, segment_id=seg)
        for nm, el, _role in ats:
            handles.append(top.add_atom(nm, md.element.get_by_symbol(el), r))
    _atoms, bonds = atom_table()
    for a, b in bonds:
        top.add_bond(handles[a], handles[b])
    return top


# ------------------------------------------------------------------------------------------------
# tokenizer
# ------------------------------------------------------------------------------------------------
class RefSyntaxError(Exception):
    """The string is not an expression of the (unambiguous part of the) documented grammar."""


_TOKEN = re.compile(r"""
    \s*(?:
      (?P<lp>\() | (?P<rp>\)) |
      (?P<sq>'[^'\\]*') | (?P<dq>"[^"\\]*") |
      (?P<sym>&&|\|\||=~|==|!=|<=|>=|<|>|!) |
      (?P<num>[0-9]*\.[0-9]+|[0-9]+\.?) |
      (?P<word>[A-Za-z_][A-Za-z0-9_]*)
    )""", re.X)


def tokenize(s):
    toks, pos = [], 0
    n = len(s)
    while True:
        while pos < n and s[pos].isspace():
            pos += 1
        if pos >= n:
            return toks
        m = _TOKEN.match(s, pos)
        if not m or m.end() == pos:
            raise RefSyntaxError("cannot tokenize at %d: %r" % (pos, s[pos:pos + 10]))
        kind = m.lastgroup
        text = m.group(kind)
        if kind == "num" and m.end() < n and (s[m.end()].isalnum() or s[m.end()] in "._"):
            raise RefSyntaxError("malformed number at %d" % pos)
        toks.append((kind, text))
        pos = m.end()


# ------------------------------------------------------------------------------------------------
# parser.  Nodes:
#   ("or"|"and", spelling, left, right)   ("not", spelling, operand)   ("paren", inner)
#   ("bool", kw) ("cmp", kw, opspelling, lit) ("rcmp", lit, opspelling, kw) ("impl", kw, lit)
#   ("list", kw, lits) ("range", kw, lo, hi) ("regex", kw, lit)
# lit = ("num", value, text) | ("str", value, text)
# ------------------------------------------------------------------------------------------------
class _P:
    def __init__(self, toks):
        self.t = toks
        self.i = 0

    def peek(self):
        return self.t[self.i] if self.i < len(self.t) else (None, None)

    def take(self):
        tok = self.peek()
        self.i += 1
        return tok

    def is_op(self, spellings):
        k, x = self.peek()
        return k in ("sym", "word") and x in spellings

    def is_literal(self):
        k, x = self.peek()
        if k in ("sq", "dq", "num"):
            return True
        return k == "word" and x not in RESERVED and x not in ALIAS

    def literal(self):
        k, x = self.take()
        if k == "num":
            return ("num", float(x) if "." in x else int(x), x)
        if k in ("sq", "dq"):
            return ("str", x[1:-1], x)
        if k == "word" and x not in RESERVED and x not in ALIAS:
            return ("str", x, x)
        raise RefSyntaxError("literal expected, got %r" % (x,))

    def or_expr(self):
        left = self.and_expr()
        while self.is_op(OR_SP):
            sp = self.take()[1]
            left = ("or", sp, left, self.and_expr())
        return left

    def and_expr(self):
        left = self.not_expr()
        while self.is_op(AND_SP):
            sp = self.take()[1]
            left = ("and", sp, left, self.not_expr())
        return left

    def not_expr(self):
        if self.is_op(NOT_SP):
            sp = self.take()[1]
            return ("not", sp, self.not_expr())
        return self.primary()

    def primary(self):
        k, x = self.peek()
        if k == "lp":
            self.take()
            inner = self.or_expr()
            if self.take()[0] != "rp":
                raise RefSyntaxError("')' expected")
            return ("paren", inner)
        return self.condition()

    def condition(self):
        k, x = self.peek()
        if k is None:
            raise RefSyntaxError("expression expected, got end of text")
        if k == "word" and x in ALIAS:
            self.take()
            kw = x
            ty = KW_TYPE[kw]
            if self.is_op(CMP_CANON):
                op = self.take()[1]
                if not self.is_literal():
                    raise RefSyntaxError("literal expected after %r" % op)
                return self._typed(("cmp", kw, op, self.literal()))
            if self.is_op(("=~",)):
                self.take()
                if not self.is_literal():
                    raise RefSyntaxError("pattern expected after =~")
                return self._typed(("regex", kw, self.literal()))
            if self.is_literal():
                lits = [self.literal()]
                if self.is_op(("to",)):
                    self.take()
                    if not self.is_literal():
                        raise RefSyntaxError("upper bound expected after 'to'")
                    return self._typed(("range", kw, lits[0], self.literal()))
                while self.is_literal():
                    lits.append(self.literal())
                if self.is_op(("to",)):
                    raise RefSyntaxError("'to' inside a list")
                if len(lits) == 1:
                    return self._typed(("impl", kw, lits[0]))
                return self._typed(("list", kw, tuple(lits)))
            if ty != "bool":
                raise RefSyntaxError("keyword %r of type %s used as a truth value" % (kw, ty))
            return ("bool", kw)
        if self.is_literal():
            lit = self.literal()
            if not self.is_op(CMP_CANON):
                raise RefSyntaxError("a literal is not an expression")
            op = self.take()[1]
            k2, x2 = self.peek()
            if not (k2 == "word" and x2 in ALIAS):
                raise RefSyntaxError("literal compared with a non-keyword")
            self.take()
            return self._typed(("rcmp", lit, op, x2))
        raise RefSyntaxError("unexpected token %r" % (x,))

    @staticmethod
    def _typed(node):
        """Only type-consistent conditions have a documented meaning."""
        kind = node[0]
        kw = node[3] if kind == "rcmp" else node[1]
        ty = KW_TYPE[kw]
        if ty == "bool":
            raise RefSyntaxError("bool keyword %r in a comparison" % kw)
        if kind == "regex":
            lits = [node[2]]
            if ty != "str":
                raise RefSyntaxError("regular expression on non-string keyword")
        elif kind == "rcmp":
            lits = [node[1]]
        elif kind == "list":
            lits = list(node[2])
        elif kind == "range":
            lits = [node[2], node[3]]
            if ty != "num":
                raise RefSyntaxError("range on non-numeric keyword")
        else:
            lits = [node[-1]]
        for lit in lits:
            if lit[0] != ty:
                raise RefSyntaxError("%s keyword %r with %s literal" % (ty, kw, lit[0]))
        if kind in ("cmp", "rcmp") and ty == "str":
            op = node[2]
            if CMP_CANON[op] not in ("==", "!="):
                raise RefSyntaxError("ordering comparison of strings")
        return node


def parse(s):
    p = _P(tokenize(s))
    if not p.t:
        raise RefSyntaxError("empty expression")
    tree = p.or_expr()
    if p.i != len(p.t):
        raise RefSyntaxError("trailing tokens from %r" % (p.peek()[1],))
    return tree


# ------------------------------------------------------------------------------------------------
# evaluator
# ------------------------------------------------------------------------------------------------
def _cmp(a, op, b):
    if a is None:          # attribute without a value (rescode of a non-protein residue)
        return op == "!="
    return {"==": a == b, "!=": a != b, "<": a < b, "<=": a <= b, ">": a > b, ">=": a >= b}[op]


def truth(node, atom):
    k = node[0]
    if k == "or":
        return truth(node[2], atom) or truth(node[3], atom)
    if k == "and":
        return truth(node[2], atom) and truth(node[3], atom)
    if k == "not":
        return not truth(node[2], atom)
    if k == "paren":
        return truth(node[1], atom)
    if k == "bool":
        return atom[ALIAS[node[1]]]
    if k == "cmp":
        return _cmp(atom[ALIAS[node[1]]], CMP_CANON[node[2]], node[3][1])
    if k == "rcmp":
        return _cmp(atom[ALIAS[node[3]]], FLIP[CMP_CANON[node[2]]], node[1][1])
    if k == "impl":
        return _cmp(atom[ALIAS[node[1]]], "==", node[2][1])
    if k == "list":
        v = atom[ALIAS[node[1]]]
        return any(_cmp(v, "==", lit[1]) for lit in node[2])
    if k == "range":
        v = atom[ALIAS[node[1]]]
        return node[2][1] <= v <= node[3][1]
    if k == "regex":
        v = atom[ALIAS[node[1]]]
        return v is not None and re.match(node[2][1], v) is not None
    raise AssertionError(node)


def select(tree, atoms):
    return [a["index"] for a in atoms if truth(tree, a)]


# ------------------------------------------------------------------------------------------------
# hazard classification (names the syntactic neighbourhood; used for signatures only)
# ------------------------------------------------------------------------------------------------
SYM_LOOSE = {"<", "<=", "==", ">", ">="}          # every symbolic comparison except '!='
WORD_CMP = {"eq", "ne", "lt", "le", "gt", "ge"}
HAZARD_ORDER = ["paren-depth>=3", "regex-under-connective", "not-before-infix-comparison",
                "&&-next-to-symbolic-comparison", "and-next-to-word-comparison",
                "regex-on-valueless-attribute", "operator-like-literal", "operator-prefixed-literal",
                "quote-inside-literal", "integer-list-with-repeats", "integer-list"]
_OPWORDS = {"and", "or", "not", "to", "eq", "ne", "lt", "le", "gt", "ge"}


def paren_depth(s):
    d = m = 0
    for c in s:
        if c == "(":
            d += 1
            m = max(m, d)
        elif c == ")":
            d -= 1
    return m


def hazards(tree, s, atoms):
    """Set of hazard names present in the parsed expression."""
    hz = set()
    if paren_depth(s) >= 3:
        hz.add("paren-depth>=3")

    def infix_op(n):
        """operator spelling if n is an unparenthesised infix condition, else None"""
        if n[0] == "cmp":
            return n[2]
        if n[0] == "rcmp":
            return n[2]
        if n[0] == "regex":
            return "=~"
        return None

    def operands(n):
        """direct, unparenthesised condition operands of a connective chain element"""
        if n[0] == "not":
            return operands(n[2])
        return [n]

    def chain(n, kind):
        """flatten a left-nested chain of one connective: -> (operands, spellings between them)"""
        if n[0] == kind:
            ops, sps = chain(n[2], kind)
            return ops + [n[3]], sps + [n[1]]
        return [n], []

    def walk(n):
        k = n[0]
        if k in ("and", "or"):
            ops, sps = chain(n, k)
            for i, side in enumerate(ops):
                neigh = set(sps[max(0, i - 1):i + 1])     # connective spellings textually adjacent
                for o in operands(side):
                    op = infix_op(o)
                    if op is None:
                        continue
                    if op == "=~":
                        hz.add("regex-under-connective")
                    elif k == "and":
                        if "&&" in neigh and op in SYM_LOOSE:
                            hz.add("&&-next-to-symbolic-comparison")
                        if op in WORD_CMP:
                            hz.add("and-next-to-word-comparison")
                walk(side)
        elif k == "not":
            op = infix_op(n[2])
            if op == "=~":
                hz.add("regex-under-connective")
            elif op is not None:
                hz.add("not-before-infix-comparison")
            walk(n[2])
        elif k == "paren":
            walk(n[1])
        elif k == "regex":
            if any(a[ALIAS[n[1]]] is None for a in atoms):
                hz.add("regex-on-valueless-attribute")
        if k in ("cmp", "rcmp", "impl", "list", "regex"):
            for part in n[1:]:
                for lit in (part if isinstance(part, tuple) and part and isinstance(part[0], tuple) else (part,)):
                    if isinstance(lit, tuple) and len(lit) == 3 and lit[0] == "str" and ("'" in lit[1] or '"' in lit[1]):
                        hz.add("quote-inside-literal")
        if k in ("cmp", "rcmp", "impl", "list", "range"):
            for part in n[1:]:
                for lit in (part if isinstance(part, tuple) and part and isinstance(part[0], tuple) else (part,)):
                    if isinstance(lit, tuple) and len(lit) == 3 and lit[0] == "str" and lit[1].lower() in _OPWORDS:
                        hz.add("operator-like-literal")
                    elif isinstance(lit, tuple) and len(lit) == 3 and lit[0] == "str" and \
                            any(lit[1].lower().startswith(w) for w in _OPWORDS):
                        hz.add("operator-prefixed-literal")
            if k == "list" and len(n[2]) >= 4 and all(lit[0] == "num" for lit in n[2]):
                hz.add("integer-list-with-repeats" if len(set(lit[1] for lit in n[2])) < len(n[2]) else "integer-list")

    walk(tree)
    return hz


def first_hazard(hz):
    for h in HAZARD_ORDER:
        if h in hz:
            return h
    return "none"


# ------------------------------------------------------------------------------------------------
# history layer: atom table of an arbitrary (edited) topology, and a from-scratch copy of it
# ------------------------------------------------------------------------------------------------
def table_from_topology(top):
    """Walk chains -> residues -> atoms -> bonds of an md.Topology (trusted input, attribute reads
    only) and derive the truth value of every keyword from names with the hand-written tables.
    `index` is the atom's .index attribute (the documented meaning of the keyword), the table is in
    traversal order.
    -> (live, alt, stale, live_bonds): `live` counts for n_bonds only bonds whose two atoms are both still in
    the topology, `alt` also counts bonds to deleted atoms (the documentation does not say which);
    `stale` lists atoms whose .index attribute differs from their position in the walk."""
    live, objs, stale = [], [], []
    resid = 0
    for ci, ch in enumerate(top.chains):
        for res in ch.residues:
            prot = res.name in PROTEIN_CODE
            for at in res.atoms:
                pos = len(live)
                if at.index != pos:
                    stale.append((pos, at.index, at.name))
                sym = at.element.symbol
                live.append({
                    "index": at.index, "name": at.name, "type": sym, "mass": MASS[sym], "n_bonds": 0,
                    "residue": res.resSeq, "resid": resid, "resname": res.name,
                    "rescode": PROTEIN_CODE.get(res.name), "chainid": ci, "segment_id": res.segment_id,
                    "all": True, "none": False, "protein": prot, "water": res.name in WATER_NAMES,
                    "backbone": prot and at.name in BACKBONE_NAMES,
                    "sidechain": prot and at.name not in BACKBONE_NAMES,
                })
                objs.append(at)
            resid += 1
    pos_of = {id(a): i for i, a in enumerate(objs)}
    alt = [dict(a) for a in live]
    live_bonds = []
    for b in top.bonds:
        i, j = pos_of.get(id(b[0])), pos_of.get(id(b[1]))
        for x in (i, j):
            if x is not None:
                alt[x]["n_bonds"] += 1
        if i is not None and j is not None:
            live[i]["n_bonds"] += 1
            live[j]["n_bonds"] += 1
            live_bonds.append((i, j))
    return live, alt, stale, live_bonds


def build_copy(top):
    """A new md.Topology with the same chains/residues/atoms(.index)/live bonds, built from scratch
    through the public API: residues first, then the atoms in increasing .index order, each put at
    its place inside its residue (for a topology whose traversal order is the index order this is
    plain sequential construction)."""
    import mdtraj as md
    new = md.Topology()
    todo = []          # (atom.index, residue handle, position inside the residue, atom, traversal position)
    pos = 0
    for ch in top.chains:
        c = new.add_chain()
        for res in ch.residues:
            r = new.add_residue(res.name, c, resSeq=res.resSeq, segment_id=res.segment_id)
            for k, at in enumerate(res.atoms):
                todo.append((at.index, r, k, at, pos))
                pos += 1
    handles = {}
    placed = {}        # id(residue handle) -> sorted positions already placed
    for _idx, r, k, at, p in sorted(todo, key=lambda t: t[0]):
        done = placed.setdefault(id(r), [])
        rindex = sum(1 for x in done if x < k)
        done.append(k)
        handles[p] = new.insert_atom(at.name, md.element.get_by_symbol(at.element.symbol), r, rindex=rindex)
    _live, _alt, _stale, live_bonds = table_from_topology(top)
    for i, j in live_bonds:
        new.add_bond(handles[i], handles[j])
    return new
