"""Exhaustive generator of selection-language programs (property C12, engine progx).

Space (all members are produced, in size order, nothing is sampled):

depth 1   every condition of the value tables below in EVERY spelling: every keyword alias x every
          operator spelling (== eq != ne < lt <= le > gt >= ge, implicit equality, =~) x every
          literal style (bare / 'single' / "double"; int / float) + reversed comparisons
          (`10 <= resid`, the form used in the documentation of ranges) + ranges + implicit lists.
          + operator-like literals (NE Ne OR AND NOT TO EQ LT ... in upper / mixed case): every string
          keyword alias x every such word alone, with == != eq ne, reversed, quoted and bare, and as
          first / middle / last element of implicit lists; and the same next to every connective.
          + quoted literals containing the other quote character ("O5'", "H5''", 'H5"', ...): alone,
          == != eq ne in both orders, in implicit lists (any position, with decoys O5 C3 H5), as =~
          patterns; and next to every connective.
depth 2   every tree  leaf | not leaf | leaf conn leaf  over the representative leaves REPS2
          (one per syntactic class and operator spelling) x every connective spelling
          (and && or ||, not !), rendered flat / minimally parenthesised / fully parenthesised /
          with every leaf parenthesised.
depth 3   quick: the three-leaf slice  (a c1 b) c2 c | a c1 (b c2 c)  over the leaves REPS3Q, every
          connective spelling, rendered flat (re-associated by precedence!) / minimal / full.
          thorough: every tree of depth <= 3 over the leaves REPS3, i.e. not (leaf conn leaf) and
          X conn Y with X, Y of depth <= 2 (X, Y may be negated leaves), same renderings; plus the
          three-leaf slice over the five leaves REPS3T.

`not` is only ever applied to a leaf or to a parenthesised expression.
The seed only rotates which alias of each keyword the depth >= 2 leaves are spelled with.
"""
from . import selection_ref as R

STR_VALUES = {
    # canonical keyword: (comparands, lists, regexes)
    "name": (["CA", "O"], [("N", "C", "O"), ("CA", "CB")], ["C.*", "H[12]", ".*G"]),
    "type": (["C", "Na"], [("N", "O")], ["C.?", "[NO]$"]),
    "resname": (["ALA", "CA"], [("ALA", "GLY")], ["[AG]L[AY]", "H.*"]),
    "rescode": (["A", "C"], [("A", "G", "K")], ["[AG]", "S"]),
    "segment_id": (["SA", "SOLV"], [("SA", "SB")], ["S[AB]", "SO.*"]),
}
NUM_VALUES = {
    # canonical keyword: (comparands, implicit-equality values, lists, ranges, reversed comparands)
    "index": (["20", "9.5"], ["10"], [("0", "15", "32")], [("5", "25"), ("9.5", "33")], ["20"]),
    "n_bonds": (["2", "1.5"], ["3"], [("0", "3")], [("1", "2")], ["2"]),
    "mass": (["13", "5.5"], [], [], [("5.5", "21"), ("13", "33.5")], ["21"]),
    "residue": (["3", "101.5"], ["1"], [("1", "101", "203")], [("2", "101")], ["3"]),
    "resid": (["3", "6.5"], ["4"], [("0", "5", "8")], [("1", "3")], ["10"]),
    "chainid": (["1", "0.5"], ["2"], [("0", "3")], [("1", "2")], ["1"]),
}
QUOTES = ("bare", "single", "double")


def q(v, style):
    if style == "bare":
        return v
    return ("'%s'" if style == "single" else '"%s"') % v


def _num(v):
    return float(v) if "." in v else int(v)


def depth1():
    """-> list of (string, abstract_key, klass).  abstract_key identifies the condition
    independently of spelling (implicit equality == '==', reversed comparison == flipped)."""
    out = []
    for c, als in R.BOOL_KW.items():
        for a in als:
            out.append((a, ("bool", c), "bool"))
    for c, (vals, lists, regexes) in STR_VALUES.items():
        for a in R.STR_KW[c]:
            for v in vals:
                for st in QUOTES:
                    for op in ("==", "!="):
                        for sp in R.CMP_OPS[op]:
                            out.append(("%s %s %s" % (a, sp, q(v, st)), ("cmp", c, op, v), "cmp-str"))
                    out.append(("%s %s" % (a, q(v, st)), ("cmp", c, "==", v), "impl-str"))
            for st in ("bare", "single"):
                for op in ("==", "!="):
                    for sp in R.CMP_OPS[op]:
                        out.append(("%s %s %s" % (q(vals[0], st), sp, a), ("cmp", c, op, vals[0]), "rcmp-str"))
            for lst in lists:
                for st in ("bare", "single", "mixed"):
                    items = [q(v, ("double", "bare")[i % 2] if st == "mixed" else st) for i, v in enumerate(lst)]
                    out.append(("%s %s" % (a, " ".join(items)), ("list", c, lst), "list-str"))
            for rx in regexes:
                for st in ("single", "double"):
                    out.append(("%s =~ %s" % (a, q(rx, st)), ("regex", c, rx), "regex"))
    out += oplike_depth1()
    out += opprefix_depth1()
    out += intlist_depth1()
    out += primed_depth1()
    for c, (vals, impl, lists, ranges, rvals) in NUM_VALUES.items():
        for a in R.NUM_KW[c]:
            for v in vals:
                for op, sps in R.CMP_OPS.items():
                    for sp in sps:
                        out.append(("%s %s %s" % (a, sp, v), ("cmp", c, op, _num(v)), "cmp-num"))
            for v in rvals:
                for op, sps in R.CMP_OPS.items():
                    for sp in sps:
                        out.append(("%s %s %s" % (v, sp, a), ("cmp", c, R.FLIP[op], _num(v)), "rcmp-num"))
            for v in impl:
                out.append(("%s %s" % (a, v), ("cmp", c, "==", _num(v)), "impl-num"))
            for lst in lists:
                out.append(("%s %s" % (a, " ".join(lst)), ("list", c, tuple(_num(v) for v in lst)), "list-num"))
            for lo, hi in ranges:
                out.append(("%s %s to %s" % (a, lo, hi), ("range", c, _num(lo), _num(hi)), "range"))
    return out


# ------------------------------------------------------------------------------------------------
# literals spelled like operator words in another letter case.  Bare words are ordinary string
# literals; only the documented lower-case spellings (and or not to eq ne lt le gt ge) are operators.
# NE / Ne really occur in the fixture (arginine N-epsilon, a neon atom); the others select nothing
# by themselves but must not change what the rest of the expression selects.
# ------------------------------------------------------------------------------------------------
OPLIKE_WORDS = ["NE", "Ne", "OR", "AND", "NOT", "TO", "EQ", "LT", "LE", "GT", "GE", "Or"]
OPLIKE_PARTNERS = {   # canonical string keyword -> (partner literal, second partner) that occur in the fixture
    "name": ("CZ", "CA"), "type": ("C", "Na"), "resname": ("ARG", "ALA"), "rescode": ("R", "A"),
    "segment_id": ("SC", "SA"),
}


def oplike_depth1(words=None, partner_table=None):
    """every string keyword alias x every operator-like word: alone / == != (symbolic and word
    spelling) / reversed / quoted and bare / first, middle, last element of an implicit list"""
    out = []
    for c, (p1, p2) in (partner_table or OPLIKE_PARTNERS).items():
        for a in R.STR_KW[c]:
            for w in (words or OPLIKE_WORDS):
                for st in QUOTES:
                    out.append(("%s %s" % (a, q(w, st)), ("cmp", c, "==", w), "oplike-impl"))
                for op in ("==", "!="):
                    for sp in R.CMP_OPS[op]:
                        out.append(("%s %s %s" % (a, sp, w), ("cmp", c, op, w), "oplike-cmp"))
                    out.append(("%s %s %s" % (a, R.CMP_OPS[op][0], q(w, "single")), ("cmp", c, op, w), "oplike-cmp"))
                out.append(("%s == %s" % (w, a), ("cmp", c, "==", w), "oplike-rcmp"))
                for n, lst in enumerate(((w, p1), (p1, w), (p1, w, p2), (w, p1, p2), (p1, p2, w))):
                    out.append(("%s %s" % (a, " ".join(lst)), ("list", c, lst), "oplike-list"))
                    if n < 2:   # quoted operator-like word, bare partner
                        out.append(("%s %s" % (a, " ".join(q(v, "single") if v == w else v for v in lst)),
                                    ("list", c, lst), "oplike-list"))
    return out


def oplike_trees(seed, words=None, partner_table=None):
    """operator-like literals next to real connectives: every tree  X conn P | P conn X | not X  with
    X in {kw W, kw W p, kw p W} (kw in name, resname) and P in {protein, name CZ / resname ARG}"""
    names = {}
    for tab in (R.BOOL_KW, R.STR_KW):
        for c, als in tab.items():
            names[c] = als[seed % len(als)]
    out = []
    for c in ("name", "resname"):
        p1 = (partner_table or OPLIKE_PARTNERS)[c][0]
        partners = leaves([("protein", names["protein"]), ("%s=%s" % (c, p1), "%s %s" % (names[c], p1))])
        xs = []
        for w in (words or OPLIKE_WORDS):
            xs += [("%s=%s" % (c, w), "%s %s" % (names[c], w)),
                   ("%s in %s,%s" % (c, w, p1), "%s %s %s" % (names[c], w, p1)),
                   ("%s in %s,%s" % (c, p1, w), "%s %s %s" % (names[c], p1, w))]
        xs = leaves(xs)
        for sp in R.NOT_SP:
            out += [("not", sp, x) for x in xs]
        out += bins(xs, partners) + bins(partners, xs)
    return out


# ------------------------------------------------------------------------------------------------
# lower-case bare words that merely START with an operator spelling are ordinary literals
# (the fixture has residues leu, gtp and atoms ne2 eq1 let gea orn and1 nota tox lta); the quoted
# forms of the same words are in the same variant group, so bare vs quoted is also compared directly
# ------------------------------------------------------------------------------------------------
OPPREFIX_WORDS = ["leu", "gtp", "ne2", "eq1", "let", "gea", "orn", "and1", "nota", "tox", "lta"]
OPPREFIX_PARTNERS = {"name": ("CZ", "let"), "resname": ("ARG", "gtp"), "segment_id": ("SC", "sx")}


def opprefix_depth1():
    return [(s, k, klass.replace("oplike", "opprefix")) for s, k, klass in oplike_depth1(OPPREFIX_WORDS, OPPREFIX_PARTNERS)]


def opprefix_trees(seed):
    return oplike_trees(seed, ["leu", "ne2", "eq1", "gea", "orn", "and1"], OPPREFIX_PARTNERS)


# ------------------------------------------------------------------------------------------------
# implicit lists of 4..6 integers WITH REPEATS: every multiset of that size over four values per
# keyword, chosen so that for some of them  max - min + 1 == number of items  (2 2 2 6 6) and for
# others not; written in non-decreasing order (5-item lists also in an interleaved order).  A list means "equals
# one of these values" whatever the repeats; on the float-valued keyword mass no integer is a mass.
# ------------------------------------------------------------------------------------------------
INTLIST_VALUES = {"resid": (2, 3, 6, 7), "residue": (1, 2, 5, 6), "index": (10, 11, 14, 15), "mass": (12, 13, 15, 16)}
INTLIST_ALIAS = {"resid": "resid", "residue": "resSeq", "index": "index", "mass": "mass"}
INTLIST_EXTRA = ["mass 12 13 14 15", "mass 12 13 14 15 16", "mass 1 2 3 4", "mass 14 15 16 17 18 19",
                 "index 10 11 12 13", "resid 2 3 4 5 6", "resSeq 1 2 3 4 5 6"]


def _multisets(vals, n):
    if n == 0:
        return [()]
    return [(v,) + rest for i, v in enumerate(vals) for rest in _multisets(vals[i:], n - 1)]


def intlist_depth1():
    out = []
    for c, vals in INTLIST_VALUES.items():
        for a in (INTLIST_ALIAS[c],):
            for n in (4, 5, 6):
                for ms in _multisets(vals, n):
                    key = ("list", c, tuple(sorted(set(ms))))
                    out.append(("%s %s" % (a, " ".join(map(str, ms))), key, "intlist"))
                    mixed = ms[::2] + ms[1::2]
                    if n == 5 and mixed != ms:
                        out.append(("%s %s" % (a, " ".join(map(str, mixed))), key, "intlist"))
    for s in INTLIST_EXTRA:
        w = s.split()
        out.append((s, ("list", R.ALIAS[w[0]], tuple(sorted(set(int(x) for x in w[1:])))), "intlist"))
    return out


def intlist_trees(seed):
    xs = leaves([("resid in 2,6", "resid 2 2 2 6 6"), ("index in 11,14", "index 11 11 14 14"),
                 ("resSeq in 1,5,6", "resSeq 1 1 5 5 6 6"), ("mass in 12,16", "mass 12 12 12 16 16"),
                 ("resid in 3,7", "resi 3 7 7 3 7")])
    partners = leaves([("protein", "protein"), ("name=CA", "name CA"), ("mass>13", "mass > 13")])
    out = []
    for sp in R.NOT_SP:
        out += [("not", sp, x) for x in xs]
    return out + bins(xs, partners) + bins(partners, xs)


# ------------------------------------------------------------------------------------------------
# quoted literals whose text begins or ends with the OTHER quote character: primed nucleic-acid
# atom names ("O5'", "H5''").  The fixture holds O5' C5' C3' H5' H5'' and the decoys O5 C3 H5.
# ------------------------------------------------------------------------------------------------
PRIMED = ["O5'", "C5'", "C3'", "H5'", "H5''", 'H5"', "'H5", '"O5']      # the last three name no atom of the fixture
PRIMED_REGEX = ["O5'", "C[35]'", "H5''", ".*'"]


def qq(v):
    """quote a literal with the delimiter it does not contain"""
    return '"%s"' % v if '"' not in v else "'%s'" % v


def primed_depth1():
    out = []
    c, a = "name", "name"
    for w in PRIMED:
        L = qq(w)
        out.append(("%s %s" % (a, L), ("cmp", c, "==", w), "primed-impl"))
        for op in ("==", "!="):
            for sp in R.CMP_OPS[op]:
                out.append(("%s %s %s" % (a, sp, L), ("cmp", c, op, w), "primed-cmp"))
                out.append(("%s %s %s" % (L, sp, a), ("cmp", c, op, w), "primed-rcmp"))
        for lst in ((w, "O5"), ("O5", w), ("CA", w, "H5"), (w, "C3", "H5"), ("C3", "H5", w)):
            out.append(("%s %s" % (a, " ".join(qq(v) if v == w else v for v in lst)), ("list", c, lst), "primed-list"))
            out.append(("%s %s" % (a, " ".join(qq(v) for v in lst)), ("list", c, lst), "primed-list"))
        for w2 in PRIMED:
            if w2 != w:
                out.append(("%s %s %s" % (a, L, qq(w2)), ("list", c, (w, w2)), "primed-list"))
    for rx in PRIMED_REGEX:
        out.append(("%s =~ %s" % (a, qq(rx)), ("regex", c, rx), "primed-regex"))
    # the other string keywords: values without a decoy, still have to be read verbatim
    for c2 in ("type", "resname", "rescode", "segment_id"):
        for a2 in R.STR_KW[c2]:
            for w in ("C'", "'C"):
                out.append(("%s %s" % (a2, qq(w)), ("cmp", c2, "==", w), "primed-impl"))
                out.append(("%s != %s" % (a2, qq(w)), ("cmp", c2, "!=", w), "primed-cmp"))
    return out


def primed_trees(seed):
    """primed literals next to every connective and under not"""
    names = {}
    for tab in (R.BOOL_KW, R.STR_KW):
        for c, als in tab.items():
            names[c] = als[seed % len(als)]
    partners = leaves([("resname=DC", "%s DC" % names["resname"]), ("name=O5", "name O5"), ("protein", names["protein"])])
    xs = []
    for w in PRIMED[:5]:
        xs += [("name=%s" % w, "name %s" % qq(w)), ("name in %s,H5" % w, "name %s H5" % qq(w)),
               ("name in C3,%s" % w, "name C3 %s" % qq(w)), ("name!=%s" % w, "name != %s" % qq(w))]
    xs = leaves(xs)
    out = []
    for sp in R.NOT_SP:
        out += [("not", sp, x) for x in xs]
    return out + bins(xs, partners) + bins(partners, xs)


# ------------------------------------------------------------------------------------------------
# regular expressions that match a proper PREFIX of some fixture values but not the whole value.
# The documentation does not say whether =~ anchors at the end, so these are NOT compared with the
# reference; they are judged only by the unambiguous clause "the source returned by
# select_expression evaluates to the same index list" (evaluated with the real `re` module, as a
# user would run it) and by the determinism of the emitted source.
# ------------------------------------------------------------------------------------------------
PREFIX_REGEX = {
    "name": ["C", "C[1-4]", "C1", "C.", "H", "N", "O", "O5", "H5", "C3"],
    "type": ["C", "N"],
    "resname": ["H", "A", "A.", "C", "L", "HO", "[AG]"],
    "segment_id": ["S", "SO"],
}


def prefix_regex_depth1():
    """-> list of strings: every alias x pattern x single / double quoted (bare when the pattern is a word)"""
    out = []
    for c, pats in PREFIX_REGEX.items():
        for a in R.STR_KW[c]:
            for rx in pats:
                for st in ("single", "double") + (("bare",) if rx.isalnum() else ()):
                    out.append("%s =~ %s" % (a, q(rx, st)))
    return out


def prefix_regex_trees(seed):
    """the same conditions under not / and / or in every connective spelling"""
    names = {}
    for tab in (R.BOOL_KW, R.STR_KW):
        for c, als in tab.items():
            names[c] = als[seed % len(als)]
    xs = leaves([("%s~%s" % (c, rx), "%s =~ '%s'" % (names[c], rx))
                 for c, rx in (("name", "C"), ("name", "C[1-4]"), ("name", "H5"), ("resname", "H"), ("resname", "A."),
                               ("type", "N"))])
    partners = leaves([("protein", names["protein"]), ("name=CA", "name CA"), ("index<60", "index < 60")])
    out = []
    for sp in R.NOT_SP:
        out += [("not", sp, x) for x in xs]
    return out + bins(xs, partners) + bins(partners, xs) + bins(xs, xs)


# ------------------------------------------------------------------------------------------------
# representative leaves for depth >= 2:  (abstract id, template); {kw} is replaced by an alias
# ------------------------------------------------------------------------------------------------
_REPS2 = [
    ("protein", "{protein}"), ("water", "{water}"),
    ("name=CA", "{name} CA"), ("resname=ALA'", "{resname} 'ALA'"),
    ("name in NCO", "{name} N C O"),
    ("resid 1-3", "{resid} 1 to 3"),
    ("mass>13", "{mass} > 13"), ("index<20", "{index} < 20"), ("residue>=3", "{residue} >= 3"),
    ("chainid<=1", "{chainid} <= 1"), ("resname==ALA", "{resname} == ALA"), ("type!=C", "{type} != C"),
    ("mass>13", "{mass} gt 13"), ("index<20", "{index} lt 20"), ("residue>=3", "{residue} ge 3"),
    ("chainid<=1", "{chainid} le 1"), ("resname==ALA", "{resname} eq ALA"), ("type!=C", "{type} ne C"),
    ("resid>=3", "3 <= {resid}"), ("index<20", "20 gt {index}"),
    ("name~C.*", "{name} =~ 'C.*'"),
]
_REPS3T = [("protein", "{protein}"), ("name=CA", "{name} CA"), ("mass>13", "{mass} > 13"),
           ("index<20", "{index} lt 20"), ("resid 1-3", "{resid} 1 to 3")]
_REPS3 = _REPS3T[:4]
_REPS3Q = [("protein", "{protein}"), ("mass>13", "{mass} > 13"), ("index<20", "{index} lt 20")]


def _spell(reps, seed):
    allkw = {}
    for tab in (R.BOOL_KW, R.STR_KW, R.NUM_KW):
        for c, als in tab.items():
            allkw[c] = als[seed % len(als)]
    return [(i, t.format(**allkw)) for i, t in reps]


def reps(which, seed):
    return _spell({"2": _REPS2, "3": _REPS3, "3q": _REPS3Q, "3t": _REPS3T}[which], seed)


# ------------------------------------------------------------------------------------------------
# trees:  ("leaf", id, text, is_bool) | ("not", spelling, T) | ("bin", "and"|"or", spelling, L, R)
# ------------------------------------------------------------------------------------------------
def leaves(rp):
    return [("leaf", i, t, " " not in t) for i, t in rp]


def trees2(lv):
    """all trees of depth <= 2"""
    out = list(lv)
    for sp in R.NOT_SP:
        out += [("not", sp, x) for x in lv]
    out += bins(lv, lv)
    return out


def bins(ls, rs):
    out = []
    for kind, sps in (("and", R.AND_SP), ("or", R.OR_SP)):
        for sp in sps:
            for a in ls:
                for b in rs:
                    out.append(("bin", kind, sp, a, b))
    return out


def trees3(lv):
    """all trees of depth <= 3 (not only over leaves / leaf-pairs)"""
    t2 = trees2(lv)
    out = list(t2)
    pairs = [t for t in t2 if t[0] == "bin"]
    for sp in R.NOT_SP:
        out += [("not", sp, x) for x in pairs]
    out += [t for t in bins(t2, t2) if not (t[3][0] == "leaf" and t[4][0] == "leaf")]
    return out


def triples(lv):
    """the three-leaf slice of depth 3 without `not`:  (a c1 b) c2 c  and  a c1 (b c2 c)"""
    pairs = bins(lv, lv)
    return bins(pairs, lv) + bins(lv, pairs)


def key(t):
    """spelling-independent identity of a tree"""
    if t[0] == "leaf":
        return t[1]
    if t[0] == "not":
        return ("not", key(t[2]))
    return (t[1], key(t[3]), key(t[4]))


_PREC = {"or": 1, "and": 2}


def _prec(t):
    return 4 if t[0] == "leaf" else (3 if t[0] == "not" else _PREC[t[1]])


def _notsp(sp):
    return "!" if sp == "!" else "not "


def render(t, mode, top=True):
    """mode: flat | min | full | leafparen"""
    if t[0] == "leaf":
        if mode == "leafparen" and not t[3] and not top:
            return "(" + t[2] + ")"
        return t[2]
    if t[0] == "not":
        c = t[2]
        inner = render(c, mode, False)
        if c[0] == "bin" or (mode in ("full",) and c[0] != "leaf"):
            inner = "(" + inner + ")"
        return _notsp(t[1]) + inner
    parts = []
    for side, child in enumerate((t[3], t[4])):
        s = render(child, mode, False)
        if child[0] != "leaf":
            if mode in ("full", "leafparen"):
                s = "(" + s + ")"
            elif mode == "min":
                # and/or are associative, but keep the tree shape visible on the right-hand side
                if _prec(child) < _prec(t) or (side == 1 and child[0] == "bin" and _prec(child) == _prec(t)):
                    s = "(" + s + ")"
        parts.append(s)
    return "%s %s %s" % (parts[0], t[2], parts[1])


def tree_truth(t, atom, leaf_trees):
    """direct evaluation of an abstract tree (leaf_trees: text -> parsed reference node)"""
    if t[0] == "leaf":
        return R.truth(leaf_trees[t[2]], atom)
    if t[0] == "not":
        return not tree_truth(t[2], atom, leaf_trees)
    a = tree_truth(t[3], atom, leaf_trees)
    b = tree_truth(t[4], atom, leaf_trees)
    return (a and b) if t[1] == "and" else (a or b)


def programs(trees, modes):
    """-> list of (string, tree_key or None, preserves): every distinct rendering of every tree.
    `preserves` tells whether the rendering keeps the tree's meaning under the conventional
    precedence (min/full/leafparen always do; flat only when it coincides with min)."""
    seen = {}
    out = []
    for t in trees:
        k = key(t)
        m = render(t, "min")
        for mode in modes:
            s = m if mode == "min" else render(t, mode)
            pres = mode != "flat" or s == m
            if s in seen:
                # the same string reached from another tree/mode: keep one entry; a meaning-
                # preserving reading wins over a flat one
                j = seen[s]
                if pres and not out[j][2]:
                    out[j] = (s, k, True)
                continue
            seen[s] = len(out)
            out.append((s, k if pres else None, pres))
    return out


# ------------------------------------------------------------------------------------------------
# malformed strings (must be rejected) and recorded-only strings (the property is silent)
# ------------------------------------------------------------------------------------------------
MALFORMED = [
    ("", "empty"), ("   ", "empty"),
    ("(", "unbalanced-paren"), (")", "unbalanced-paren"), ("(protein", "unbalanced-paren"),
    ("protein)", "unbalanced-paren"), ("((protein)", "unbalanced-paren"), ("(protein))", "unbalanced-paren"),
    ("()", "empty-paren"), ("protein and ()", "empty-paren"),
    ("protein and (water", "unbalanced-paren"), ("protein and water)", "unbalanced-paren"),
    ("and", "dangling-operator"), ("or", "dangling-operator"), ("not", "dangling-operator"), ("!", "dangling-operator"),
    ("&&", "dangling-operator"), ("||", "dangling-operator"), ("==", "dangling-operator"), ("=~", "dangling-operator"),
    ("protein and", "dangling-operator"), ("protein &&", "dangling-operator"), ("protein or", "dangling-operator"),
    ("protein ||", "dangling-operator"), ("and protein", "dangling-operator"), ("or protein", "dangling-operator"),
    ("&& protein", "dangling-operator"), ("|| protein", "dangling-operator"),
    ("protein and and water", "dangling-operator"), ("protein and or water", "dangling-operator"),
    ("protein not", "dangling-operator"), ("protein !", "dangling-operator"),
    ("name ==", "dangling-operator"), ("== CA", "dangling-operator"), ("name == == CA", "dangling-operator"),
    ("mass >", "dangling-operator"), ("< 5", "dangling-operator"), ("mass lt", "dangling-operator"), ("lt 5", "dangling-operator"),
    ("name =~", "dangling-operator"), ("=~ 'C.*'", "dangling-operator"),
    ("resid 1 to", "dangling-to"), ("resid to 3", "dangling-to"), ("resid 1 to 3 to", "dangling-to"),
    ("resid 1 to to 3", "dangling-to"), ("to", "dangling-to"), ("1 to 3", "dangling-to"),
    ("resid 1 to 3 to 5", "dangling-to"),
    ("CA", "bare-literal"), ("'CA'", "bare-literal"), ('"CA"', "bare-literal"), ("dog", "bare-literal"),
    ("5", "bare-literal"), ("1", "bare-literal-0-or-1"), ("0", "bare-literal-0-or-1"), ("1.0", "bare-literal-0-or-1"),
    ("1.5", "bare-literal"), ("(CA)", "bare-literal"), ("(1)", "bare-literal-0-or-1"), ("CA CB", "bare-literal"),
    ("5 == 5", "literal-vs-literal"), ("1 < 2", "literal-vs-literal"), ("CA == CB", "literal-vs-literal"),
    ("'CA' eq 'CA'", "literal-vs-literal"), ("CA =~ 'C.*'", "literal-vs-literal"), ("1 to 3 to 5", "literal-vs-literal"),
    ("2 gt 1", "literal-vs-literal"), ("1 == 1 and protein", "literal-vs-literal"),
    ("dog 5", "unknown-keyword"), ("dog == 5", "unknown-keyword"), ("dog frog", "unknown-keyword"),
    ("not dog", "unknown-keyword"), ("protein or dog", "unknown-keyword"), ("dog 1 to 5", "unknown-keyword"),
    ("dog and protein", "unknown-keyword"), ("protein and dog", "unknown-keyword"), ("! dog", "unknown-keyword"),
    ("proteins", "unknown-keyword"), ("resnam ALA", "unknown-keyword"), ("Protein", "unknown-keyword"),
    ("protein and CA", "literal-as-truth"), ("CA or water", "literal-as-truth"), ("not CA", "literal-as-truth"),
    ("not 5", "literal-as-truth"), ("protein && 5", "literal-as-truth"),
    ("name 'CA", "unterminated-quote"), ('name "CA', "unterminated-quote"), ("name == 'CA", "unterminated-quote"),
    ("name CA'", "unterminated-quote"),
    ("name CA, CB", "stray-character"), ("name [CA]", "stray-character"), ("name CA;", "stray-character"),
    ("protein # x", "stray-character"), ("protein & water", "stray-character"), ("protein | water", "stray-character"),
    ("name = CA", "stray-character"), ("mass => 5", "stray-character"), ("resid 1.2.3", "malformed-number"),
    ("name == CA CB", "trailing-tokens"), ("resid 1 to 3 5", "trailing-tokens"),
    ("mass > 5 6", "trailing-tokens"), ("(protein) water", "trailing-tokens"), ("protein (water)", "trailing-tokens"),
]

# the documentation's examples always separate tokens by single blanks; whether blanks are optional
# is not stated.  These variants are executed; raising is recorded, but a returned selection must
# equal the reference reading.
WHITESPACE = [
    "!(protein)", "!protein", "! protein", "not (protein)", "not(protein)", "( protein )", "((protein))",
    "mass<20", "mass <20", "mass< 20", "mass  <  20", "protein&&water", "protein||water", "(protein)and(water)",
    "name=~'C.*'", "name CA or(water)", "protein\nand water", "protein\tand water", "  protein  ",
    "not not protein", "!!protein", "! ! protein", "not ! protein", "resid 1  to  3", "name  CA   CB",
]

# strings on which the documentation is silent: executed and recorded, never judged
RECORDED = [
    "name", "mass", "resid", "protein == True", "protein 1", "protein water", "protein 1 to 3", "resid one", "name 5",
    "resid 1 2 to 3", "name to", "resid -1", "resid > -1", "True", "False", "None", "name None", "name < CB",
    "name 'C A'", "5 < mass < 20", "name name", "resname water", "all all", "mass 12.011", "index 1.0",
    "rescode == None", "segment_id ''", "name == ''",
]

NESTING = ["protein", "name CA", "mass > 13"]   # wrapped in 1..5 pairs of parentheses
