"""Process isolation for single executions: a crash (SIGSEGV, abort) or a C-level hang of the code under
test becomes an observation instead of killing or hanging the explorer."""
import os
import pickle
import select
import signal
import time


def isolated(fn, timeout=30.0):
    """Run fn() in a forked child.  Returns ("ok", value) | ("exc", repr) | ("crash", signum|exitcode) |
    ("timeout", seconds)."""
    r, w = os.pipe()
    pid = os.fork()
    if pid == 0:
        code = 0
        try:
            os.close(r)
            try:
                val = ("ok", fn())
            except BaseException as e:  # noqa
                val = ("exc", "%s: %s" % (type(e).__name__, str(e)[:300]))
            data = pickle.dumps(val)
            with os.fdopen(w, "wb") as f:
                f.write(data)
        except BaseException:  # noqa
            code = 17
        finally:
            os._exit(code)
    os.close(w)
    chunks = []
    deadline = time.time() + timeout
    timed_out = False
    while True:
        left = deadline - time.time()
        if left <= 0:
            timed_out = True
            break
        rl, _, _ = select.select([r], [], [], left)
        if not rl:
            timed_out = True
            break
        b = os.read(r, 1 << 16)
        if not b:
            break
        chunks.append(b)
    os.close(r)
    if timed_out:
        try:
            os.kill(pid, signal.SIGKILL)
        except OSError:
            pass
        os.waitpid(pid, 0)
        return ("timeout", timeout)
    _pid, status = os.waitpid(pid, 0)
    if os.WIFSIGNALED(status):
        return ("crash", "signal %d" % os.WTERMSIG(status))
    data = b"".join(chunks)
    if not data:
        return ("crash", "exit %d without result" % os.WEXITSTATUS(status))
    try:
        return pickle.loads(data)
    except Exception as e:  # noqa
        return ("crash", "unreadable result: %r" % e)
