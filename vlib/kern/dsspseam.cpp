// Kernel seam for property C15: exposes the rule engine of mdtraj/geometry/src/dssp.cpp (the part of
// dssp() that runs after the Kabsch-Sander H-bond computation) on an ARBITRARY backbone H-bond pattern.
//
// The repo sources are #included, so the static functions calculate_beta_sheets / calculate_alpha_helices
// (and through it calculate_bends) are the ones of the tree under test; they are called in the same
// order and with the same argument conventions as dssp() does:
//     hbonds[2*donor + {0,1}] = acceptor residue (NH residue -> CO residue), -1 = empty slot
//     skip[i] != 0  <=> residue i lacks one of N, CA, C, O
//     chain_ids[i]  =   chain index of residue i
// Only the enum -> char switch at the end of dssp() is repeated here (it is inline in dssp(); the
// end-to-end layer of the check covers it through md.compute_dssp).
#include "geometry.cpp"   // kabsch_sander (dssp() refers to it)
#include "dssp.cpp"

static char seam_code(ss_t s) {
    switch (s) {
        case SS_ALPHAHELIX:  return 'H';
        case SS_BETABRIDGE:  return 'B';
        case SS_STRAND:      return 'E';
        case SS_HELIX_3:     return 'G';
        case SS_HELIX_5:     return 'I';
        case SS_TURN:        return 'T';
        case SS_BEND:        return 'S';
        case SS_LOOP:        return ' ';
    }
    return '?';
}

extern "C" {

// One pattern.  xyz: (n_atoms,3) float32, ca_indices: (n_residues,), out: n_residues chars.
int dsspseam_rules(const int* hbonds, const float* xyz, const int* ca_indices, const int* chain_ids,
                   const int* skip_in, int n_atoms, int n_residues, char* out)
{
    std::vector<int> skip(skip_in, skip_in + n_residues);
    std::vector<ss_t> sec(n_residues, SS_LOOP);
    calculate_beta_sheets(chain_ids, hbonds, skip, n_residues, sec);
    calculate_alpha_helices(xyz, ca_indices, chain_ids, hbonds, skip, n_atoms, n_residues, sec);
    for (int j = 0; j < n_residues; j++)
        out[j] = seam_code(sec[j]);
    return 0;
}

// Batch: P patterns of the same n_residues, each evaluated on T CA traces.  Every residue has exactly
// one atom (its CA), so ca_indices = 0..n-1 and n_atoms = n_residues.  hbonds (P,n,2), traces (T,n,3),
// chain_ids (P,n), skip (P,n), out (P,T,n).
int dsspseam_rules_batch(int P, int n, const int* hbonds, int T, const float* traces, const int* chain_ids,
                         const int* skip, char* out)
{
    std::vector<int> ca(n);
    for (int i = 0; i < n; i++) ca[i] = i;
    for (int p = 0; p < P; p++)
        for (int t = 0; t < T; t++)
            dsspseam_rules(hbonds + (size_t)p*2*n, traces + (size_t)t*3*n, &ca[0], chain_ids + (size_t)p*n,
                           skip + (size_t)p*n, n, n, out + ((size_t)p*T + t)*n);
    return 0;
}

// The H-bond pattern exactly as dssp() computes it for one frame (same initialisation of the two
// output arrays as in dssp(): hbonds = -1, henergies = 0).
int dsspseam_hbonds(const float* framexyz, const int* nco_indices, const int* ca_indices,
                    const int* is_proline, int n_atoms, int n_residues, int* hbonds_out, float* henergies_out)
{
    std::vector<int> hbonds(n_residues*2, -1);
    std::vector<float> henergies(n_residues*2, 0);
    kabsch_sander(framexyz, nco_indices, ca_indices, is_proline, 1, n_atoms, n_residues, &hbonds[0], &henergies[0]);
    for (int i = 0; i < 2*n_residues; i++) { hbonds_out[i] = hbonds[i]; henergies_out[i] = henergies[i]; }
    return 0;
}

// dssp() itself on raw arrays (no Python wrapper in between).
int dsspseam_dssp(const float* xyz, const int* nco_indices, const int* ca_indices, const int* is_proline,
                  const int* chain_ids, int n_frames, int n_atoms, int n_residues, char* secondary)
{
    dssp(xyz, nco_indices, ca_indices, is_proline, chain_ids, n_frames, n_atoms, n_residues, secondary);
    return 0;
}

}
